package c20

import (
	"fmt"
	"math/rand"
	"sort"
	"strconv"
	"strings"
	"sync"

	"github.com/spikeekips/mitum/base"
	"github.com/spikeekips/mitum/isaac"
	"github.com/spikeekips/mitum/util"
	"verifharness/c19/dbrig"
)

// A write history is the sequence of calls one block's BlockWriteDatabase
// sees before it is merged into the Center. The callers in the repository do
// not call every setter exactly once in one order: the block writer calls
// SetStates / SetOperations once per state / operation from a pool of
// goroutines, then Write, then SetBlockMap, then SetSuffrageProof; the block
// importer calls SetBlockMap first and Write last; a block which is saved again
// hands another (re-signed) block map of the same manifest to the same write
// database. The generator below draws histories from that space; nothing in it
// knows which of two calls the database keeps.

type setterCall struct {
	Kind  string // map | states | ops | proof
	Idx   int    // map / proof: which of the objects of the history
	Label string // what the call carries, for the script / witness
	f     func(isaac.BlockWriteDatabase) error
}

type history struct {
	Style      string // importer | writer | shuffled
	Concurrent bool
	before     []setterCall // before Write
	after      []setterCall // after Write (block map / suffrage proof only)
	maps       []base.BlockMap
	cands      []candidates

	MapCalls      int
	StateCalls    int
	StateRepeats  int // states handed over a second time, identical
	StateVariants int // states handed over a second time with the same key and height, other content
	OpCalls       int
	OpRepeats     int
	ProofCalls    int
}

// Repeated says which setters were called more than once.
func (h *history) Repeated() []string {
	var s []string

	if h.MapCalls > 1 {
		s = append(s, "SetBlockMap")
	}

	if h.StateCalls > 1 {
		s = append(s, "SetStates")
	}

	if h.OpCalls > 1 {
		s = append(s, "SetOperations")
	}

	if h.ProofCalls > 1 {
		s = append(s, "SetSuffrageProof")
	}

	return s
}

func (h *history) Plain() bool {
	return len(h.Repeated()) < 1 && !h.Concurrent && h.Style == "importer"
}

func bucket(n int) string {
	switch {
	case n < 3:
		return strconv.Itoa(n)
	default:
		return "3+"
	}
}

// Fingerprint is the shape of the history (not its random content).
func (h *history) Fingerprint() string {
	mode := "seq"
	if h.Concurrent {
		mode = "conc"
	}

	return fmt.Sprintf("%s/%s/maps=%d/stcalls=%s+rep%v+var%v/opcalls=%s+rep%v/proofs=%d",
		h.Style, mode, h.MapCalls, bucket(h.StateCalls), h.StateRepeats > 0, h.StateVariants > 0,
		bucket(h.OpCalls), h.OpRepeats > 0, h.ProofCalls)
}

func (h *history) String() string {
	ls := func(cs []setterCall) string {
		s := make([]string, len(cs))
		for i := range cs {
			s[i] = cs[i].Label
		}

		return strings.Join(s, " ")
	}

	sep := " ; "
	if h.Concurrent {
		sep = " || "
	}

	return fmt.Sprintf("[%s] {%s}%sWrite%s{%s}", h.Style, ls(h.before), sep, sep, ls(h.after))
}

func splitStates(rng *rand.Rand, sts []base.State, maxparts int) [][]base.State {
	if len(sts) < 1 {
		return nil
	}

	parts := 1 + rng.Intn(min(maxparts, len(sts)))
	out := make([][]base.State, 0, parts)

	rest := sts
	for i := parts; i > 1; i-- {
		n := 1 + rng.Intn(len(rest)-(i-1))
		out = append(out, rest[:n])
		rest = rest[n:]
	}

	return append(out, rest)
}

func splitOps(rng *rand.Rand, ops []util.Hash, maxparts int) [][]util.Hash {
	if len(ops) < 1 {
		return nil
	}

	parts := 1 + rng.Intn(min(maxparts, len(ops)))
	out := make([][]util.Hash, 0, parts)

	rest := ops
	for i := parts; i > 1; i-- {
		n := 1 + rng.Intn(len(rest)-(i-1))
		out = append(out, rest[:n])
		rest = rest[n:]
	}

	return append(out, rest)
}

// planHistory draws the write history of block b. Every object handed to the
// write database is valid for b: block maps are b's manifest signed (again) by
// the local node or by another node; repeated states are b's states again, or
// a state of the same key and height with another previous hash / operations;
// a second suffrage proof is a proof of the same suffrage state.
func (s *run) planHistory(rng *rand.Rand, b *dbrig.Block) *history {
	h := &history{}

	if rng.Intn(100) < 25 {
		// the one history the monitor always drove: every setter once, in
		// the importer's order
		h.Style = "importer"
		h.maps = []base.BlockMap{b.Map}
		h.before = append(h.before, mapCall(0, b.Map), statesCall("all", b.States), opsCall("all", b.Ops))
		h.MapCalls, h.StateCalls, h.OpCalls = 1, 1, 1

		if b.Proof != nil {
			h.before = append(h.before, proofCall(0, b.Proof))
			h.ProofCalls = 1
		}

		return h
	}

	// block maps
	h.maps = []base.BlockMap{b.Map}

	switch p := rng.Intn(100); {
	case p < 45:
	case p < 85:
		h.maps = append(h.maps, s.resign(rng, b))
	default:
		h.maps = append(h.maps, s.resign(rng, b), s.resign(rng, b))
	}

	var mapcalls, proofcalls, datacalls []setterCall

	for i := range h.maps {
		mapcalls = append(mapcalls, mapCall(i, h.maps[i]))
	}

	h.MapCalls = len(mapcalls)

	if len(h.maps) > 1 {
		c := candidates{setter: "SetBlockMap"}
		for i := range h.maps {
			c.tokens = append(c.tokens, h.maps[i].Signature().String())
		}

		h.cands = append(h.cands, c)
	}

	// states
	for i, part := range splitStates(rng, b.States, 4) {
		datacalls = append(datacalls, statesCall(fmt.Sprintf("part%d", i), part))
		h.StateCalls++
	}

	if len(b.States) > 0 && rng.Intn(100) < 35 {
		n := 1 + rng.Intn(min(3, len(b.States)))
		again := make([]base.State, n)

		for i := range again {
			again[i] = b.States[rng.Intn(len(b.States))]
		}

		datacalls = append(datacalls, statesCall("again", again))
		h.StateCalls++
		h.StateRepeats += n
	}

	if len(b.States) > 0 && rng.Intn(100) < 35 {
		n := 1 + rng.Intn(min(2, len(b.States)))
		variants := make([]base.State, n)
		bykey := map[string]int{}

		for i := range variants {
			o := b.States[rng.Intn(len(b.States))]

			ops := make([]util.Hash, rng.Intn(3))
			for j := range ops {
				ops[j] = dbrig.Hash(rng)
				s.gen.U.InStateOps[ops[j].String()] = ops[j]
			}

			variants[i] = base.NewBaseState(o.Height(), o.Key(), o.Value(), dbrig.Hash(rng), ops)

			if at, ok := bykey[o.Key()]; ok {
				h.cands[at].tokens = append(h.cands[at].tokens, variants[i].Hash().String())
			} else {
				bykey[o.Key()] = len(h.cands)
				h.cands = append(h.cands, candidates{setter: "SetStates", tokens: []string{o.Hash().String(), variants[i].Hash().String()}})
			}
		}

		datacalls = append(datacalls, statesCall("variant", variants))
		h.StateCalls++
		h.StateVariants += n
	}

	// known operations
	for i, part := range splitOps(rng, b.Ops, 3) {
		datacalls = append(datacalls, opsCall(fmt.Sprintf("part%d", i), part))
		h.OpCalls++
	}

	if len(b.Ops) > 0 && rng.Intn(100) < 30 {
		again := []util.Hash{b.Ops[rng.Intn(len(b.Ops))]}
		datacalls = append(datacalls, opsCall("again", again))
		h.OpCalls++
		h.OpRepeats++
	}

	// suffrage proofs
	if b.Proof != nil {
		proofcalls = append(proofcalls, proofCall(0, b.Proof))

		if rng.Intn(100) < 50 {
			mp := h.maps[rng.Intn(len(h.maps))]
			other := dbrig.NewRigSuffrageProof(b.Proof.State(), mp)
			proofcalls = append(proofcalls, proofCall(1, other))

			if first, ok := b.Proof.(dbrig.RigSuffrageProof); ok {
				h.cands = append(h.cands, candidates{setter: "SetSuffrageProof", tokens: []string{first.ID, other.ID}})
			}
		}

		h.ProofCalls = len(proofcalls)
	}

	shuffle := func(cs []setterCall) {
		rng.Shuffle(len(cs), func(i, j int) { cs[i], cs[j] = cs[j], cs[i] })
	}

	switch p := rng.Intn(100); {
	case p < 25: // importer: block map, then data, then proof, then Write
		h.Style = "importer"
		shuffle(mapcalls)
		shuffle(datacalls)
		shuffle(proofcalls)
		h.before = append(append(append(h.before, mapcalls...), datacalls...), proofcalls...)
	case p < 55: // block writer: data, Write, block map, proof
		h.Style = "writer"
		shuffle(mapcalls)
		shuffle(datacalls)
		shuffle(proofcalls)
		h.before = datacalls
		h.after = append(append(h.after, mapcalls...), proofcalls...)
	default: // any order; only the data calls have to precede Write
		h.Style = "shuffled"

		meta := append(append([]setterCall{}, mapcalls...), proofcalls...)
		shuffle(meta)

		k := rng.Intn(len(meta) + 1)
		h.before = append(append(h.before, datacalls...), meta[:k]...)
		h.after = append(h.after, meta[k:]...)
		shuffle(h.before)
	}

	h.Concurrent = rng.Intn(100) < 40

	return h
}

func (s *run) resign(rng *rand.Rand, b *dbrig.Block) base.BlockMap {
	signer := s.env.Signer
	if rng.Intn(2) == 0 {
		signer = s.othernode
	}

	return base.NewDummyBlockMapWithSign(b.Map.Manifest(), signer.Address(), signer.Privatekey())
}

func mapCall(i int, m base.BlockMap) setterCall {
	return setterCall{Kind: "map", Idx: i, Label: fmt.Sprintf("SetBlockMap(#%d by %s)", i, m.Signer()), f: func(bw isaac.BlockWriteDatabase) error {
		return bw.SetBlockMap(m)
	}}
}

func statesCall(what string, sts []base.State) setterCall {
	return setterCall{Kind: "states", Label: fmt.Sprintf("SetStates(%s:%d)", what, len(sts)), f: func(bw isaac.BlockWriteDatabase) error {
		return bw.SetStates(sts)
	}}
}

func opsCall(what string, ops []util.Hash) setterCall {
	return setterCall{Kind: "ops", Label: fmt.Sprintf("SetOperations(%s:%d)", what, len(ops)), f: func(bw isaac.BlockWriteDatabase) error {
		return bw.SetOperations(ops)
	}}
}

func proofCall(i int, p base.SuffrageProof) setterCall {
	return setterCall{Kind: "proof", Idx: i, Label: fmt.Sprintf("SetSuffrageProof(#%d)", i), f: func(bw isaac.BlockWriteDatabase) error {
		return bw.SetSuffrageProof(p)
	}}
}

func runCalls(bw isaac.BlockWriteDatabase, cs []setterCall, concurrent bool) error {
	if !concurrent || len(cs) < 2 {
		for i := range cs {
			if err := cs[i].f(bw); err != nil {
				return fmt.Errorf("%s: %w", cs[i].Label, err)
			}
		}

		return nil
	}

	errs := make([]error, len(cs))
	start := make(chan struct{})

	var wg sync.WaitGroup

	for i := range cs {
		wg.Add(1)

		go func(i int) {
			defer wg.Done()

			<-start

			if err := cs[i].f(bw); err != nil {
				errs[i] = fmt.Errorf("%s: %w", cs[i].Label, err)
			}
		}(i)
	}

	close(start)
	wg.Wait()

	for i := range errs {
		if errs[i] != nil {
			return errs[i]
		}
	}

	return nil
}

// commitWithHistory writes block b through history h and merges the write
// database into the Center. It answers which of the block maps handed over is
// the one the write database holds ("kept"), as an observation only.
func (s *run) commitWithHistory(b *dbrig.Block, h *history) (kept string, err error) {
	bw, err := s.st.Center.NewBlockWriteDatabase(b.Height)
	if err != nil {
		return "", err
	}

	if err := runCalls(bw, h.before, h.Concurrent); err != nil {
		return "", err
	}

	if err := bw.Write(); err != nil {
		return "", fmt.Errorf("Write: %w", err)
	}

	if err := runCalls(bw, h.after, h.Concurrent); err != nil {
		return "", err
	}

	kept = "?"

	if m, err := bw.BlockMap(); err == nil && m != nil {
		nth := 0

		for _, c := range append(append([]setterCall{}, h.before...), h.after...) {
			if c.Kind != "map" {
				continue
			}

			nth++

			if m.Signature().Equal(h.maps[c.Idx].Signature()) {
				kept = fmt.Sprintf("call-%d-of-%d", nth, len(h.maps))
			}
		}
	}

	if err := s.st.Center.MergeBlockWriteDatabase(bw); err != nil {
		return kept, fmt.Errorf("MergeBlockWriteDatabase: %w", err)
	}

	return kept, nil
}

// heightInfo is what the monitor remembers of the history of a committed
// block: which setters were called more than once (witness, counters) and
// which different objects were handed to one setter for one slot (violation
// signatures, see historyOf).
type heightInfo struct {
	repeated   map[string]bool
	concurrent bool
	cands      []candidates
}

// candidates are the different objects one block's history handed to one
// setter for one slot (the block map; the suffrage proof; the state of one
// key), each named by a token which the identity and the encoded body of the
// object contain (signature; proof id; state hash).
type candidates struct {
	setter string
	tokens []string
}

func (s *run) remember(b *dbrig.Block, h *history) {
	info := &heightInfo{repeated: map[string]bool{}, concurrent: h.Concurrent, cands: h.cands}
	for _, k := range h.Repeated() {
		info.repeated[k] = true
	}

	s.hist[b.Height] = info
}

func (s *run) forget(from base.Height) {
	for h := range s.hist {
		if h >= from {
			delete(s.hist, h)
		}
	}
}

func (s *run) anyRepeated() bool {
	for _, info := range s.hist {
		if len(info.repeated) > 0 {
			return true
		}
	}

	return false
}

// setterOf names the setter which stores what a read kind answers.
func setterOf(kind string) string {
	kind = strings.TrimPrefix(kind, "perm.")

	switch {
	case strings.Contains(kind, "BlockMap"):
		return "SetBlockMap"
	case strings.Contains(kind, "SuffrageProof"):
		return "SetSuffrageProof"
	case strings.HasPrefix(kind, "State"):
		return "SetStates"
	default:
		return ""
	}
}

func isWordByte(c byte) bool {
	return c >= '0' && c <= '9' || c >= 'a' && c <= 'z' || c >= 'A' && c <= 'Z'
}

// containsToken: tok occurs in s and is not the prefix of a longer word.
func containsToken(s, tok string) bool {
	for from := 0; ; {
		i := strings.Index(s[from:], tok)
		if i < 0 {
			return false
		}

		end := from + i + len(tok)
		if end >= len(s) || !isWordByte(s[end]) {
			return true
		}

		from = end
	}
}

func whichToken(a dbrig.Answer, tokens []string) int {
	for i := range tokens {
		if containsToken(a.ID, tokens[i]) || containsToken(a.Body, tokens[i]) {
			return i
		}
	}

	return -1
}

// historyOf answers the signature component of a read which differs between
// the running and the reopened instance: ":other-call-of-repeated-<setter>"
// when the two answers are two different objects which one block's write
// history handed to the same setter for the same slot (the instances kept
// different calls of a repeated setter); "" for every other way of differing.
func (s *run) historyOf(q string, before, after dbrig.Answer) string {
	setter := setterOf(dbrig.Kind(q))
	if setter == "" || !before.Found || !after.Found {
		return ""
	}

	hs := make([]base.Height, 0, len(s.hist))
	for h := range s.hist {
		hs = append(hs, h)
	}

	sort.Slice(hs, func(i, j int) bool { return hs[i] < hs[j] })

	for _, h := range hs {
		for _, c := range s.hist[h].cands {
			if c.setter != setter {
				continue
			}

			x, y := whichToken(before, c.tokens), whichToken(after, c.tokens)
			if x >= 0 && y >= 0 && x != y {
				return ":other-call-of-repeated-" + c.setter
			}
		}
	}

	return ""
}

func signID(m base.BlockMap) string {
	if m == nil || m.Signer() == nil || m.Signature() == nil {
		return "sign:none"
	}

	return fmt.Sprintf("sign:h%d:%s:%s", m.Manifest().Height(), m.Signer(), m.Signature())
}

// readSigns adds, for the last block map and the block map of every height,
// who signed the block map object answered and with which signature: two block
// maps of one manifest are different objects.
func readSigns(rs dbrig.ReadSet, prefix string, r dbrig.Reader, maxheight base.Height) {
	ans := func(m base.BlockMap, found bool, err error) dbrig.Answer {
		switch {
		case err != nil:
			e := err.Error()
			if len(e) > 200 {
				e = e[:200]
			}

			return dbrig.Answer{Err: e}
		case !found:
			return dbrig.Answer{}
		default:
			return dbrig.Answer{Found: true, ID: signID(m)}
		}
	}

	rs[prefix+"LastBlockMap.sign"] = ans(r.LastBlockMap())

	for h := base.GenesisHeight; h <= maxheight+2; h++ {
		rs[fmt.Sprintf("%sBlockMap.sign:%d", prefix, h)] = ans(r.BlockMap(h))
	}
}
