package c21

import (
	"crypto/sha1"
	"encoding/hex"
	"fmt"
	"sort"
	"strings"
	"testing"
	"time"

	"github.com/pkg/errors"
	"github.com/spikeekips/mitum/base"
	leveldbstorage "github.com/spikeekips/mitum/storage/leveldb"
	"verifharness/c19/dbrig"
	"verifharness/vlib"
)

// A scenario: a short committed chain, then ONE block which is either written
// and merged into the Center (phase "write") or merged from its temp database
// into the permanent database (phase "perm-merge") while the storage fails
// every write after the k-th one.
type scenario struct {
	Phase     string // write | perm-merge
	Size      string
	States    int  // ordinary states of the block under test
	StateOps  int  // in-state operations per state (exactly)
	Ops       int  // known operations
	Abandoned bool // phase write: an unfinished write of the same height exists already
}

func (s scenario) name() string {
	n := s.Phase + "/" + s.Size
	if s.Abandoned {
		n += "+abandoned"
	}

	return n
}

type built struct {
	st      *dbrig.Store
	gen     *dbrig.Gen
	chain   *dbrig.Chain // every block of the scenario, committed or under test
	under   base.Height  // height of the block under test
	armed   func() error // the operation which runs with the fault armed
	keysUT  int
	prePerm map[string]struct{}
	preBW   map[string]struct{}
}

// build replays the scenario up to the point where the fault is armed. The
// PRNG is re-created from the same indices, so every run of a scenario has the
// same blocks.
func build(r *vlib.Run, env *dbrig.Env, si int, sc scenario) (*built, error) {
	rng := r.Rand(1, si)

	st, err := dbrig.OpenStore(env, dbrig.StoreConfig{PermCache: []int{0, 64}[si%2], TempCache: []int{0, 4096}[(si/2)%2]})
	if err != nil {
		return nil, err
	}

	b := &built{st: st, gen: dbrig.NewGen(env, rng, "s"), chain: &dbrig.Chain{}}

	small := dbrig.BlockOpt{States: 4, FreshKey: 1, Ops: 2, StateOps: 1}
	commit := func(opt dbrig.BlockOpt) error {
		blk := b.gen.Next(b.chain, opt)
		if err := st.Commit(blk); err != nil {
			return err
		}

		b.chain.Append(blk)

		return nil
	}

	// 0 genesis, 1 plain, 2 suffrage change; 0 and 1 into the permanent database
	for i, opt := range []dbrig.BlockOpt{small, small, small} {
		opt.Suffrage = i == 2

		if err := commit(opt); err != nil {
			return nil, err
		}
	}

	if err := st.Center.MergeAllPermanent(); err != nil {
		return nil, err
	}

	// the block under test rewrites about a third of the existing keys, changes
	// suffrage and policy, so that every kind of read has something to lose
	big := dbrig.BlockOpt{States: sc.States, FreshKey: 0.7, Ops: sc.Ops, StateOps: sc.StateOps, Suffrage: true, Policy: true}
	b.under = b.chain.Top() + 1

	switch sc.Phase {
	case "write":
		if sc.Abandoned {
			ab := b.gen.Next(b.chain, small)
			if _, err := st.Write(ab); err != nil {
				return nil, err
			}
		}

		blk := b.gen.Next(b.chain, big)
		b.chain.Append(blk) // model: the candidate prefixes are chain[:under] and chain[:under+1]
		b.keysUT = blk.Keys()
		b.armed = func() error { return st.Commit(blk) }
	case "perm-merge":
		blk := b.gen.Next(b.chain, big)
		b.keysUT = blk.Keys()

		if err := st.Commit(blk); err != nil {
			return nil, err
		}

		b.chain.Append(blk)

		if err := commit(small); err != nil {
			return nil, err
		}

		// temps [under+1, under, under-1]: merge under-1, then the armed merge takes under
		switch merged, err := st.MergeOne(); {
		case err != nil:
			return nil, err
		case !merged:
			return nil, errors.Errorf("setup: nothing merged")
		}

		b.armed = func() error {
			switch merged, err := st.MergeOne(); {
			case err != nil:
				return err
			case !merged:
				return errors.Errorf("armed merge: nothing merged")
			default:
				return nil
			}
		}
	default:
		return nil, errors.Errorf("unknown phase")
	}

	if b.prePerm, err = dbrig.PermanentKeys(st.St); err != nil {
		return nil, err
	}

	if b.preBW, err = dbrig.BlockWriteKeys(st.St); err != nil {
		return nil, err
	}

	return b, nil
}

func kindsOf(keys []string, strip int) string {
	m := map[string]int{}

	for _, k := range keys {
		if len(k) < strip {
			m["?"]++

			continue
		}

		m[dbrig.RecordKind(k[strip:])]++
	}

	ks := make([]string, 0, len(m))
	for k := range m {
		ks = append(ks, k)
	}

	sort.Strings(ks)

	for i, k := range ks {
		ks[i] = fmt.Sprintf("%s:%d", k, m[k])
	}

	return "{" + strings.Join(ks, " ") + "}"
}

const bwPrefixLen = 8 + 26 // height bytes + ULID

// survivors describes what the crashed operation left in the storage relative
// to the moment the fault was armed.
func survivors(b *built, st *leveldbstorage.Storage) (summary, fp string) {
	perm, _ := dbrig.PermanentKeys(st)
	bw, _ := dbrig.BlockWriteKeys(st)

	var permNew, bwNew, bwGone []string

	for k := range perm {
		if _, ok := b.prePerm[k]; !ok {
			permNew = append(permNew, k)
		}
	}

	for k := range bw {
		if _, ok := b.preBW[k]; !ok {
			bwNew = append(bwNew, k)
		}
	}

	for k := range b.preBW {
		if _, ok := bw[k]; !ok {
			bwGone = append(bwGone, k)
		}
	}

	norm := func(ks []string, strip bool) []string {
		o := make([]string, len(ks))

		for i, k := range ks {
			if strip && len(k) >= bwPrefixLen {
				k = k[:8] + k[bwPrefixLen:] // drop the random ULID of the block write
			}

			o[i] = k
		}

		sort.Strings(o)

		return o
	}

	h := sha1.New()
	for _, part := range [][]string{norm(permNew, false), {"|"}, norm(bwNew, true), {"|"}, norm(bwGone, true)} {
		for _, k := range part {
			h.Write([]byte(k))
			h.Write([]byte{0})
		}
	}

	summary = fmt.Sprintf("permanent+%s temps+%s temps-%s", kindsOf(permNew, 0), kindsOf(bwNew, bwPrefixLen), kindsOf(bwGone, bwPrefixLen))

	return summary, hex.EncodeToString(h.Sum(nil))[:12]
}

type witness struct {
	Scenario   string
	Budget     int
	Boundaries []string
	Survivors  string
	Visible    string
	Mismatches []dbrig.Mismatch
}

func describeLog(log []leveldbstorage.VerifWriteEvent) []string {
	out := make([]string, len(log))

	for i, ev := range log {
		ks := make([]string, len(ev.Keys))
		for j := range ev.Keys {
			ks[j] = string(ev.Keys[j])
		}

		var kinds string

		switch {
		case len(ks) > 0 && len(ks[0]) >= 2 && ks[0][0] == 0x01 && ks[0][1] == 0x02:
			kinds = "permanent" + kindsOf(ks, 2)
		case len(ks) > 0 && len(ks[0]) >= 2 && ks[0][0] == 0x01 && ks[0][1] == 0x01:
			kinds = "temp" + kindsOf(ks, 2+bwPrefixLen)
		default:
			kinds = kindsOf(ks, 0)
		}

		dels := 0

		for _, d := range ev.Delete {
			if d {
				dels++
			}
		}

		out[i] = fmt.Sprintf("#%d %s keys=%d deletes=%d %s failed=%v", ev.Seq, ev.Op, len(ev.Keys), dels, kinds, ev.Failed)
	}

	return out
}

// judge: the read set must be the model's read set of one of the allowed
// prefixes of the chain (block under test fully visible, or not at all with
// the last height below it).
func judge(r *vlib.Run, b *built, sc scenario, when string, got dbrig.ReadSet, w witness) (visible int) {
	lo, hi := int(b.under), len(b.chain.Blocks)

	for n := hi; n >= lo; n-- {
		if len(dbrig.DiffModel(got, dbrig.Expected(b.gen.U, b.chain.Blocks[:n]))) < 1 {
			return n
		}
	}

	// which prefix does the store claim? the one its last block map names
	claimed := -1

	if a, ok := got["LastBlockMap"]; ok && a.Found {
		for n := 1; n <= hi; n++ {
			if dbrig.MapID(b.chain.Blocks[n-1].Map) == a.ID {
				claimed = n
			}
		}
	}

	if claimed < lo || claimed > hi {
		w.Visible = fmt.Sprintf("last block map %q", got["LastBlockMap"].Short())
		r.Violation("crash:"+sc.Phase+":last-block-out-of-range",
			fmt.Sprintf("%s, crash at write %d, %s: the last block map after restart is %q; only heights %d..%d can be the last block",
				sc.name(), w.Budget, when, got["LastBlockMap"].Short(), lo-1, hi-1), w)

		return -1
	}

	ms := dbrig.DiffModel(got, dbrig.Expected(b.gen.U, b.chain.Blocks[:claimed]))
	w.Mismatches = dbrig.Head(ms, 6)
	w.Visible = fmt.Sprintf("last block %d", claimed-1)

	r.Violation("crash:"+sc.Phase+":partial-block:"+families(ms),
		fmt.Sprintf("%s, crash at write %d, %s: last block is %d but %d reads do not show what the chain up to it holds (block under test: %d), e.g. %s answered %q, the model says %q; storage after the crash: %s",
			sc.name(), w.Budget, when, claimed-1, len(ms), b.under, ms[0].Query, ms[0].Got, ms[0].Want, w.Survivors), w)

	return -1
}

// families: which families of reads are wrong (State and StateBytes are one
// family): the kind of failure, independent of which batches happened to land.
func families(ms []dbrig.Mismatch) string {
	set := map[string]struct{}{}
	for i := range ms {
		set[strings.TrimSuffix(dbrig.Kind(ms[i].Query), "Bytes")] = struct{}{}
	}

	ks := make([]string, 0, len(set))
	for k := range set {
		ks = append(ks, k)
	}

	sort.Strings(ks)

	return strings.Join(ks, ",")
}

type outcome struct {
	nboundaries int
	log         []string
	ok          bool
}

// runOnce: one scenario run with write budget k (k<0: only log boundaries).
func runOnce(r *vlib.Run, env *dbrig.Env, si int, sc scenario, k, rep int) (out outcome) {
	b, err := build(r, env, si, sc)
	if err != nil {
		r.Inconclusive(fmt.Sprintf("setup of %s failed: %v", sc.name(), err))

		return out
	}

	defer func() { _ = b.st.Close() }()

	old := b.st.St
	leveldbstorage.VerifFaultArm(old, k)

	opErr := b.armed()

	// "process stopped": nothing of the process survives. The storage is closed
	// while the fault is still armed for it, so that no straggling goroutine of
	// the interrupted operation can write after the stop.
	var sum, fp string

	b.st.AfterStorageOpen = func(st *leveldbstorage.Storage) { sum, fp = survivors(b, st) }

	rerr := b.st.Reopen()
	log := leveldbstorage.VerifFaultReset()

	out.log = describeLog(log)

	for _, ev := range log {
		if !ev.Failed {
			out.nboundaries++
		}
	}

	if k < 0 {
		if opErr != nil {
			r.Inconclusive(fmt.Sprintf("%s: operation failed without a fault: %v", sc.name(), opErr))
		}

		out.ok = opErr == nil && rerr == nil

		return out
	}

	w := witness{Scenario: sc.name(), Budget: k, Boundaries: out.log, Survivors: sum}

	faulted := opErr != nil
	if faulted && !errors.Is(opErr, leveldbstorage.ErrVerifFault) && !strings.Contains(opErr.Error(), "verif: injected write fault") {
		// the operation lost the cause (e.g. "merge to permanent database"): still a stop at that boundary
		r.Count("fault_error_cause_lost", 1)
	}

	if rerr != nil {
		r.Violation("crash:"+sc.Phase+":restart-fails", fmt.Sprintf("%s, crash at write %d: restart failed: %v", sc.name(), k, rerr), w)

		return out
	}

	r.Count("crash_points_tried", 1)
	r.Count("crash_points_"+sc.Phase, 1)

	if faulted {
		r.Count("runs_stopped_by_fault", 1)
	} else {
		r.Count("runs_completed_without_fault", 1)
	}

	r.SetAdd("surviving_keysets_"+sc.Phase, fp)
	r.SetAdd("surviving_keysets_"+sc.name(), fp)

	var v1, v2 int

	if r.Guard("read-after-restart", w, func() {
		v1 = judge(r, b, sc, "after-restart", b.st.Read(b.gen.U), w)
	}) {
		return out
	}

	if v1 < 0 {
		return out
	}

	// the node then merges what it can into the permanent database (launch.LoadDatabase)
	if err := b.st.Center.MergeAllPermanent(); err != nil {
		r.Violation("crash:"+sc.Phase+":startup-merge-fails", fmt.Sprintf("%s, crash at write %d: MergeAllPermanent after restart failed: %v", sc.name(), k, err), w)

		return out
	}

	if r.Guard("read-after-startup-merge", w, func() {
		v2 = judge(r, b, sc, "after-startup-merge", b.st.Read(b.gen.U), w)
	}) {
		return out
	}

	if v1 >= 0 && v2 >= 0 {
		r.Count(fmt.Sprintf("outcome_%s_last_block_%+d_relative_to_block_under_test", sc.Phase, v1-1-int(b.under)), 1)

		if v1 != v2 {
			r.Count("last_block_changed_by_startup_merge", 1)
		}
	}

	r.Case(fmt.Sprintf("%s/k=%d/visible=%d,%d/%s", sc.name(), k, v1, v2, fp))

	if rep == 0 && ((sc.name() == "write/large(>333 keys)" && (k == 3 || k == 7)) || (sc.name() == "perm-merge/xlarge(>700 keys)" && (k == 1 || k == 3))) {
		r.Sample(map[string]any{"scenario": sc.name(), "crash_at_write": k, "storage_after_crash": sum, "blocks_visible_after_restart": v1, "after_startup_merge": v2, "block_under_test": b.under})
	}

	out.ok = true

	return out
}

func TestC21(t *testing.T) {
	r := vlib.Start(t, "C21", vlib.LevelFault)
	defer r.Finish()

	r.SetRule("case = (scenario, write boundary k, repetition): the scenario is replayed on a fresh store with the same blocks, every leveldb write after the k-th fails (hook H3), the store is closed, reopened and rebuilt (LeveldbPermanent + Center), the full read set is taken after the restart and again after the start-up MergeAllPermanent; each must equal the model of a chain prefix which holds the block under test completely or not at all. Every k from 0 to the number of boundaries of the operation is tried. distinct = (scenario, k, visible prefix, set of keys which survived in the storage)")
	r.Assume("crash model: fail-stop at a write boundary (Storage.Put/Delete/Batch): a write which returned is durable, a single leveldb write or batch is never torn, no write is issued after the stop; writes of parallel workers which were already past the boundary when the process stopped may or may not have reached the storage")
	r.Assume("blocks not being written/merged at the crash are only required to stay a consistent prefix (the statement speaks about the block in flight)")
	r.Exhaustive(true)

	env := dbrig.NewEnv()

	var scs []scenario

	for _, ph := range []string{"write", "perm-merge"} {
		scs = append(scs,
			scenario{Phase: ph, Size: "small(3 states)", States: 3, StateOps: 0, Ops: 0},
			scenario{Phase: ph, Size: "medium(~100 keys)", States: 60, StateOps: 1, Ops: 10},
			scenario{Phase: ph, Size: "large(>333 keys)", States: 260, StateOps: 1, Ops: 20},
			scenario{Phase: ph, Size: "xlarge(>700 keys)", States: 520, StateOps: 1, Ops: 40},
		)
	}

	scs = append(scs, scenario{Phase: "write", Size: "medium(~100 keys)", States: 60, StateOps: 1, Ops: 10, Abandoned: true})

	reps := r.N(5, 50)
	totalBoundaries := 0

	for si, sc := range scs {
		var logrun outcome

		if !r.WithWatchdog(5*time.Minute, "boundary log "+sc.name(), func() { logrun = runOnce(r, env, si, sc, -1, 0) }) || !logrun.ok {
			continue
		}

		totalBoundaries += logrun.nboundaries
		r.Set("boundaries_"+sc.name(), logrun.nboundaries)
		r.Logf("%s: %d write boundaries", sc.name(), logrun.nboundaries)

		if sc.name() == "write/large(>333 keys)" || sc.name() == "perm-merge/xlarge(>700 keys)" {
			r.Sample(map[string]any{"scenario": sc.name(), "write_boundaries": logrun.log})
		}

		for k := 0; k <= logrun.nboundaries; k++ {
			for rep := 0; rep < reps; rep++ {
				if !r.WithWatchdog(5*time.Minute, fmt.Sprintf("%s k=%d", sc.name(), k), func() { runOnce(r, env, si, sc, k, rep) }) {
					return
				}
			}
		}
	}

	r.Set("boundaries_enumerated", totalBoundaries)
	r.Set("repetitions_per_crash_point", reps)

	if r.Counter("runs_stopped_by_fault") < 1 {
		r.Inconclusive("no run was stopped by an injected fault")
	}
}
