package c22

import (
	"context"
	"fmt"
	"strings"
	"testing"
	"time"

	"github.com/spikeekips/mitum/base"
	"github.com/spikeekips/mitum/isaac"
	isaacdatabase "github.com/spikeekips/mitum/isaac/database"
	leveldbstorage "github.com/spikeekips/mitum/storage/leveldb"
	"github.com/spikeekips/mitum/util"
	"github.com/spikeekips/mitum/util/encoder"
	"github.com/spikeekips/mitum/util/valuehash"
	"verifharness/vlib"
)

// rig: encoders as the repository's own pool tests build them
// (isaac/database/test_database.go + pool_test.go testNewOperationPool).
type rig struct {
	bt        isaacdatabase.BaseTestDatabase
	keys      []base.Privatekey
	networkID base.NetworkID
}

func must(err error) {
	if err != nil {
		panic(err)
	}
}

func newRig() *rig {
	g := &rig{}
	g.bt.SetupSuite()
	must(g.bt.Enc.Add(encoder.DecodeDetail{Hint: isaac.DummyOperationFactHint, Instance: isaac.DummyOperationFact{}}))
	must(g.bt.Enc.Add(encoder.DecodeDetail{Hint: isaac.DummyOperationHint, Instance: isaac.DummyOperation{}}))
	for i := 0; i < 8; i++ {
		g.keys = append(g.keys, base.NewMPrivatekey())
	}
	g.networkID = util.UUID().Bytes()

	return g
}

func (g *rig) pool(cache int) *isaacdatabase.TempPool {
	p, err := isaacdatabase.NewTempPool(leveldbstorage.NewMemStorage(), g.bt.Encs, g.bt.Enc, cache)
	must(err)

	return p
}

// model of one operation submitted to the pool
type mop struct {
	idx    int // insertion order (position of the first successful SetOperation)
	fact   int // fact label
	name   string
	oph    string
	facth  string
	op     base.Operation
	reject int // index of the OperationHashes call whose filter rejected it, -1 if none
	given  int // index of the first OperationHashes call which returned it, -1 if none
}

// step of a history, as shown in witnesses
type step struct {
	Kind     string   // "add", "readd", "hashes"
	Ops      []string `json:",omitempty"` // add: names in insertion order (F<fact>.<n>)
	Limit    uint64   `json:",omitempty"`
	Rejected []string `json:",omitempty"` // hashes: names the filter of this call rejects (among live ones)
	Result   []string `json:",omitempty"`
	Note     string   `json:",omitempty"`
}

type witness struct {
	Case    int
	History []step
}

type caseRun struct {
	r     *vlib.Run
	g     *rig
	ci    int
	pool  *isaacdatabase.TempPool
	ops   []*mop          // by insertion order
	byOp  map[string]*mop // op hash -> model
	hist  []step
	calls int
	nfact map[int]int
	last  int64
	dead  bool // the pool panicked; the case is over
}

func (c *caseRun) wit() witness { return witness{Case: c.ci, History: append([]step{}, c.hist...)} }

// tick waits until the wall clock nanosecond differs from the last insertion,
// so that the pool's time-ordered key reflects the insertion order.
func (c *caseRun) tick() {
	for {
		n := time.Now().UnixNano()
		if n > c.last {
			c.last = n
			return
		}
	}
}

func (c *caseRun) add(fact int, factObj isaac.DummyOperationFact, key base.Privatekey) {
	op, err := isaac.NewDummyOperation(factObj, key, c.g.networkID)
	must(err)
	c.nfact[fact]++
	m := &mop{idx: len(c.ops), fact: fact, name: fmt.Sprintf("F%d.%d", fact, c.nfact[fact]), oph: op.Hash().String(), facth: factObj.Hash().String(), op: op, reject: -1, given: -1}

	c.tick()
	var added bool
	panicked := c.r.Guard("SetOperation", c.wit(), func() {
		var err error
		added, err = c.pool.SetOperation(context.Background(), op)
		if err != nil {
			c.r.Violation("SetOperation:error", err.Error(), c.wit())
		}
	})
	c.tick()
	if panicked {
		c.dead = true
		return
	}
	c.r.Count("set_operation_new", 1)
	c.ops = append(c.ops, m)
	c.byOp[m.oph] = m
	if !added {
		c.r.Violation("SetOperation:first-add-returned-false", fmt.Sprintf("first SetOperation of %s returned false", m.name), c.wit())
	}
}

func (c *caseRun) readd(m *mop) {
	c.tick()
	var added bool
	panicked := c.r.Guard("SetOperation", c.wit(), func() {
		var err error
		added, err = c.pool.SetOperation(context.Background(), m.op)
		if err != nil {
			c.r.Violation("SetOperation:error", err.Error(), c.wit())
		}
	})
	c.tick()
	if panicked {
		c.dead = true
		return
	}
	c.r.Count("set_operation_again", 1)
	if added {
		state := "live"
		if m.reject >= 0 {
			state = "filtered-out"
		}
		c.r.Violation("SetOperation:second-add-returned-true:"+state, fmt.Sprintf("SetOperation of already added %s returned true", m.name), c.wit())
	}
}

// hashes runs one OperationHashes call and judges the answer.
func (c *caseRun) hashes(limit uint64, rejectSet map[string]bool) {
	r := c.r
	call := c.calls
	c.calls++

	st := step{Kind: "hashes", Limit: limit}
	for _, m := range c.ops {
		if rejectSet[m.oph] && m.reject < 0 {
			st.Rejected = append(st.Rejected, m.name)
		}
	}
	c.hist = append(c.hist, st)
	hi := len(c.hist) - 1

	asked := map[string]bool{} // operations the filter was asked about in this call
	var nrej int
	filter := func(meta isaac.PoolOperationRecordMeta) (bool, error) {
		h := meta.Operation().String()
		asked[h] = true
		if rejectSet[h] {
			nrej++
			return false, nil
		}
		return true, nil
	}

	var res [][2]util.Hash
	panicked := r.Guard("OperationHashes", c.wit(), func() {
		var err error
		res, err = c.pool.OperationHashes(context.Background(), base.Height(33+int64(call)), limit, filter)
		if err != nil {
			r.Violation("OperationHashes:error", err.Error(), c.wit())
		}
	})
	// whatever the filter rejected is "filtered out" from now on
	for h := range asked {
		if m := c.byOp[h]; m != nil && rejectSet[h] && m.reject < 0 {
			m.reject = call
		}
	}
	r.Count("operation_hashes_calls", 1)
	r.Count("filter_rejections", nrej)
	if uint64(nrej) > limit {
		r.Count("calls_rejecting_more_than_limit", 1)
	}
	if nrej > 333 {
		r.Count("calls_rejecting_more_than_333", 1)
	}
	if len(asked)-nrej-int(limit) > 333 {
		r.Count("calls_dropping_more_than_333_older_duplicates", 1)
	}
	if panicked {
		c.hist[hi].Note = "panic"
		c.dead = true
		return
	}

	names := make([]string, len(res))
	for i := range res {
		if m := c.byOp[res[i][0].String()]; m != nil {
			names[i] = m.name
		} else {
			names[i] = "?" + res[i][0].String()
		}
	}
	c.hist[hi].Result = names
	r.Count("entries_returned", len(res))
	if len(res) > 0 {
		r.Count("calls_nonempty", 1)
	}

	// (1) at most limit
	if uint64(len(res)) > limit {
		r.Violation("OperationHashes:more-than-limit", fmt.Sprintf("limit %d, %d entries returned", limit, len(res)), c.wit())
	}

	// (2) pairwise distinct operations and facts
	seenOp, seenFact := map[string]string{}, map[string]string{}
	for i := range res {
		oh, fh := res[i][0].String(), res[i][1].String()
		if prev, ok := seenOp[oh]; ok {
			r.Violation("OperationHashes:duplicate-operation-in-result", fmt.Sprintf("operation %s (%s) returned twice", names[i], prev), c.wit())
		}
		if prev, ok := seenFact[fh]; ok {
			r.Violation("OperationHashes:duplicate-fact-in-result", fmt.Sprintf("%s and %s have the same fact and are both returned: %v", prev, names[i], names), c.wit())
		}
		seenOp[oh], seenFact[fh] = names[i], names[i]
	}

	// window: with a full answer the pool need not have looked beyond the
	// newest entry it returned; with a short answer it has seen everything.
	bound := len(c.ops)
	if uint64(len(res)) >= limit {
		bound = -1
		for i := range res {
			if m := c.byOp[res[i][0].String()]; m != nil && m.idx > bound {
				bound = m.idx
			}
		}
	}

	for i := range res {
		m := c.byOp[res[i][0].String()]
		// (3) stored, right fact, passes the filter
		if m == nil {
			r.Violation("OperationHashes:entry-never-added", fmt.Sprintf("entry %s was never added", names[i]), c.wit())
			continue
		}
		if m.facth != res[i][1].String() {
			r.Violation("OperationHashes:entry-fact-mismatch", fmt.Sprintf("entry %s returned with another fact hash", m.name), c.wit())
		}
		r.Guard("Operation", c.wit(), func() {
			op, found, err := c.pool.Operation(context.Background(), res[i][0])
			switch {
			case err != nil:
				r.Violation("Operation:error", err.Error(), c.wit())
			case !found:
				r.Violation("OperationHashes:entry-not-stored", fmt.Sprintf("entry %s is not found by Operation()", m.name), c.wit())
			case !op.Hash().Equal(res[i][0]) || !op.Fact().Hash().Equal(res[i][1]):
				r.Violation("OperationHashes:entry-stored-differently", fmt.Sprintf("entry %s: stored operation has other hashes", m.name), c.wit())
			}
		})
		if rejectSet[m.oph] {
			r.Violation("OperationHashes:entry-fails-filter", fmt.Sprintf("entry %s is rejected by the filter of this call", m.name), c.wit())
		}
		// (6) filtered out earlier => never again
		if m.reject >= 0 && m.reject < call {
			r.Violation("OperationHashes:filtered-out-returned-again", fmt.Sprintf("%s was rejected by the filter of call %d and is returned by call %d", m.name, m.reject, call), c.wit())
		}
		// (4) most recently added operation of the fact
		for _, n := range c.ops[m.idx+1:] {
			if n.fact != m.fact || rejectSet[n.oph] || (n.reject >= 0 && n.reject <= call) {
				continue
			}
			if n.idx > bound {
				r.Count("newer_duplicate_beyond_full_answer", 1) // not demanded, see assumptions
				continue
			}
			shape := "newer-never-returned-before"
			if n.given >= 0 {
				shape = "newer-was-returned-by-earlier-call"
			}
			r.Violation("OperationHashes:older-duplicate-chosen:"+shape, fmt.Sprintf("call %d returned %s although %s (same fact, added later, passes the filter, never filtered out) is in the pool; result %v", call, m.name, n.name, names), c.wit())
			break
		}
	}
	for i := range res {
		if m := c.byOp[res[i][0].String()]; m != nil && m.given < 0 {
			m.given = call
		}
	}
}

func TestC22(t *testing.T) {
	r := vlib.Start(t, "C22", vlib.LevelExploration)
	defer r.Finish()
	r.SetRule("case = history over one real TempPool (leveldb MemStorage): 3..10 rounds of [SetOperation of new DummyOperations (1..12 shared facts re-signed by different keys plus unique facts; 1..200 operations per case; one case in 150 is large: 900..1400 operations, 3/4 of them added before the first question, filters rejecting 0/70/90 percent, so that single calls reject and drop as older duplicates several hundred entries), SetOperation again of already added ones (live and filtered-out), OperationHashes(limit 1..50, filter rejecting a random subset incl. more than limit entries)]; every answer is judged against an insertion-ordered model; distinct = (operations, facts, rounds, limits, rejected counts); non-trivial = at least one fact added more than once and at least one non-empty answer")
	r.Assume("insertions are sequential and separated by at least one wall-clock nanosecond (the pool's order key is the insertion time)")
	r.Assume("limit >= 1 (launch/p_proposal_maker.go never asks with n < 1)")
	r.Assume("'most recently added operation is chosen' is judged by insertion order among operations of the fact that pass the filter of the call and were never filtered out; when the answer is full (limit entries) operations added after the newest returned entry are not demanded to have been considered (counted as newer_duplicate_beyond_full_answer)")
	r.Assume("cleanRemovedNewOperations (the periodic purge) is not run during a history")

	g := newRig()
	ncases := r.N(300, 5000)
	r.WithWatchdog(time.Duration(r.N(15, 90))*time.Minute, "C22 workload", func() {
		directed(r, g)
		for ci := 0; ci < ncases; ci++ {
			runCase(r, g, ci)
		}
	})
	if r.Counter("entries_returned") == 0 {
		r.Inconclusive("no OperationHashes entry was observed")
	}
}

func newCase(r *vlib.Run, g *rig, ci, cache int) *caseRun {
	return &caseRun{r: r, g: g, ci: ci, pool: g.pool(cache), byOp: map[string]*mop{}, nfact: map[int]int{}}
}

func newFact() isaac.DummyOperationFact {
	return isaac.NewDummyOperationFact(util.UUID().Bytes(), valuehash.RandomSHA256())
}

func runCase(r *vlib.Run, g *rig, ci int) {
	rng := r.Rand(22, ci)
	cache := 0
	if rng.Intn(3) == 0 {
		cache = 1 + rng.Intn(64)
	}
	c := newCase(r, g, ci, cache)
	defer func() { _ = c.pool.DeepClose() }()

	nshared := 1 + rng.Intn(12)
	shared := make([]isaac.DummyOperationFact, nshared)
	for i := range shared {
		shared[i] = newFact()
	}
	total := 1 + rng.Intn(r.N(120, 200))
	if ci%5 == 0 {
		total = 1 + rng.Intn(12)
	}
	uniqP := []int{0, 10, 50, 90}[rng.Intn(4)] // percent of operations with a fact of their own
	rounds := 3 + rng.Intn(8)
	// large cases: 900..1400 operations, most of them added before the first
	// question, so that one OperationHashes call rejects / drops as older
	// duplicates more entries than any internal batch or worker size (127, 333)
	large := ci%r.N(150, 170) == 2
	if large {
		total = 900 + rng.Intn(500)
		uniqP = 2 // fewer facts than the limit: every call goes through the whole pool
		rounds = 3
		r.Count("large_cases", 1)
	}
	nextUniq := nshared

	var fpLimits, fpRej []string
	left := total
	for k := 0; k < rounds && !c.dead; k++ {
		// add
		n := left
		if k < rounds-1 {
			n = rng.Intn(left + 1)
			if k == 0 && n == 0 {
				n = 1
			}
			if large && k == 0 {
				n = left * 3 / 4
			}
		}
		left -= n
		st := step{Kind: "add"}
		c.hist = append(c.hist, st)
		hi := len(c.hist) - 1
		for i := 0; i < n && !c.dead; i++ {
			if rng.Intn(100) < uniqP {
				c.add(nextUniq, newFact(), g.keys[rng.Intn(len(g.keys))])
				nextUniq++
			} else {
				f := rng.Intn(nshared)
				c.add(f, shared[f], g.keys[rng.Intn(len(g.keys))])
			}
			if !c.dead {
				c.hist[hi].Ops = append(c.hist[hi].Ops, c.ops[len(c.ops)-1].name)
			}
		}
		// add again
		if len(c.ops) > 0 && rng.Intn(2) == 0 {
			m := 1 + rng.Intn(4)
			for i := 0; i < m && !c.dead; i++ {
				x := c.ops[rng.Intn(len(c.ops))]
				c.hist = append(c.hist, step{Kind: "readd", Ops: []string{x.name}})
				c.readd(x)
			}
		}
		if c.dead {
			break
		}
		// ask
		nask := 1 + rng.Intn(2)
		for a := 0; a < nask && !c.dead; a++ {
			limit := uint64(1 + rng.Intn(50))
			if rng.Intn(4) == 0 {
				limit = uint64(1 + rng.Intn(4))
			}
			rejP := []int{0, 0, 10, 50, 90}[rng.Intn(5)]
			if large {
				rejP = []int{0, 70, 90}[(k+a+ci/r.N(150, 170))%3]
				limit = 50
			}
			rej := map[string]bool{}
			for _, m := range c.ops {
				if rng.Intn(100) < rejP {
					rej[m.oph] = true
				}
			}
			c.hashes(limit, rej)
			fpLimits = append(fpLimits, fmt.Sprint(limit))
			fpRej = append(fpRej, fmt.Sprint(len(rej)))
		}
	}

	dupFacts := 0
	for _, n := range c.nfact {
		if n > 1 {
			dupFacts++
		}
	}
	nonempty := false
	for _, s := range c.hist {
		if s.Kind == "hashes" && len(s.Result) > 0 {
			nonempty = true
		}
	}
	fp := fmt.Sprintf("ops=%d facts=%d dup=%d L=%s R=%s", len(c.ops), len(c.nfact), dupFacts, strings.Join(fpLimits, ","), strings.Join(fpRej, ","))
	if dupFacts > 0 && nonempty {
		r.Case(fp)
	} else {
		r.Eval(1)
	}
	if ci < 3 {
		h := c.hist
		if len(h) > 6 {
			h = h[:6]
		}
		r.Sample(map[string]any{"case": ci, "operations": len(c.ops), "facts": len(c.nfact), "facts_added_more_than_once": dupFacts, "first_steps": h})
	}
}

// directed histories: the shapes named in DESIGN.md, run on every seed so
// that their verdict does not depend on the PRNG.
func directed(r *vlib.Run, g *rig) {
	// (a) more rejections than limit
	{
		c := newCase(r, g, -1, 0)
		st := step{Kind: "add"}
		for i := 0; i < 6; i++ {
			c.add(i, newFact(), g.keys[0])
			st.Ops = append(st.Ops, c.ops[i].name)
		}
		c.hist = append(c.hist, st)
		rej := map[string]bool{}
		for _, m := range c.ops[:4] {
			rej[m.oph] = true
		}
		c.hashes(2, rej) // 4 rejected, limit 2
		if !c.dead {
			c.hashes(10, nil)
		}
		r.Case("directed:reject-more-than-limit")
		r.Sample(map[string]any{"case": "directed: 6 operations, filter rejects the first 4, limit 2", "history": c.hist})
		_ = c.pool.DeepClose()
	}
	// (b) two facts, each added twice, interleaved: A1 B1 A2 B2
	{
		c := newCase(r, g, -2, 0)
		fa, fb := newFact(), newFact()
		c.add(0, fa, g.keys[0])
		c.add(1, fb, g.keys[0])
		c.add(0, fa, g.keys[1])
		c.add(1, fb, g.keys[1])
		c.hist = append(c.hist, step{Kind: "add", Ops: []string{"F0.1", "F1.1", "F0.2", "F1.2"}})
		c.hashes(10, nil)
		r.Case("directed:A1-B1-A2-B2")
		r.Sample(map[string]any{"case": "directed: facts A,B each added twice, interleaved; limit 10", "history": c.hist})
		_ = c.pool.DeepClose()
	}
	// (c) one fact added twice, asked twice
	{
		c := newCase(r, g, -3, 0)
		fa := newFact()
		c.add(0, fa, g.keys[0])
		c.add(1, newFact(), g.keys[0])
		c.add(0, fa, g.keys[1])
		c.hist = append(c.hist, step{Kind: "add", Ops: []string{"F0.1", "F1.1", "F0.2"}})
		c.hashes(10, nil)
		if !c.dead {
			c.hashes(10, nil)
		}
		r.Case("directed:A1-B1-A2-asked-twice")
		_ = c.pool.DeepClose()
	}
	// (d) filtered out, added again, asked again
	{
		c := newCase(r, g, -4, 0)
		c.add(0, newFact(), g.keys[0])
		c.add(1, newFact(), g.keys[0])
		c.hist = append(c.hist, step{Kind: "add", Ops: []string{"F0.1", "F1.1"}})
		c.hashes(10, map[string]bool{c.ops[0].oph: true})
		if !c.dead {
			c.hist = append(c.hist, step{Kind: "readd", Ops: []string{"F0.1"}})
			c.readd(c.ops[0])
			c.hashes(10, nil)
		}
		r.Case("directed:filtered-out-readd")
		_ = c.pool.DeepClose()
	}
}
