package c23

import (
	"context"
	"fmt"
	"sort"
	"strings"
	"sync"
	"testing"
	"time"

	"github.com/spikeekips/mitum/base"
	"github.com/spikeekips/mitum/isaac"
	isaacdatabase "github.com/spikeekips/mitum/isaac/database"
	leveldbstorage "github.com/spikeekips/mitum/storage/leveldb"
	"github.com/spikeekips/mitum/util"
	"github.com/spikeekips/mitum/util/encoder"
	"verifharness/vlib"
)

// rig: encoders as the repository's own pool tests build them
// (isaac/database/test_database.go + pool_test.go testSuffrageExpelPool).
type rig struct {
	bt        isaacdatabase.BaseTestDatabase
	signer    base.LocalNode
	networkID base.NetworkID
}

func newRig() *rig {
	g := &rig{}
	g.bt.SetupSuite()
	must(g.bt.Enc.Add(encoder.DecodeDetail{Hint: isaac.SuffrageExpelOperationHint, Instance: isaac.SuffrageExpelOperation{}}))
	must(g.bt.Enc.Add(encoder.DecodeDetail{Hint: isaac.SuffrageExpelFactHint, Instance: isaac.SuffrageExpelFact{}}))
	g.signer = base.RandomLocalNode()
	g.networkID = util.UUID().Bytes()

	return g
}

func must(err error) {
	if err != nil {
		panic(err)
	}
}

func (g *rig) pool() *isaacdatabase.TempPool {
	p, err := isaacdatabase.NewTempPool(leveldbstorage.NewMemStorage(), g.bt.Encs, g.bt.Enc, 0)
	must(err)

	return p
}

// model record of one stored expel operation (key in the pool: end + fact hash)
type rec struct {
	Node       int
	Start, End int64
	fact       string          // fact hash
	ophashes   map[string]bool // every operation hash stored under this fact
	op         base.SuffrageExpelOperation
}

func (x rec) covers(h int64) bool { return x.Start <= h && h <= x.End }
func (x rec) String() string      { return fmt.Sprintf("n%d[%d,%d]", x.Node, x.Start, x.End) }

type caseInfo struct {
	Case    int
	Ops     []string
	Height  int64  `json:",omitempty"`
	Node    string `json:",omitempty"`
	Phase   string
	Got     []string `json:",omitempty"`
	Want    []string `json:",omitempty"`
	Removed string   `json:",omitempty"`
}

func TestC23(t *testing.T) {
	r := vlib.Start(t, "C23", vlib.LevelExploration)
	defer r.Finish()
	r.SetRule("case = a set of 1..40 signed SuffrageExpelOperations (1..6 nodes; one case in 150 is large: 1200..1600 operations of 30..50 nodes, lookups for 6 of the nodes, one remove-by-height taking out several hundred and one remove-by-fact of about 4/5 of the rest, so that single calls cross internal batch sizes such as 333; ranges [start,end] inside a 20-height window, several per node, some starting above later query heights) stored in a real TempPool on a leveldb MemStorage; every height of the window +-2 is queried with TraverseSuffrageExpelOperations (callback always continues) and SuffrageExpelOperation(h,node) for every node, then 1..4 RemoveSuffrageExpelOperationsByHeight calls (heights random, not monotonic, half of the later ones the same height again or a lower one) interleaved with further sets (half of them ranges which already ended at or before the last removal height), a ...ByFact removal and possibly more sets and by-height removals follow, everything is queried again after every removal against the model applied step by step; distinct = multiset of (node,start,end) relative to the window base; non-trivial = at least 2 operations and at least one query height covered by some but not all operations")
	r.Assume("only valid expel facts are stored (start > genesis, start <= end), as IsValid guarantees for operations reaching the pool")
	r.Assume("operations are identified by fact hash; two operations with the same (node,start,end) have the same fact hash and the pool keeps the one stored last (Put)")

	g := newRig()

	ncases := r.N(200, 2400)
	r.WithWatchdog(time.Duration(r.N(15, 90))*time.Minute, "C23 workload", func() { run(r, g, ncases) })

	if r.Counter("ops_visited") == 0 || r.Counter("lookup_expected_found") == 0 {
		r.Inconclusive("no traversal visit / successful lookup was observed")
	}
}

func run(r *vlib.Run, g *rig, ncases int) {
	ctx := context.Background()
	// a fresh pool per case: deleted keys stay in leveldb's memtable as
	// tombstones and every later iteration would have to step over them
	var pool *isaacdatabase.TempPool
	for ci := 0; ci < ncases; ci++ {
		rng := r.Rand(23, ci)
		if pool != nil {
			_ = pool.DeepClose()
		}
		pool = g.pool()

		base0 := int64(2 + rng.Intn(1000))
		win := int64(20)
		nnodes := 1 + rng.Intn(6)
		// large cases: several hundred to ~1200 operations of many nodes, so that
		// one traverse / remove call handles more entries than any internal
		// batch size (333 elsewhere in this file of the repository)
		large := ci%largeEvery(r) == 1
		if large {
			nnodes = 30 + rng.Intn(21)
		}
		nodes := make([]base.Address, nnodes)
		for i := range nodes {
			nodes[i] = base.RandomAddress(fmt.Sprintf("n%d-", i))
		}
		nops := 1 + rng.Intn(40)
		if ci%7 == 0 {
			nops = 1 + rng.Intn(4)
		}
		if large {
			nops = 1200 + rng.Intn(400)
			r.Count("large_cases", 1)
		}
		// nodes asked in lookups (all of them, a sample in large cases)
		asknodes := nnodes
		if large {
			asknodes = 6
		}

		model := map[string]rec{}   // by fact hash
		archive := map[string]rec{} // everything ever stored in this case, incl. what a remove call took out of the model
		var order []string
		add := func(node int, s, e int64) {
			fact := isaac.NewSuffrageExpelFact(nodes[node], base.Height(s), base.Height(e), util.UUID().String())
			op := isaac.NewSuffrageExpelOperation(fact)
			must(op.NodeSign(g.signer.Privatekey(), g.networkID, g.signer.Address()))
			must(fact.IsValid(nil))
			x := rec{Node: node, Start: s, End: e, fact: fact.Hash().String(), ophashes: map[string]bool{op.Hash().String(): true}, op: op}
			if old, ok := model[x.fact]; ok {
				for k := range old.ophashes {
					x.ophashes[k] = true
				}
			}
			r.Guard("SetSuffrageExpelOperation", x.String(), func() {
				if err := pool.SetSuffrageExpelOperation(op); err != nil {
					r.Violation("SetSuffrageExpelOperation:error", err.Error(), x.String())
				}
			})
			if _, ok := model[x.fact]; !ok {
				order = append(order, x.fact)
			}
			model[x.fact] = x
			archive[x.fact] = x
			r.Count("ops_stored", 1)
		}
		for i := 0; i < nops; i++ {
			s := base0 + rng.Int63n(win)
			var e int64
			shape := rng.Intn(4)
			if large {
				shape = rng.Intn(2) + 1 // half short, half long ranges
			}
			switch shape {
			case 0:
				e = s
			case 1:
				e = s + rng.Int63n(3)
			default:
				e = s + rng.Int63n(base0+win-s)
			}
			add(rng.Intn(nnodes), s, e)
		}

		desc := func() []string {
			var out []string
			for _, f := range order {
				if x, ok := model[f]; ok {
					out = append(out, x.String())
				}
			}
			sort.Strings(out)
			if len(out) > 80 {
				out = append(out[:80:80], fmt.Sprintf("... and %d more", len(out)-80))
			}
			return out
		}
		fpParts := []string{}
		for _, f := range order {
			x := model[f]
			fpParts = append(fpParts, fmt.Sprintf("%d:%d-%d", x.Node, x.Start-base0, x.End-base0))
		}
		sort.Strings(fpParts)
		fp := strings.Join(fpParts, ",")

		nontrivial := false
		queryAll := func(phase string) (seen map[string]bool, ok bool) {
			seen = map[string]bool{}
			ok = true
			for h := base0 - 2; h <= base0+win+2; h++ {
				// expected
				want := map[string]rec{}
				for f, x := range model {
					if x.covers(h) {
						want[f] = x
					}
				}
				if len(want) > 0 && len(want) < len(model) {
					nontrivial = true
				}

				// traverse
				var visited []rec
				var unknown []string
				dup := false
				vis := map[string]int{}
				info := caseInfo{Case: ci, Ops: desc(), Height: h, Phase: phase}
				panicked := r.Guard("TraverseSuffrageExpelOperations", info, func() {
					{
						err := pool.TraverseSuffrageExpelOperations(ctx, base.Height(h), func(op base.SuffrageExpelOperation) (bool, error) {
							f := op.ExpelFact().Hash().String()
							x, known := model[f]
							if _, removed := archive[f]; !known && removed {
								seen[f] = true // judged by the remove check
								return true, nil
							}
							if !known {
								unknown = append(unknown, fmt.Sprintf("n?[%d,%d]", op.ExpelFact().ExpelStart(), op.ExpelFact().ExpelEnd()))
								return true, nil
							}
							vis[f]++
							if vis[f] > 1 {
								dup = true
							}
							visited = append(visited, x)
							return true, nil
						})
						if err != nil {
							r.Violation("Traverse:error", err.Error(), info)
						}
					}
				})
				if panicked || !ok {
					return seen, false
				}
				r.Count("traverse_calls", 1)
				r.Count("ops_visited", len(visited))
				maxSet(r, "max_visited_in_one_traverse", len(visited))
				for _, x := range visited {
					seen[x.fact] = true
				}
				var gots, wants []string
				for _, x := range visited {
					gots = append(gots, x.String())
				}
				for _, x := range want {
					wants = append(wants, x.String())
				}
				sort.Strings(gots)
				sort.Strings(wants)
				info.Got, info.Want = gots, wants
				if len(unknown) > 0 {
					info.Got = append(info.Got, unknown...)
					r.Violation("Traverse:visited-operation-not-stored", fmt.Sprintf("traverse(h=%d) visited an operation which is not stored", h), info)
				}
				if dup {
					r.Violation("Traverse:visited-twice", fmt.Sprintf("traverse(h=%d) visited an operation more than once", h), info)
				}
				for _, x := range visited {
					if !x.covers(h) {
						r.Violation("Traverse:visited-noncovering:"+rel(x, h), fmt.Sprintf("traverse(h=%d) visited %s which does not cover the height", h, x), info)
					}
				}
				for f, x := range want {
					if vis[f] == 0 {
						// salient shape: is there a stored operation ending later whose start is above h?
						r.Violation("Traverse:missed-covering:"+blocker(model, x, h), fmt.Sprintf("traverse(h=%d) did not visit %s although start<=h<=end; visited %v", h, x, gots), info)
					}
				}

				// lookup per node
				for ni := range nodes[:asknodes] {
					var wantn []rec
					for _, x := range want {
						if x.Node == ni {
							wantn = append(wantn, x)
						}
					}
					linfo := caseInfo{Case: ci, Ops: desc(), Height: h, Node: fmt.Sprintf("n%d", ni), Phase: phase}
					var got base.SuffrageExpelOperation
					var found bool
					panicked := r.Guard("SuffrageExpelOperation", linfo, func() {
						var err error
						got, found, err = pool.SuffrageExpelOperation(base.Height(h), nodes[ni])
						if err != nil {
							r.Violation("Lookup:error", err.Error(), linfo)
						}
					})
					if panicked {
						return seen, false
					}
					r.Count("lookup_calls", 1)
					for _, x := range wantn {
						linfo.Want = append(linfo.Want, x.String())
					}
					removedHit := false
					if found {
						f := got.ExpelFact().Hash().String()
						_, inModel := model[f]
						_, inArchive := archive[f]
						removedHit = !inModel && inArchive
					}
					switch {
					case removedHit:
						seen[got.ExpelFact().Hash().String()] = true // a removed operation: judged by the remove check
					case found && len(wantn) == 0:
						f := got.ExpelFact()
						linfo.Got = []string{fmt.Sprintf("[%d,%d]", f.ExpelStart(), f.ExpelEnd())}
						r.Violation("Lookup:found-but-no-covering-operation", fmt.Sprintf("lookup(h=%d,n%d) found %v but no stored operation of the node covers the height", h, ni, linfo.Got), linfo)
					case !found && len(wantn) > 0:
						r.Count("lookup_expected_found", 1)
						r.Violation("Lookup:notfound-but-covering-exists:"+blockerNode(model, wantn, ni, h), fmt.Sprintf("lookup(h=%d,n%d) found nothing although %v cover(s) the height", h, ni, linfo.Want), linfo)
					case found:
						r.Count("lookup_expected_found", 1)
						f := got.ExpelFact().Hash().String()
						x, known := model[f]
						switch {
						case !known:
							r.Violation("Lookup:returned-operation-not-stored", fmt.Sprintf("lookup(h=%d,n%d) returned an operation which is not stored", h, ni), linfo)
						case x.Node != ni || !x.covers(h):
							linfo.Got = []string{x.String()}
							r.Violation("Lookup:returned-noncovering-or-other-node", fmt.Sprintf("lookup(h=%d,n%d) returned %s", h, ni, x), linfo)
						case !x.ophashes[got.Hash().String()]:
							r.Violation("Lookup:returned-different-operation-hash", fmt.Sprintf("lookup(h=%d,n%d) returned %s with an operation hash that was never stored", h, ni, x), linfo)
						default:
							seen[f] = true
						}
					default:
						r.Count("lookup_expected_notfound", 1)
					}
				}
			}
			return seen, true
		}

		before, ok := queryAll("stored")
		if !ok {
			r.Case(fp)
			continue
		}

		// remove by height
		// remove by height, interleaved with further sets: the heights are not
		// monotonic, are repeated, and operations which already ended at or
		// before an earlier removal height are stored between two removals
		prevRh := int64(-1)
		heightRounds := func(rounds int) {
			for k := 0; k < rounds && ok; k++ {
				if prevRh >= 0 && rng.Intn(3) > 0 {
					nadd := 1 + rng.Intn(8)
					for i := 0; i < nadd; i++ {
						s0 := base0 + rng.Int63n(win)
						e0 := s0 + rng.Int63n(base0+win-s0)
						if rng.Intn(2) == 0 && prevRh > base0 { // ended at or before the last removal height
							e0 = base0 + rng.Int63n(prevRh-base0+1)
							s0 = base0 + rng.Int63n(e0-base0+1)
						}
						add(rng.Intn(nnodes), s0, e0)
						r.Count("ops_stored_between_removals", 1)
						if e0 <= prevRh {
							r.Count("ops_stored_already_ended_at_last_removal_height", 1)
						}
					}
					for f := range model {
						before[f] = true // stored; whether it is seen is the traverse check's business
					}
				}
				rh := base0 - 2 + rng.Int63n(win+5)
				switch {
				case large:
					rh = base0 + 12 + rng.Int63n(3) // takes out several hundred at once, leaves several hundred
				case prevRh >= 0 && rng.Intn(2) == 0:
					rh = prevRh - rng.Int63n(3) // the same height again, or a lower one
					r.Count("remove_by_height_repeated_or_lower", 1)
				}
				prevRh = rh
				info := caseInfo{Case: ci, Ops: desc(), Phase: "remove-by-height", Removed: fmt.Sprintf("h=%d", rh)}
				panicked := r.Guard("RemoveSuffrageExpelOperationsByHeight", info, func() {
					if err := pool.RemoveSuffrageExpelOperationsByHeight(base.Height(rh)); err != nil {
						r.Violation("RemoveByHeight:error", err.Error(), info)
					}
				})
				if panicked {
					ok = false
					break
				}
				r.Count("remove_by_height_calls", 1)
				gone := map[string]rec{}
				for f, x := range model {
					if x.End <= rh {
						gone[f] = x
						delete(model, f)
					}
				}
				r.Count("remove_by_height_expected_removed", len(gone))
				maxSet(r, "max_removed_by_one_remove_by_height", len(gone))
				var after map[string]bool
				after, ok = queryAll(fmt.Sprintf("after-remove-by-height(%d)", rh))
				if !ok {
					break
				}
				for f, x := range gone {
					if after[f] {
						r.Violation("RemoveByHeight:kept-operation-ended-at-or-before", fmt.Sprintf("remove-by-height(%d) kept %s", rh, x), info)
					}
				}
				for f, x := range model {
					if before[f] && !after[f] {
						r.Violation("RemoveByHeight:removed-operation-ending-later", fmt.Sprintf("remove-by-height(%d) removed %s which ends after it", rh, x), info)
					}
				}
				before = after
			}
		}
		if large {
			heightRounds(1)
		} else {
			heightRounds(1 + rng.Intn(4))
		}

		// remove by fact (incl. an unknown fact)
		if ok && len(model) > 0 && (large || rng.Intn(2) == 0) {
			var facts []base.SuffrageExpelFact
			var names []string
			gone := map[string]rec{}
			for _, f := range order {
				x, exists := model[f]
				if !exists || (!large && rng.Intn(3) != 0) || (large && rng.Intn(5) == 0) {
					continue
				}
				facts = append(facts, x.op.ExpelFact())
				names = append(names, x.String())
				gone[f] = x
			}
			facts = append(facts, isaac.NewSuffrageExpelFact(base.RandomAddress("unknown-"), base.Height(base0), base.Height(base0+1), "unknown"))
			if len(names) > 80 {
				names = append(names[:80:80], fmt.Sprintf("... and %d more", len(names)-80))
			}
			info := caseInfo{Case: ci, Ops: desc(), Phase: "remove-by-fact", Removed: strings.Join(names, " ")}
			panicked := r.Guard("RemoveSuffrageExpelOperationsByFact", info, func() {
				if err := pool.RemoveSuffrageExpelOperationsByFact(facts); err != nil {
					r.Violation("RemoveByFact:error", err.Error(), info)
				}
			})
			if !panicked {
				r.Count("remove_by_fact_calls", 1)
				maxSet(r, "max_facts_in_one_remove_by_fact", len(gone))
				for f := range gone {
					delete(model, f)
				}
				after, ok2 := queryAll("after-remove-by-fact")
				if ok2 {
					for f, x := range gone {
						if after[f] {
							r.Violation("RemoveByFact:kept-removed-fact", fmt.Sprintf("remove-by-fact kept %s", x), info)
						}
					}
					for f, x := range model {
						if before[f] && !after[f] {
							r.Violation("RemoveByFact:removed-other-fact", fmt.Sprintf("remove-by-fact removed %s which was not asked", x), info)
						}
					}
				}
			}
		}

		// and removals by height once more after the removal by fact
		if ok && !large && rng.Intn(2) == 0 {
			for f := range model {
				before[f] = true
			}
			heightRounds(1 + rng.Intn(2))
		}

		if nontrivial && len(order) >= 2 {
			r.Case(fp)
		} else {
			r.Eval(1)
		}
		if ci < 4 {
			r.Sample(map[string]any{"case": ci, "window": []int64{base0, base0 + win}, "ops": fpParts, "nodes": nnodes})
		}
	}
	_ = pool.DeepClose()
	pool = g.pool()
	defer func() { _ = pool.DeepClose() }()

	// directed: the shape described in DESIGN.md (an operation ending later but starting above the height)
	{
		n0, n1 := base.RandomAddress("n0-"), base.RandomAddress("n1-")
		mk := func(n base.Address, s, e int64) base.SuffrageExpelOperation {
			op := isaac.NewSuffrageExpelOperation(isaac.NewSuffrageExpelFact(n, base.Height(s), base.Height(e), "directed"))
			must(op.NodeSign(g.signer.Privatekey(), g.networkID, g.signer.Address()))
			must(pool.SetSuffrageExpelOperation(op))
			return op
		}
		later := mk(n0, 10, 20)
		covering := mk(n1, 5, 8)
		covering0 := mk(n0, 6, 9)
		info := caseInfo{Case: -1, Ops: []string{"n0[10,20]", "n1[5,8]", "n0[6,9]"}, Height: 7, Phase: "directed"}
		r.Sample(info)
		r.Case("directed:n0[10,20],n1[5,8],n0[6,9]@7")
		r.Guard("TraverseSuffrageExpelOperations", info, func() {
			seen := map[string]bool{}
			must(pool.TraverseSuffrageExpelOperations(ctx, 7, func(op base.SuffrageExpelOperation) (bool, error) {
				seen[op.Hash().String()] = true
				return true, nil
			}))
			r.Count("traverse_calls", 1)
			if seen[later.Hash().String()] {
				r.Violation("Traverse:visited-noncovering:start-above-height", "directed: traverse(7) visited n0[10,20]", info)
			}
			if !seen[covering.Hash().String()] || !seen[covering0.Hash().String()] {
				r.Violation("Traverse:missed-covering:behind-later-ending-operation-starting-above-height", "directed: traverse(7) over {n0[10,20], n1[5,8], n0[6,9]} did not visit both covering operations", info)
			}
			_, found, err := pool.SuffrageExpelOperation(7, n0)
			must(err)
			r.Count("lookup_calls", 1)
			if !found {
				r.Violation("Lookup:notfound-but-covering-exists:behind-later-ending-operation-of-node-starting-above-height", "directed: lookup(7,n0) over {n0[10,20], n0[6,9]} found nothing", info)
			}
		})
		// directed: a removal, then an already ended operation is stored, then the same / a lower removal again
		info2 := caseInfo{Case: -2, Ops: []string{"n0[10,20]", "n1[5,8]", "n0[6,9]"}, Phase: "directed: remove(10); set n1[3,6]; remove(10); set n1[2,4]; remove(7)"}
		r.Case("directed:remove-set-ended-remove-again")
		r.Guard("RemoveSuffrageExpelOperationsByHeight", info2, func() {
			seenAt := func(h int64, op base.SuffrageExpelOperation) bool {
				found := false
				must(pool.TraverseSuffrageExpelOperations(ctx, base.Height(h), func(x base.SuffrageExpelOperation) (bool, error) {
					if x.Hash().Equal(op.Hash()) {
						found = true
					}
					return true, nil
				}))
				return found
			}
			must(pool.RemoveSuffrageExpelOperationsByHeight(10))
			y := mk(n1, 3, 6)
			if !seenAt(5, y) {
				r.Violation("Traverse:missed-covering:no-later-ending-operation-starting-above-height", "directed: n1[3,6] stored after remove(10) is not visited at 5", info2)
			}
			must(pool.RemoveSuffrageExpelOperationsByHeight(10))
			r.Count("remove_by_height_calls", 2)
			if seenAt(5, y) {
				r.Violation("RemoveByHeight:kept-operation-ended-at-or-before", "directed: remove(10); set n1[3,6]; remove(10) kept n1[3,6]", info2)
			}
			z := mk(n1, 2, 4)
			must(pool.RemoveSuffrageExpelOperationsByHeight(7))
			r.Count("remove_by_height_calls", 1)
			if seenAt(3, z) {
				r.Violation("RemoveByHeight:kept-operation-ended-at-or-before", "directed: remove(10); set n1[2,4]; remove(7) kept n1[2,4]", info2)
			}
			if !seenAt(15, later) {
				r.Violation("RemoveByHeight:removed-operation-ending-later", "directed: n0[10,20] is gone after remove(10), remove(7)", info2)
			}
		})
	}
}

// largeEvery: one case in so many is a large one (2 in the quick tier).
func largeEvery(r *vlib.Run) int { return r.N(150, 175) }

var maxMu sync.Mutex
var maxVals = map[string]int{}

// maxSet keeps the maximum of a measured size in the evidence.
func maxSet(r *vlib.Run, key string, v int) {
	maxMu.Lock()
	defer maxMu.Unlock()
	if v > maxVals[key] {
		maxVals[key] = v
		r.Set(key, v)
	}
}

// rel says how a non-covering operation lies relative to the height.
func rel(x rec, h int64) string {
	if x.Start > h {
		return "start-above-height"
	}
	return "end-below-height"
}

// blocker classifies a missed covering operation by what precedes it in the
// pool's descending (end, fact) order.
func blocker(model map[string]rec, miss rec, h int64) string {
	for _, y := range model {
		if y.End >= miss.End && y.Start > h && y.fact != miss.fact {
			return "behind-later-ending-operation-starting-above-height"
		}
	}
	return "no-later-ending-operation-starting-above-height"
}

func blockerNode(model map[string]rec, miss []rec, node int, h int64) string {
	for _, m := range miss {
		blocked := false
		for _, y := range model {
			if y.Node == node && y.End >= m.End && y.Start > h && y.fact != m.fact {
				blocked = true
			}
		}
		if !blocked {
			return "no-later-ending-operation-of-node-starting-above-height"
		}
	}
	return "behind-later-ending-operation-of-node-starting-above-height"
}
