package c24

import (
	"fmt"
	"hash/fnv"
	"sort"
	"strings"
	"sync"
	"sync/atomic"
	"testing"
	"time"

	"github.com/anishathalye/porcupine"
	"github.com/spikeekips/mitum/base"
	"github.com/spikeekips/mitum/isaac"
	isaacdatabase "github.com/spikeekips/mitum/isaac/database"
	leveldbstorage "github.com/spikeekips/mitum/storage/leveldb"
	"github.com/spikeekips/mitum/util"
	"github.com/spikeekips/mitum/util/encoder"
	"github.com/spikeekips/mitum/util/valuehash"
	ldbstorage "github.com/syndtr/goleveldb/leveldb/storage"
	"verifharness/vlib"
)

// rig: encoders as the repository's own pool tests build them
// (isaac/database/test_database.go + pool_test.go testPool.SetupSuite).
type rig struct {
	bt        isaacdatabase.BaseTestDatabase
	nodes     []base.LocalNode
	networkID base.NetworkID
}

func must(err error) {
	if err != nil {
		panic(err)
	}
}

func newRig() *rig {
	g := &rig{}
	g.bt.SetupSuite()
	for _, d := range []encoder.DecodeDetail{
		{Hint: isaac.INITBallotSignFactHint, Instance: isaac.INITBallotSignFact{}},
		{Hint: isaac.INITBallotFactHint, Instance: isaac.INITBallotFact{}},
		{Hint: isaac.SuffrageConfirmBallotFactHint, Instance: isaac.SuffrageConfirmBallotFact{}},
		{Hint: isaac.INITBallotHint, Instance: isaac.INITBallot{}},
		{Hint: isaac.ACCEPTBallotSignFactHint, Instance: isaac.ACCEPTBallotSignFact{}},
		{Hint: isaac.ACCEPTBallotFactHint, Instance: isaac.ACCEPTBallotFact{}},
		{Hint: isaac.ACCEPTBallotHint, Instance: isaac.ACCEPTBallot{}},
	} {
		must(g.bt.Enc.Add(d))
	}
	for i := 0; i < 4; i++ {
		g.nodes = append(g.nodes, base.RandomLocalNode())
	}
	g.networkID = util.UUID().Bytes()

	return g
}

// slowDisk is goleveldb's in-memory storage with a harness-controlled latency
// of journal writes (every Put/Batch of the pool appends to the journal before
// it becomes visible to readers): the suspension point a real disk puts there.
type slowDisk struct {
	ldbstorage.Storage
	delay atomic.Int64 // nanoseconds per journal write
	waits atomic.Int64
}

type slowWriter struct {
	ldbstorage.Writer
	d *slowDisk
}

func (d *slowDisk) Create(fd ldbstorage.FileDesc) (ldbstorage.Writer, error) {
	w, err := d.Storage.Create(fd)
	if err != nil || fd.Type != ldbstorage.TypeJournal {
		return w, err
	}
	return &slowWriter{Writer: w, d: d}, nil
}

func (w *slowWriter) Write(p []byte) (int, error) {
	if n := w.d.delay.Load(); n > 0 {
		w.d.waits.Add(1)
		time.Sleep(time.Duration(n))
	}
	return w.Writer.Write(p)
}

func (g *rig) pool() (*isaacdatabase.TempPool, *slowDisk) {
	d := &slowDisk{Storage: ldbstorage.NewMemStorage()}
	st, err := leveldbstorage.NewStorage(d, nil)
	must(err)
	p, err := isaacdatabase.NewTempPool(st, g.bt.Encs, g.bt.Enc, 0)
	must(err)

	return p, d
}

// slot: opening a leveldb allocates its whole write buffer, so the pools are
// reused; every history on a pool works at heights above everything stored
// there before, and one pool serves one history at a time.
type slot struct {
	pool  *isaacdatabase.TempPool
	disk  *slowDisk
	nextH int64
}

// journal write latencies used by the concurrent histories
var diskDelays = []time.Duration{0, 200 * time.Microsecond, time.Millisecond, 3 * time.Millisecond}

// proposal histories: up to the latency of a slow disk sync, longer than a
// reader needs to decode the proposal it found
var diskDelaysProposal = []time.Duration{0, time.Millisecond, 10 * time.Millisecond, 40 * time.Millisecond}

func (g *rig) slots(n int) chan *slot {
	ch := make(chan *slot, n)
	for i := 0; i < n; i++ {
		p, d := g.pool()
		ch <- &slot{pool: p, disk: d, nextH: 20}
	}
	return ch
}

// ---- objects ---------------------------------------------------------------

type ballotKey struct {
	point base.Point
	stage base.Stage
	sc    bool
}

func (k ballotKey) String() string {
	return fmt.Sprintf("h%d.r%d.%s.sc=%v", k.point.Height(), k.point.Round(), k.stage, k.sc)
}

func ballotID(bl base.Ballot) string {
	return bl.SignFact().Fact().Hash().String() + "/" + bl.SignFact().Signs()[0].Signature().String()
}

func (g *rig) ballot(k ballotKey, signer base.LocalNode) base.Ballot {
	switch {
	case k.stage == base.StageACCEPT:
		fact := isaac.NewACCEPTBallotFact(k.point, valuehash.RandomSHA256(), valuehash.RandomSHA256(), nil)
		sf := isaac.NewACCEPTBallotSignFact(fact)
		must(sf.NodeSign(signer.Privatekey(), g.networkID, signer.Address()))
		return isaac.NewACCEPTBallot(nil, sf, nil)
	case k.sc:
		fact := isaac.NewSuffrageConfirmBallotFact(k.point, valuehash.RandomSHA256(), valuehash.RandomSHA256(), []util.Hash{valuehash.RandomSHA256()})
		sf := isaac.NewINITBallotSignFact(fact)
		must(sf.NodeSign(signer.Privatekey(), g.networkID, signer.Address()))
		return isaac.NewINITBallot(nil, sf, nil)
	default:
		fact := isaac.NewINITBallotFact(k.point, valuehash.RandomSHA256(), valuehash.RandomSHA256(), nil)
		sf := isaac.NewINITBallotSignFact(fact)
		must(sf.NodeSign(signer.Privatekey(), g.networkID, signer.Address()))
		return isaac.NewINITBallot(nil, sf, nil)
	}
}

func proposalID(pr base.ProposalSignFact) string {
	return pr.Fact().Hash().String() + "/" + pr.Signs()[0].Signature().String()
}

// ---- write-once register model (porcupine) -----------------------------------

type regIn struct {
	Op  string // "set", "get", "getbypoint"
	Key int
	Val string // label of the value written ("A","B","C")
}

type regOut struct {
	OK    bool   // set: stored
	Found bool   // get
	Val   string // get: label of the value read ("?" when it is none of the candidates)
	Err   string
}

var registerModel = porcupine.Model{
	Partition: func(history []porcupine.Operation) [][]porcupine.Operation {
		m := map[int][]porcupine.Operation{}
		var keys []int
		for _, op := range history {
			k := op.Input.(regIn).Key
			if _, ok := m[k]; !ok {
				keys = append(keys, k)
			}
			m[k] = append(m[k], op)
		}
		sort.Ints(keys)
		out := make([][]porcupine.Operation, 0, len(keys))
		for _, k := range keys {
			out = append(out, m[k])
		}
		return out
	},
	Init: func() interface{} { return "" },
	Step: func(state, input, output interface{}) (bool, interface{}) {
		st := state.(string)
		in := input.(regIn)
		out := output.(regOut)
		if out.Err != "" {
			return false, st
		}
		switch in.Op {
		case "set":
			if st == "" {
				return out.OK, in.Val
			}
			return !out.OK, st
		default:
			if st == "" {
				return !out.Found, st
			}
			return out.Found && out.Val == st, st
		}
	},
	DescribeOperation: func(input, output interface{}) string {
		return fmt.Sprintf("%+v -> %+v", input, output)
	},
}

// barrier releases its n participants together.
type barrier struct {
	ch      chan struct{}
	n       int32
	arrived int32
}

func (b *barrier) wait() {
	if atomic.AddInt32(&b.arrived, 1) == b.n {
		close(b.ch)
	}
	<-b.ch
}

type histOp struct {
	Client int
	Op     string
	Key    string
	Val    string `json:",omitempty"`
	Result string
	Call   int64
	Return int64
}

// ---- one concurrent history -----------------------------------------------------

type target interface {
	nkeys() int
	keyName(k int) string
	set(k int, v int) (bool, error)
	get(k int, how string) (found bool, label string, err error)
}

var labels = []string{"A", "B", "C"}

func runHistory(r *vlib.Run, kind string, hi int, tg target, nclients, nops int, cleaner func(), rngSeed []int) {
	rng := r.Rand(rngSeed...)
	// plan
	// Every history starts with a burst per key: all clients meet at a
	// barrier and then write their candidate to that key at once (the values
	// cost about the same to encode, so the writers reach the pool's
	// check-and-put close together); after the bursts the clients run a few
	// random reads and writes.
	type planned struct {
		in      regIn
		barrier *barrier
		spin    int // > 0: repeat the read (every 200us) until it finds something, at most so often
	}
	plans := make([][]planned, nclients)
	per := nops / nclients
	if per < 1 {
		per = 1
	}
	gets := []string{"get"}
	if kind == "proposal" {
		gets = []string{"get", "getbypoint"}
	}
	// proposal histories, two in three: only two clients write in a burst,
	// the others poll the key by hash resp. by point (every 200us until it is
	// found), so that reads by both ways fall between the writes a SetProposal
	// does and right after them.
	pollers := kind == "proposal" && nclients >= 3 && rng.Intn(3) > 0
	if pollers {
		r.Count("histories_with_polling_readers", 1)
	}
	for k := 0; k < tg.nkeys(); k++ {
		b := &barrier{n: int32(nclients), ch: make(chan struct{})}
		for c := range plans {
			in := regIn{Op: "set", Key: k, Val: labels[rng.Intn(len(labels))]}
			spin := 0
			switch {
			case pollers && c >= 2 && c%2 == 0:
				in, spin = regIn{Op: "get", Key: k}, 400
			case pollers && c >= 2:
				in, spin = regIn{Op: "getbypoint", Key: k}, 400
			case rng.Intn(6) == 0:
				in = regIn{Op: gets[rng.Intn(len(gets))], Key: k} // a reader inside the burst
			}
			plans[c] = append(plans[c], planned{in: in, barrier: b, spin: spin})
			if spin > 0 { // and once more the other way round, right after it was found
				other := "get"
				if in.Op == "get" {
					other = "getbypoint"
				}
				plans[c] = append(plans[c], planned{in: regIn{Op: other, Key: k}})
			}
		}
	}
	for c := range plans {
		for i := 0; i < per; i++ {
			k := rng.Intn(tg.nkeys())
			var in regIn
			if rng.Intn(5) < 2 {
				in = regIn{Op: "set", Key: k, Val: labels[rng.Intn(len(labels))]}
			} else {
				in = regIn{Op: gets[rng.Intn(len(gets))], Key: k}
			}
			plans[c] = append(plans[c], planned{in: in})
		}
	}

	results := make([][]porcupine.Operation, nclients)
	start := make(chan struct{})
	t0 := time.Now()
	var wg sync.WaitGroup
	for c := 0; c < nclients; c++ {
		wg.Add(1)
		go func(c int) {
			defer wg.Done()
			<-start
			for _, p := range plans[c] {
				if p.barrier != nil {
					p.barrier.wait()
				}
				for n := 0; ; n++ {
					var out regOut
					call := time.Since(t0).Nanoseconds()
					switch p.in.Op {
					case "set":
						ok, err := tg.set(p.in.Key, strings.Index("ABC", p.in.Val))
						out.OK = ok
						if err != nil {
							out.Err = err.Error()
						}
					default:
						found, label, err := tg.get(p.in.Key, p.in.Op)
						out.Found, out.Val = found, label
						if err != nil {
							out.Err = err.Error()
						}
					}
					ret := time.Since(t0).Nanoseconds()
					results[c] = append(results[c], porcupine.Operation{ClientId: c, Input: p.in, Call: call, Output: out, Return: ret})
					if n+1 >= p.spin || out.Found || out.Err != "" {
						break
					}
					time.Sleep(200 * time.Microsecond)
				}
			}
		}(c)
	}
	if cleaner != nil {
		wg.Add(1)
		go func() {
			defer wg.Done()
			<-start
			cleaner()
		}()
	}
	done := r.WithWatchdog(2*time.Minute, kind+" history", func() {
		close(start)
		wg.Wait()
	})
	if !done {
		return
	}

	var all []porcupine.Operation
	for c := range results {
		all = append(all, results[c]...)
	}
	r.Eval(1)
	for _, op := range all {
		in, out := op.Input.(regIn), op.Output.(regOut)
		switch {
		case in.Op == "set" && out.OK:
			r.Count(kind+"_set_true", 1)
		case in.Op == "set":
			r.Count(kind+"_set_false", 1)
		case out.Found:
			r.Count(kind+"_"+in.Op+"_found", 1)
		default:
			r.Count(kind+"_"+in.Op+"_notfound", 1)
		}
		if out.Err != "" {
			r.Violation(kind+":"+in.Op+":error", out.Err, describe(tg, all))
		}
	}
	r.Count("events_observed", len(all))

	// fingerprint of the observed order of concurrent events
	type ev struct {
		t    int64
		c    int
		kind byte
	}
	var evs []ev
	overl := 0
	for _, op := range all {
		evs = append(evs, ev{op.Call, op.ClientId, 'c'}, ev{op.Return, op.ClientId, 'r'})
	}
	sort.Slice(evs, func(i, j int) bool { return evs[i].t < evs[j].t })
	open := 0
	var sb strings.Builder
	for _, e := range evs {
		fmt.Fprintf(&sb, "%d%c", e.c, e.kind)
		if e.kind == 'c' {
			if open > 0 {
				overl++
			}
			open++
		} else {
			open--
		}
	}
	h := fnv.New64a()
	_, _ = h.Write([]byte(sb.String()))
	fpr := fmt.Sprintf("%s/%x", kind, h.Sum64())
	r.SetAdd("interleavings_seen", fpr)
	if overl > 0 {
		r.Count("histories_with_overlapping_operations", 1)
		r.Distinct(fpr)
	}
	r.Count("overlapping_calls", overl)

	switch res := porcupine.CheckOperationsTimeout(registerModel, all, 60*time.Second); res {
	case porcupine.Ok:
		r.Count("histories_linearizable", 1)
	case porcupine.Unknown:
		r.Inconclusive(fmt.Sprintf("porcupine timed out on %s history %d", kind, hi))
	default:
		// which key, which way
		for _, part := range registerModel.Partition(all) {
			if porcupine.CheckOperationsTimeout(registerModel, part, 60*time.Second) != porcupine.Illegal {
				continue
			}
			trues := map[string]bool{}
			ntrue := 0
			for _, op := range part {
				if in := op.Input.(regIn); in.Op == "set" && op.Output.(regOut).OK {
					trues[in.Val] = true
					ntrue++
				}
			}
			shape := "read-disagrees-with-the-single-successful-set"
			switch {
			case ntrue >= 2 && len(trues) >= 2:
				shape = "two-different-values-both-stored-true"
			case ntrue >= 2:
				shape = "same-value-stored-true-twice"
			case ntrue == 0:
				shape = "read-or-false-without-successful-set"
			}
			r.Violation(kind+":write-once-register-not-linearizable:"+shape,
				fmt.Sprintf("%s key %s: history of %d operations by %d clients is not linearizable as a write-once register (%d successful sets)", kind, tg.keyName(part[0].Input.(regIn).Key), len(part), nclients, ntrue),
				map[string]any{"kind": kind, "history": hi, "clients": nclients, "operations_on_key": describe(tg, part)})
		}
	}
	if hi < 2 {
		d := describe(tg, all)
		if len(d) > 12 {
			d = d[:12]
		}
		r.Sample(map[string]any{"kind": kind, "history": hi, "clients": nclients, "first_operations": d})
	}
}

func describe(tg target, ops []porcupine.Operation) []histOp {
	out := make([]histOp, len(ops))
	for i, op := range ops {
		in, o := op.Input.(regIn), op.Output.(regOut)
		res := ""
		switch {
		case o.Err != "":
			res = "error: " + o.Err
		case in.Op == "set":
			res = fmt.Sprint(o.OK)
		case o.Found:
			res = o.Val
		default:
			res = "not found"
		}
		out[i] = histOp{Client: op.ClientId, Op: in.Op, Key: tg.keyName(in.Key), Val: in.Val, Result: res, Call: op.Call, Return: op.Return}
	}
	sort.Slice(out, func(i, j int) bool { return out[i].Call < out[j].Call })
	return out
}

// ---- ballot target -----------------------------------------------------------

type ballotTarget struct {
	pool *isaacdatabase.TempPool
	keys []ballotKey
	vals [][]base.Ballot
	ids  []map[string]string // id -> label
}

func (b *ballotTarget) nkeys() int           { return len(b.keys) }
func (b *ballotTarget) keyName(k int) string { return b.keys[k].String() }
func (b *ballotTarget) set(k, v int) (bool, error) {
	return b.pool.SetBallot(b.vals[k][v])
}

func (b *ballotTarget) get(k int, _ string) (bool, string, error) {
	bl, found, err := b.pool.Ballot(b.keys[k].point, b.keys[k].stage, b.keys[k].sc)
	if err != nil || !found {
		return found && err == nil, "", err
	}
	if l, ok := b.ids[k][ballotID(bl)]; ok && bl.Point().Equal(base.NewStagePoint(b.keys[k].point, b.keys[k].stage)) {
		return true, l, nil
	}
	return true, "?", nil
}

// ---- proposal target -----------------------------------------------------------

type proposalTarget struct {
	pool  *isaacdatabase.TempPool
	facts []isaac.ProposalFact
	vals  [][]base.ProposalSignFact
	ids   []map[string]string
}

func (p *proposalTarget) nkeys() int { return len(p.facts) }
func (p *proposalTarget) keyName(k int) string {
	return fmt.Sprintf("fact%d@h%d.r%d", k, p.facts[k].Point().Height(), p.facts[k].Point().Round())
}

func (p *proposalTarget) set(k, v int) (bool, error) {
	return p.pool.SetProposal(p.vals[k][v])
}

func (p *proposalTarget) get(k int, how string) (bool, string, error) {
	var pr base.ProposalSignFact
	var found bool
	var err error
	if how == "getbypoint" {
		pr, found, err = p.pool.ProposalByPoint(p.facts[k].Point(), p.facts[k].Proposer(), p.facts[k].PreviousBlock())
	} else {
		pr, found, err = p.pool.Proposal(p.facts[k].Hash())
	}
	if err != nil || !found {
		return found && err == nil, "", err
	}
	if l, ok := p.ids[k][proposalID(pr)]; ok {
		return true, l, nil
	}
	return true, "?", nil
}

// ---- test ----------------------------------------------------------------------

func TestC24(t *testing.T) {
	r := vlib.Start(t, "C24", vlib.LevelExploration)
	defer r.Finish()
	r.SetRule("concurrent part: history = 1..8 clients issuing SetBallot/Ballot (resp. SetProposal/Proposal/ProposalByPoint) calls on 2..3 keys of one real TempPool (leveldb on goleveldb MemStorage whose journal writes take 0 / 0.2 / 1 / 3 ms, the latency a disk puts between a write call and its visibility), 3 different candidate values per key (ballots: different facts and signers for one (stage point, suffrage-confirm flag); proposals: one proposal fact signed by 3 keys), all clients writing to each key in turn at once from a barrier (one burst per key) and then <= 12 random reads and writes, optionally with a goroutine running the cleanup steps (keys within the protected depth); each history is checked per key with porcupine against a write-once register; distinct = fingerprint of the observed order of call/return events, counted only when calls overlapped. fault part (sequential, hook H3 of storage/leveldb): for every write boundary k of one SetProposal / SetBallot the storage lets k writes through and fails the rest, then works again; by-hash and by-point lookups must agree, a repeated Set and a Set of another value must keep the first writer; distinct = (kind, k, whether the stopped Set left its value). cleanup part (sequential): exhaustive cases with newest height 0..depth+1 (an entry at every height up to it; heights 0 and newest only), then case = random entries over a window of heights, cleanup run, survivors and removed entries judged by the depth rule; distinct = (kind, heights relative to newest)")
	r.Assume("two proposals with different facts for one (point, proposer, previous block) are not generated: the statement fixes the first proposal per proposal fact and the lookup by point to 'that same proposal', which presumes one fact per (point, proposer, previous block)")
	r.Assume("cleanup is demanded only what the statement says: an entry it removed lies at least <depth> heights below the newest height stored in that pool; entries above that line are still readable and unchanged; how much of the older part goes is not judged")

	g := newRig()
	const workers = 8
	slots := g.slots(workers)
	seqpool, _ := g.pool()
	pdepth, bdepth := seqpool.VerifCleanDepths()
	r.Set("configured_depth_proposals", pdepth)
	r.Set("configured_depth_ballots", bdepth)

	// NOTE on sizes: under -race the JSON encoder of the repository (sonic)
	// encodes every value twice at every nesting level, one SetBallot of a new
	// key costs 0.2-0.9 s of CPU; histories are therefore few and short.
	nh := r.N(10, 90)
	r.WithWatchdog(time.Duration(r.N(20, 120))*time.Minute, "C24 workload", func() {
		t0 := time.Now()
		vlib.Parallel(nh, workers, func(hi int) {
			sl := <-slots
			ballotHistory(r, g, sl, hi)
			slots <- sl
		})
		r.Set("seconds_ballot_histories", int(time.Since(t0).Seconds()))
		t0 = time.Now()
		vlib.Parallel(r.N(24, 240), workers, func(hi int) {
			sl := <-slots
			proposalHistory(r, g, sl, hi)
			slots <- sl
		})
		r.Set("seconds_proposal_histories", int(time.Since(t0).Seconds()))
		t0 = time.Now()
		faultPhase(r, g)
		r.Set("seconds_fault_phase", int(time.Since(t0).Seconds()))
		t0 = time.Now()
		defer func() { r.Set("seconds_cleanup_cases", int(time.Since(t0).Seconds())) }()
		nc := r.N(4, 60)
		// exhaustive near the genesis height: newest height 0..depth+1 with
		// an entry at every height below it, and with the newest one only
		var small [][]int64
		for newest := int64(0); newest <= int64(max(bdepth, pdepth))+1; newest++ {
			var all []int64
			for h := int64(0); h <= newest; h++ {
				all = append(all, h)
			}
			small = append(small, all)
			if newest > 0 {
				small = append(small, []int64{0, newest})
			}
		}
		vlib.Parallel(nc+len(small), workers, func(ci int) {
			sl := <-slots
			sl.disk.delay.Store(0)
			must(sl.pool.Clean())
			if ci < len(small) {
				cleanupCase(r, g, sl.pool, 100000+ci, bdepth, pdepth, small[ci])
			} else {
				cleanupCase(r, g, sl.pool, ci-len(small), bdepth, pdepth, nil)
			}
			must(sl.pool.Clean())
			slots <- sl
		})
	})

	if r.Counter("ballot_set_true") == 0 || r.Counter("proposal_set_true") == 0 || r.Counter("histories_with_overlapping_operations") == 0 {
		r.Inconclusive("no successful set or no overlapping calls were observed")
	}
	if r.Counter("cleanup_removed_entries") == 0 {
		r.Inconclusive("no cleanup removal was observed")
	}
}

func ballotHistory(r *vlib.Run, g *rig, sl *slot, hi int) {
	rng := r.Rand(24, 1, hi)
	pool := sl.pool
	delay := diskDelays[rng.Intn(len(diskDelays))]
	sl.disk.delay.Store(0)
	defer func() {
		r.Count("slow_journal_writes", int(sl.disk.waits.Swap(0)))
		r.Count(fmt.Sprintf("histories_with_journal_latency_%dus", delay.Microseconds()), 1)
	}()
	h0 := sl.nextH
	sl.nextH += 10
	nk := 2 + rng.Intn(2)
	tg := &ballotTarget{pool: pool}
	used := map[string]bool{}
	for len(tg.keys) < nk {
		k := ballotKey{point: base.RawPoint(h0+int64(rng.Intn(3)), uint64(rng.Intn(2))), stage: base.StageINIT}
		switch rng.Intn(3) {
		case 0:
			k.stage = base.StageACCEPT
		case 1:
			k.sc = true
		}
		if used[k.String()] {
			continue
		}
		used[k.String()] = true
		tg.keys = append(tg.keys, k)
		var vs []base.Ballot
		ids := map[string]string{}
		for v := 0; v < 3; v++ {
			bl := g.ballot(k, g.nodes[rng.Intn(len(g.nodes))])
			vs = append(vs, bl)
			ids[ballotID(bl)] = labels[v]
		}
		tg.vals = append(tg.vals, vs)
		tg.ids = append(tg.ids, ids)
	}

	var cleaner func()
	if rng.Intn(3) == 0 {
		// old entries far below; the keys under test stay within the protected depth
		for i := 0; i < 3; i++ {
			_, err := pool.SetBallot(g.ballot(ballotKey{point: base.RawPoint(h0-5-int64(i), 0), stage: base.StageINIT}, g.nodes[0]))
			must(err)
		}
		cleaner = func() {
			for i := 0; i < 3; i++ {
				n, _ := pool.VerifCleanBallots()
				r.Count("concurrent_cleanup_runs", 1)
				r.Count("concurrent_cleanup_removed", n)
			}
		}
	}

	nclients := 3 + rng.Intn(6)
	if hi%10 == 9 {
		nclients = 1
	}
	sl.disk.delay.Store(int64(delay))
	runHistory(r, "ballot", hi, tg, nclients, 12, cleaner, []int{24, 2, hi})
	sl.disk.delay.Store(0)
}

func proposalHistory(r *vlib.Run, g *rig, sl *slot, hi int) {
	rng := r.Rand(24, 3, hi)
	pool := sl.pool
	delay := diskDelaysProposal[rng.Intn(len(diskDelaysProposal))]
	sl.disk.delay.Store(0)
	defer func() {
		r.Count("slow_journal_writes", int(sl.disk.waits.Swap(0)))
		r.Count(fmt.Sprintf("histories_with_journal_latency_%dus", delay.Microseconds()), 1)
	}()
	h0 := sl.nextH
	sl.nextH += 10
	nk := 2 + rng.Intn(2)
	tg := &proposalTarget{pool: pool}
	used := map[string]bool{}
	for len(tg.facts) < nk {
		point := base.RawPoint(h0+int64(rng.Intn(3)), uint64(rng.Intn(3)))
		proposer := g.nodes[rng.Intn(len(g.nodes))]
		pk := point.String() + proposer.Address().String()
		if used[pk] {
			continue // one fact per (point, proposer, previous block)
		}
		used[pk] = true
		nops := rng.Intn(3)
		ops := make([][2]util.Hash, nops)
		for i := range ops {
			ops[i] = [2]util.Hash{valuehash.RandomSHA256(), valuehash.RandomSHA256()}
		}
		fact := isaac.NewProposalFact(point, proposer.Address(), valuehash.RandomSHA256(), ops)
		tg.facts = append(tg.facts, fact)
		var vs []base.ProposalSignFact
		ids := map[string]string{}
		for v := 0; v < 3; v++ {
			sf := isaac.NewProposalSignFact(fact)
			must(sf.Sign(g.nodes[v].Privatekey(), g.networkID))
			vs = append(vs, sf)
			ids[proposalID(sf)] = labels[v]
		}
		if len(ids) != 3 {
			panic("candidate proposals are not distinct")
		}
		tg.vals = append(tg.vals, vs)
		tg.ids = append(tg.ids, ids)
	}

	var cleaner func()
	if rng.Intn(3) == 0 {
		for i := 0; i < 3; i++ {
			sf := isaac.NewProposalSignFact(isaac.NewProposalFact(base.RawPoint(h0-5-int64(i), 0), g.nodes[0].Address(), valuehash.RandomSHA256(), nil))
			must(sf.Sign(g.nodes[0].Privatekey(), g.networkID))
			_, err := pool.SetProposal(sf)
			must(err)
		}
		cleaner = func() {
			for i := 0; i < 3; i++ {
				n, _ := pool.VerifCleanProposals()
				r.Count("concurrent_cleanup_runs", 1)
				r.Count("concurrent_cleanup_removed", n)
			}
		}
	}

	nclients := 3 + rng.Intn(6)
	if hi%10 == 9 {
		nclients = 1
	}
	sl.disk.delay.Store(int64(delay))
	runHistory(r, "proposal", hi, tg, nclients, 12, cleaner, []int{24, 4, hi})
	sl.disk.delay.Store(0)
}

// validPoint: the genesis height has round 0 only (base.Point.IsValid).
func validPoint(h int64, round uint64) base.Point {
	if h == base.GenesisHeight.Int64() {
		round = 0
	}
	return base.RawPoint(h, round)
}

// cleanupCase: sequential; entries over a window of heights, one cleanup of
// each kind, then the depth rule.
// heights != nil: one ballot and one proposal at exactly these heights (the
// exhaustive small-height cases); otherwise random entries.
func cleanupCase(r *vlib.Run, g *rig, pool *isaacdatabase.TempPool, ci, bdepth, pdepth int, heights []int64) {
	rng := r.Rand(24, 5, ci)

	h0 := int64(rng.Intn(30))
	if ci%3 == 0 {
		h0 = int64(rng.Intn(3)) // around the genesis height
	}
	span := int64(1 + rng.Intn(9))

	type bent struct {
		k  ballotKey
		id string
	}
	type pent struct {
		fact isaac.ProposalFact
		id   string
	}
	var bs []bent
	var ps []pent
	var newestB, newestP int64 = -1, -1
	usedB, usedP := map[string]bool{}, map[string]bool{}
	n := 1 + rng.Intn(6)
	if heights != nil {
		n = len(heights)
		r.Count("cleanup_small_height_cases", 1)
	}
	pick := func(i int) int64 {
		if heights != nil {
			return heights[i]
		}
		return h0 + rng.Int63n(span)
	}
	for i := 0; i < n; i++ {
		k := ballotKey{point: validPoint(pick(i), uint64(rng.Intn(2))), stage: base.StageINIT}
		switch rng.Intn(3) {
		case 0:
			k.stage = base.StageACCEPT
		case 1:
			k.sc = true
		}
		if !usedB[k.String()] {
			usedB[k.String()] = true
			bl := g.ballot(k, g.nodes[rng.Intn(len(g.nodes))])
			ok, err := pool.SetBallot(bl)
			if err != nil || !ok {
				r.Violation("cleanup:ballot:sequential-first-set-not-stored", fmt.Sprintf("SetBallot(%s) = %v, %v on an empty key", k, ok, err), k.String())
				return
			}
			bs = append(bs, bent{k, ballotID(bl)})
			newestB = max(newestB, k.point.Height().Int64())
		}

		point := validPoint(pick(i), uint64(rng.Intn(2)))
		proposer := g.nodes[rng.Intn(len(g.nodes))]
		if pk := point.String() + proposer.Address().String(); !usedP[pk] {
			usedP[pk] = true
			fact := isaac.NewProposalFact(point, proposer.Address(), valuehash.RandomSHA256(), nil)
			sf := isaac.NewProposalSignFact(fact)
			must(sf.Sign(proposer.Privatekey(), g.networkID))
			ok, err := pool.SetProposal(sf)
			if err != nil || !ok {
				r.Violation("cleanup:proposal:sequential-first-set-not-stored", fmt.Sprintf("SetProposal = %v, %v on an empty key", ok, err), point.String())
				return
			}
			ps = append(ps, pent{fact, proposalID(sf)})
			newestP = max(newestP, point.Height().Int64())
		}
	}

	var nb, np int
	var err error
	r.Guard("cleanBallots", fmt.Sprintf("case %d", ci), func() { nb, err = pool.VerifCleanBallots() })
	if err != nil {
		r.Violation("cleanup:ballot:error", err.Error(), ci)
	}
	r.Guard("cleanProposals", fmt.Sprintf("case %d", ci), func() { np, err = pool.VerifCleanProposals() })
	if err != nil {
		r.Violation("cleanup:proposal:error", err.Error(), ci)
	}
	r.Count("cleanup_runs", 2)
	r.Count("cleanup_reported_removed", nb+np)

	var rel []string
	removed := 0
	for _, e := range bs {
		h := e.k.point.Height().Int64()
		bl, found, err := pool.Ballot(e.k.point, e.k.stage, e.k.sc)
		w := map[string]any{"case": ci, "kind": "ballot", "entry": e.k.String(), "newest_height": newestB, "depth": bdepth}
		rel = append(rel, fmt.Sprintf("b%d", newestB-h))
		switch {
		case err != nil:
			r.Violation("cleanup:ballot:read-error", err.Error(), w)
		case !found:
			removed++
			r.Count("cleanup_removed_entries", 1)
			if h > newestB-int64(bdepth) {
				r.Violation("cleanup:ballot:removed-entry-less-than-depth-below-newest", fmt.Sprintf("cleanup removed ballot %s; newest height %d, depth %d", e.k, newestB, bdepth), w)
			}
		default:
			r.Count("cleanup_kept_entries", 1)
			if ballotID(bl) != e.id {
				r.Violation("cleanup:ballot:kept-entry-changed", fmt.Sprintf("ballot %s reads differently after cleanup", e.k), w)
			}
		}
	}
	for _, e := range ps {
		h := e.fact.Point().Height().Int64()
		w := map[string]any{"case": ci, "kind": "proposal", "entry": e.fact.Point().String(), "newest_height": newestP, "depth": pdepth}
		rel = append(rel, fmt.Sprintf("p%d", newestP-h))
		pr, found, err := pool.Proposal(e.fact.Hash())
		pr2, found2, err2 := pool.ProposalByPoint(e.fact.Point(), e.fact.Proposer(), e.fact.PreviousBlock())
		switch {
		case err != nil || err2 != nil:
			r.Violation("cleanup:proposal:read-error", fmt.Sprint(err, err2), w)
		case !found && !found2:
			removed++
			r.Count("cleanup_removed_entries", 1)
			if h > newestP-int64(pdepth) {
				r.Violation("cleanup:proposal:removed-entry-less-than-depth-below-newest", fmt.Sprintf("cleanup removed proposal at %s; newest height %d, depth %d", e.fact.Point(), newestP, pdepth), w)
			}
		case found != found2:
			r.Violation("cleanup:proposal:by-hash-and-by-point-disagree", fmt.Sprintf("after cleanup proposal at %s: by hash found=%v, by point found=%v", e.fact.Point(), found, found2), w)
		default:
			r.Count("cleanup_kept_entries", 1)
			if proposalID(pr) != e.id || proposalID(pr2) != e.id {
				r.Violation("cleanup:proposal:kept-entry-changed", fmt.Sprintf("proposal at %s reads differently after cleanup", e.fact.Point()), w)
			}
		}
	}
	sort.Strings(rel)
	fp := "cleanup/" + strings.Join(rel, ",")
	if removed > 0 {
		r.Case(fp)
	} else {
		r.Eval(1)
	}
	if ci < 2 {
		r.Sample(map[string]any{"kind": "cleanup", "case": ci, "heights_below_newest": rel, "removed": removed, "reported_removed": nb + np})
	}
}

// ---- sequential fault phase ----------------------------------------------------

// faultPhase: for every write boundary k of one SetProposal / SetBallot call
// the storage lets the first k writes through and fails every later one (hook
// H3, leveldbstorage.VerifFaultArm: the process stopped at that boundary);
// then the storage works again and the pool is judged: what is found by hash
// is found by (point, proposer, previous block) and is the same proposal, a
// repeated Set of the same value and a Set of another value keep the first
// writer.
func faultPhase(r *vlib.Run, g *rig) {
	st, err := leveldbstorage.NewStorage(ldbstorage.NewMemStorage(), nil)
	must(err)
	pool, err := isaacdatabase.NewTempPool(st, g.bt.Encs, g.bt.Enc, 0)
	must(err)
	defer func() {
		leveldbstorage.VerifFaultReset()
		_ = pool.DeepClose()
	}()

	h := int64(100)
	newProposal := func() (isaac.ProposalFact, base.ProposalSignFact, base.ProposalSignFact) {
		h++
		fact := isaac.NewProposalFact(base.RawPoint(h, 0), g.nodes[0].Address(), valuehash.RandomSHA256(), [][2]util.Hash{{valuehash.RandomSHA256(), valuehash.RandomSHA256()}})
		a, b := isaac.NewProposalSignFact(fact), isaac.NewProposalSignFact(fact)
		must(a.Sign(g.nodes[0].Privatekey(), g.networkID))
		must(b.Sign(g.nodes[1].Privatekey(), g.networkID))
		return fact, a, b
	}

	// how many write boundaries does one call have?
	leveldbstorage.VerifFaultArm(st, -1)
	_, a0, _ := newProposal()
	if ok, err := pool.SetProposal(a0); err != nil || !ok {
		r.Violation("fault:proposal:plain-set-not-stored", fmt.Sprintf("SetProposal = %v, %v without fault", ok, err), nil)
		return
	}
	pw := len(leveldbstorage.VerifFaultReset())
	r.Set("write_boundaries_of_one_SetProposal", pw)

	for rep := 0; rep < r.N(1, 6); rep++ {
		for k := 0; k <= pw; k++ {
			fact, a, b := newProposal()
			w := map[string]any{"kind": "proposal", "writes_let_through": k, "write_boundaries": pw, "point": fact.Point().String()}
			read := func() (string, string, bool) {
				byHash, byPoint := "not found", "not found"
				pr, found, err := pool.Proposal(fact.Hash())
				pr2, found2, err2 := pool.ProposalByPoint(fact.Point(), fact.Proposer(), fact.PreviousBlock())
				if err != nil || err2 != nil {
					r.Violation("fault:proposal:read-error", fmt.Sprint(err, err2), w)
					return "", "", false
				}
				name := func(pr base.ProposalSignFact) string {
					switch proposalID(pr) {
					case proposalID(a):
						return "A"
					case proposalID(b):
						return "B"
					}
					return "?"
				}
				if found {
					byHash = name(pr)
				}
				if found2 {
					byPoint = name(pr2)
				}
				return byHash, byPoint, true
			}

			leveldbstorage.VerifFaultArm(st, k)
			ok0, err0 := pool.SetProposal(a)
			log := leveldbstorage.VerifFaultReset()
			failed := 0
			for _, e := range log {
				if e.Failed {
					failed++
				}
			}
			r.Count("fault_cases", 1)
			r.Count("fault_injected_write_failures", failed)
			w["faulted_set"] = fmt.Sprintf("SetProposal(A) = %v, %v", ok0, err0)
			if ok0 && err0 == nil && failed > 0 {
				r.Violation("fault:proposal:set-true-although-a-write-failed", fmt.Sprintf("SetProposal = true although %d write(s) failed", failed), w)
			}

			byHash, byPoint, okr := read()
			if !okr {
				continue
			}
			w["after_fault"] = map[string]string{"by_hash": byHash, "by_point": byPoint}
			if byHash != byPoint {
				r.Violation(fmt.Sprintf("fault:proposal:by-hash-and-by-point-disagree-after-stop:by-hash=%s:by-point=%s", found01(byHash), found01(byPoint)),
					fmt.Sprintf("process stopped after %d of %d writes of SetProposal: Proposal(fact) = %s, ProposalByPoint = %s", k, pw, byHash, byPoint), w)
			}
			stored := byHash != "not found"

			ok1, err1 := pool.SetProposal(a) // the same Set again
			ok2, err2 := pool.SetProposal(b) // another proposal of the fact
			w["retries"] = fmt.Sprintf("SetProposal(A) = %v, %v; SetProposal(B) = %v, %v", ok1, err1, ok2, err2)
			if err1 != nil || err2 != nil {
				r.Violation("fault:proposal:retry-error", fmt.Sprint(err1, err2), w)
				continue
			}
			if ok1 == stored {
				r.Violation(fmt.Sprintf("fault:proposal:retry-of-same-set:stored=%v:returned=%v", stored, ok1), fmt.Sprintf("after the stop Proposal(fact) = %s; SetProposal(A) again = %v", byHash, ok1), w)
			}
			if ok2 {
				r.Violation("fault:proposal:second-writer-stored-true", "SetProposal(B) = true after A", w)
			}
			byHash, byPoint, okr = read()
			if !okr {
				continue
			}
			w["finally"] = map[string]string{"by_hash": byHash, "by_point": byPoint}
			if byHash != "A" || byPoint != "A" {
				r.Violation(fmt.Sprintf("fault:proposal:first-proposal-not-returned-after-retry:by-hash=%s:by-point=%s", byHash, found01(byPoint)),
					fmt.Sprintf("stop after %d of %d writes, then SetProposal(A), SetProposal(B): Proposal(fact) = %s, ProposalByPoint = %s (expected A, A)", k, pw, byHash, byPoint), w)
			}
			r.Case(fmt.Sprintf("fault/proposal/k=%d/stored=%v", k, stored))
			if rep == 0 {
				r.Sample(w)
			}
		}
	}

	// ballots
	leveldbstorage.VerifFaultArm(st, -1)
	h++
	if ok, err := pool.SetBallot(g.ballot(ballotKey{point: base.RawPoint(h, 0), stage: base.StageINIT}, g.nodes[0])); err != nil || !ok {
		r.Violation("fault:ballot:plain-set-not-stored", fmt.Sprintf("SetBallot = %v, %v without fault", ok, err), nil)
		return
	}
	bw := len(leveldbstorage.VerifFaultReset())
	r.Set("write_boundaries_of_one_SetBallot", bw)
	kinds := []ballotKey{{stage: base.StageINIT}, {stage: base.StageACCEPT}, {stage: base.StageINIT, sc: true}}
	for rep := 0; rep < r.N(1, 6); rep++ {
		for _, kd := range kinds[:r.N(2, 3)] {
			for k := 0; k <= bw; k++ {
				h++
				key := ballotKey{point: base.RawPoint(h, uint64(rep%2)), stage: kd.stage, sc: kd.sc}
				a, b := g.ballot(key, g.nodes[0]), g.ballot(key, g.nodes[1])
				w := map[string]any{"kind": "ballot", "key": key.String(), "writes_let_through": k, "write_boundaries": bw}
				read := func() (string, bool) {
					bl, found, err := pool.Ballot(key.point, key.stage, key.sc)
					switch {
					case err != nil:
						r.Violation("fault:ballot:read-error", err.Error(), w)
						return "", false
					case !found:
						return "not found", true
					case ballotID(bl) == ballotID(a):
						return "A", true
					case ballotID(bl) == ballotID(b):
						return "B", true
					}
					return "?", true
				}
				leveldbstorage.VerifFaultArm(st, k)
				ok0, err0 := pool.SetBallot(a)
				log := leveldbstorage.VerifFaultReset()
				failed := 0
				for _, e := range log {
					if e.Failed {
						failed++
					}
				}
				r.Count("fault_cases", 1)
				r.Count("fault_injected_write_failures", failed)
				w["faulted_set"] = fmt.Sprintf("SetBallot(A) = %v, %v", ok0, err0)
				if ok0 && err0 == nil && failed > 0 {
					r.Violation("fault:ballot:set-true-although-a-write-failed", "SetBallot = true although a write failed", w)
				}
				v, okr := read()
				if !okr {
					continue
				}
				stored := v != "not found"
				if stored && v != "A" {
					r.Violation("fault:ballot:other-ballot-after-stop", "Ballot() = "+v, w)
				}
				ok1, err1 := pool.SetBallot(a)
				ok2, err2 := pool.SetBallot(b)
				w["retries"] = fmt.Sprintf("SetBallot(A) = %v, %v; SetBallot(B) = %v, %v", ok1, err1, ok2, err2)
				if err1 != nil || err2 != nil {
					r.Violation("fault:ballot:retry-error", fmt.Sprint(err1, err2), w)
					continue
				}
				if ok1 == stored {
					r.Violation(fmt.Sprintf("fault:ballot:retry-of-same-set:stored=%v:returned=%v", stored, ok1), fmt.Sprintf("after the stop Ballot() = %s; SetBallot(A) again = %v", v, ok1), w)
				}
				if ok2 {
					r.Violation("fault:ballot:second-writer-stored-true", "SetBallot(B) = true after A", w)
				}
				if v, okr = read(); okr && v != "A" {
					r.Violation("fault:ballot:first-ballot-not-returned-after-retry", "Ballot() = "+v+" (expected A)", w)
				}
				r.Case(fmt.Sprintf("fault/ballot/%s/sc=%v/k=%d/stored=%v", key.stage, key.sc, k, stored))
			}
		}
	}
}

func found01(v string) string {
	if v == "not found" {
		return "notfound"
	}
	return "found"
}
