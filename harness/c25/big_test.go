package c25

import (
	"bytes"
	"context"
	"fmt"
	"hash/fnv"
	"sort"
	"strings"
	"sync"

	leveldbstorage "github.com/spikeekips/mitum/storage/leveldb"
	leveldbutil "github.com/syndtr/goleveldb/leveldb/util"
	"verifharness/vlib"
)

// Second workload of C25: populations LARGER than any internal batch of the
// storage layer, on PrefixStorage instances that are REUSED over a long
// history (populate -> read -> remove the whole population -> populate again
// below/above/between the removed keys -> read -> remove again ...), interleaved
// with the same kind of history on the other handles of the same Storage.
// Same oracle as the small scripts (map of full keys, compared after every
// operation; every handle's Iter(nil) view compared after every operation).

// The repository removes in batches of 333 (literal in Storage.Clean ->
// BatchRemove; not an exported constant). Population sizes are taken around
// that and around other plausible batch limits.
const repoBatchLimit = 333

var batchLimits = []int{128, 256, repoBatchLimit, 512, 1000}

func bigSizes(thorough bool) []int {
	seen := map[int]bool{}
	var out []int
	add := func(n int) {
		if !seen[n] {
			seen[n] = true
			out = append(out, n)
		}
	}
	add(1)
	for _, l := range batchLimits {
		add(l - 1)
		add(l)
		add(l + 1)
		add(2*l + 1)
	}
	add(3000)
	if thorough {
		add(3*repoBatchLimit + 1)
		add(5000)
	}
	sort.Ints(out)
	return out
}

// size class of a population, for the evidence counters: the designated sizes
// exactly, everything else by the designated sizes it lies between
func sizeClass(n int) string {
	ds := append([]int{0}, bigSizes(true)...)
	for i, e := range ds {
		switch {
		case n == e:
			return fmt.Sprintf("n=%04d", n)
		case n < e:
			return fmt.Sprintf("%04d<n<%04d", ds[i-1], e)
		}
	}
	return fmt.Sprintf("n>%04d", ds[len(ds)-1])
}

// first byte of generated stripped keys, ascending: a population lives in one
// band; re-population after a removal goes below, above and inside that band
var bands = []byte{0x00, 0x01, 0x02, 0x06, 'a', 'b', 'c', 0x7f, 0xfe, 0xff}

// what one PrefixStorage instance has lived through
type hhist struct {
	Ops                    int    `json:"ops_through_instance"`
	Removals               int    `json:"whole_population_removals"` // populate->remove cycles completed on this instance's prefix
	RemovalsViaInstance    int    `json:"removals_via_instance_Remove"`
	MaxPopulation          int    `json:"max_population"`
	LargestRemoved         int    `json:"largest_removed_population"`
	LastRemovedMin         string `json:"last_removed_min,omitempty"`
	LastRemovedMax         string `json:"last_removed_max,omitempty"`
	removedMin, removedMax []byte
	removedSample          [][]byte
}

// signature components of the big workload: which class of history the
// instance, through which the failure was seen, has behind it
func (s *script) bigSuffix() string {
	if s.cur < 0 || s.cur >= len(s.hist) {
		return ""
	}
	h := s.hist[s.cur]
	var sb strings.Builder
	if h.Removals > 0 {
		sb.WriteString(":reused-handle")
	}
	if h.MaxPopulation > repoBatchLimit {
		sb.WriteString(":population>batch-limit")
	}
	return sb.String()
}

var bigMu sync.Mutex
var bigMaxDepth, bigMaxOps int

func depthLabel(d int) string {
	if d >= 4 {
		return "4+"
	}
	return fmt.Sprintf("%d", d)
}

// every big op through handle h starts here
func (s *script) bigBegin(h int) {
	s.cur = h
	s.hist[h].Ops++
	s.r.Count("big_ops_at_instance_reuse_depth_"+depthLabel(s.hist[h].Removals), 1)
	if s.m.foreign(s.hp[h]) > 0 {
		s.r.Count("big_ops_with_foreign_keys_present", 1)
		s.bigNontrivial = true
	}
}

func (s *script) pop(h int) int {
	return len(s.m.visible(s.hp[h], nil, nil, true))
}

func (s *script) notePop(h int) {
	if n := s.pop(h); n > s.hist[h].MaxPopulation {
		s.hist[h].MaxPopulation = n
	}
}

// n distinct stripped keys in band b that are not yet under prefix p
func (s *script) genKeys(rng interface{ Intn(int) int }, p []byte, band byte, n int) [][]byte {
	out := make([][]byte, 0, n)
	seen := map[string]bool{}
	for len(out) < n {
		k := []byte{band, byte(rng.Intn(256)), byte(rng.Intn(256))}
		switch rng.Intn(6) {
		case 0:
			k = append(k, 0x00)
		case 1:
			k = append(k, 0xff)
		case 2:
			k = append(k, alphabet[rng.Intn(len(alphabet))], alphabet[rng.Intn(len(alphabet))])
		}
		if _, ok := s.m[string(p)+string(k)]; ok || seen[string(k)] {
			continue
		}
		seen[string(k)] = true
		out = append(out, k)
	}
	return out
}

// bigPopulate writes n new keys of one band (plus a few overwrites of existing
// keys) through handle h by Put, one Batch, chunked Batches or BatchFunc.
func (s *script) bigPopulate(rng interface{ Intn(int) int }, h, n int, band byte, why string) {
	if s.failed {
		return
	}
	r := s.r
	pst, p := s.hs[h], s.hp[h]
	s.bigBegin(h)
	keys := s.genKeys(rng, p, band, n)
	type rec struct{ k, v []byte }
	recs := make([]rec, 0, n+n/16+1)
	for _, k := range keys {
		recs = append(recs, rec{k, randVal(rng)})
	}
	if vis := s.m.visible(p, nil, nil, true); len(vis) > 0 { // overwrites
		for j := 0; j < 1+n/16 && j < 40; j++ {
			at := rng.Intn(len(recs) + 1)
			recs = append(recs, rec{})
			copy(recs[at+1:], recs[at:])
			k := vis[rng.Intn(len(vis))].K
			if len(k) == 0 { // the raw key equal to the prefix: an empty key may be rejected (see assumptions)
				recs = append(recs[:at], recs[at+1:]...)
				continue
			}
			recs[at] = rec{bytes.Clone(k), randVal(rng)}
		}
	}
	mode := rng.Intn(4)
	var opname, arg string
	apply := func() {
		for _, e := range recs {
			s.m[string(p)+string(e.k)] = e.v
		}
	}
	switch mode {
	case 0:
		opname = "Put"
		s.rec("big-populate-put", p, fmt.Sprintf("new=%d records=%d band=%02x %s", n, len(recs), band, why))
		r.Guard("PrefixStorage.Put", s.witness(), func() {
			for _, e := range recs {
				if err := pst.Put(e.k, e.v, nil); err != nil {
					s.violation("Put:error", err.Error())
					return
				}
			}
			apply()
		})
	case 1, 2:
		opname = "Batch"
		chunk := len(recs)
		if mode == 2 {
			chunk = []int{100, repoBatchLimit - 1, repoBatchLimit, repoBatchLimit + 1, 1000}[rng.Intn(5)]
		}
		arg = fmt.Sprintf("chunk=%d", chunk)
		s.rec("big-populate-batch", p, fmt.Sprintf("new=%d records=%d band=%02x %s %s", n, len(recs), band, arg, why))
		r.Guard("PrefixStorage.Batch", s.witness(), func() {
			for at := 0; at < len(recs); at += chunk {
				b := pst.NewBatch()
				for _, e := range recs[at:min(at+chunk, len(recs))] {
					b.Put(e.k, e.v)
				}
				if err := pst.Batch(b, nil); err != nil {
					s.violation("Batch:error", err.Error())
					return
				}
				r.Count("big_batch_writes", 1)
				if b.Len() > repoBatchLimit {
					r.Count("big_batch_writes_over_batch_limit", 1)
				}
			}
			apply()
		})
	default:
		opname = "BatchFunc"
		bs := uint64([]int{1, 100, repoBatchLimit - 1, repoBatchLimit, repoBatchLimit + 1, 1000}[rng.Intn(6)])
		s.rec("big-populate-batchfunc", p, fmt.Sprintf("new=%d records=%d band=%02x size=%d %s", n, len(recs), band, bs, why))
		r.Guard("PrefixStorage.BatchFunc", s.witness(), func() {
			add, done, cancel := pst.BatchFunc(context.Background(), bs, nil)
			defer cancel()
			do := func(f func() error) error { return f() }
			for _, e := range recs {
				e := e
				if err := add(func(b leveldbstorage.LeveldbBatch) { b.Put(e.k, e.v) }, do); err != nil {
					s.violation("BatchFunc:error", err.Error())
					return
				}
			}
			if err := done(do); err != nil {
				s.violation("BatchFunc:error", err.Error())
				return
			}
			apply()
		})
	}
	r.Count("big_populate_records", len(recs))
	if hh := &s.hist[h]; hh.Removals > 0 && hh.removedMin != nil {
		var below, above, between int
		for _, k := range keys {
			switch {
			case bytes.Compare(k, hh.removedMin) < 0:
				below++
			case bytes.Compare(k, hh.removedMax) > 0:
				above++
			default:
				between++
			}
		}
		r.Count("big_repopulated_keys_below_last_removed", below)
		r.Count("big_repopulated_keys_above_last_removed", above)
		r.Count("big_repopulated_keys_between_last_removed", between)
	}
	if s.failed {
		return
	}
	s.compare(opname, p, false)
	s.notePop(h)
	s.after(s.ops[len(s.ops)-1].Op)
}

// bigReads: Iter without range both ways, with Start-only / Limit-only / both
// bounds (existing keys, band bounds, bounds of the last removed population),
// early stops around the batch limit, Get/Exists of present, removed and absent
// keys -- all through the reused instance.
func (s *script) bigReads(rng interface{ Intn(int) int }, h int, lite bool) {
	if s.failed {
		return
	}
	r := s.r
	pst, p := s.hs[h], s.hp[h]
	vis := s.m.visible(p, nil, nil, true)
	cls := sizeClass(len(vis))
	hh := &s.hist[h]

	iter := func(rg *leveldbutil.Range, asc bool, stop int) {
		if s.failed {
			return
		}
		s.bigBegin(h)
		arg := fmt.Sprintf("nilrange asc=%v stop=%d", asc, stop)
		if rg != nil {
			arg = fmt.Sprintf("[%s,%s) asc=%v stop=%d", qn(rg.Start), qn(rg.Limit), asc, stop)
		}
		kind := "nil-range"
		switch {
		case rg == nil:
		case rg.Start != nil && rg.Limit != nil:
			kind = "start+limit"
		case rg.Start != nil:
			kind = "start-only"
		case rg.Limit != nil:
			kind = "limit-only"
		}
		r.Count("big_iter_"+kind, 1)
		r.Count("big_iter_population_"+cls, 1)
		s.doIter("big-iter", h, rg, asc, stop, arg+" population="+cls)
	}
	bound := func() []byte {
		switch x := rng.Intn(10); {
		case x < 5 && len(vis) > 0:
			return bytes.Clone(vis[rng.Intn(len(vis))].K)
		case x < 7 && hh.removedMin != nil:
			if rng.Intn(2) == 0 {
				return bytes.Clone(hh.removedMin)
			}
			return bytes.Clone(hh.removedMax)
		case x < 9:
			return []byte{bands[rng.Intn(len(bands))]}
		default:
			return []byte{bands[rng.Intn(len(bands))], byte(rng.Intn(256)), byte(rng.Intn(256))}
		}
	}
	stopv := func() int {
		switch rng.Intn(6) {
		case 0:
			return 1
		case 1:
			return repoBatchLimit + rng.Intn(3) - 1
		default:
			return -1
		}
	}
	iter(nil, false, -1)
	iter(&leveldbutil.Range{Limit: bound()}, rng.Intn(2) == 0, stopv())
	if !lite {
		iter(nil, true, stopv())
		iter(&leveldbutil.Range{Start: bound()}, rng.Intn(2) == 0, stopv())
		a, b := bound(), bound()
		if bytes.Compare(a, b) > 0 && rng.Intn(4) > 0 {
			a, b = b, a
		}
		iter(&leveldbutil.Range{Start: a, Limit: b}, rng.Intn(2) == 0, stopv())
	}
	if s.failed {
		return
	}

	// Get / Exists
	s.bigBegin(h)
	var probe [][]byte
	step := 1
	if len(vis) > 600 {
		step = len(vis)/600 + 1
	}
	for i := 0; i < len(vis); i += step {
		probe = append(probe, vis[i].K)
	}
	if len(vis) > 0 {
		probe = append(probe, vis[len(vis)-1].K)
	}
	probe = append(probe, hh.removedSample...)
	for j := 0; j < 8; j++ {
		probe = append(probe, []byte{bands[rng.Intn(len(bands))], byte(rng.Intn(256)), byte(rng.Intn(256))})
	}
	for i := 0; i < len(probe); i++ {
		if len(probe[i]) == 0 { // the raw key equal to the prefix: an empty key may be rejected (see assumptions)
			probe = append(probe[:i], probe[i+1:]...)
			i--
		}
	}
	s.rec("big-get-exists", p, fmt.Sprintf("keys=%d population=%s", len(probe), cls))
	r.Guard("PrefixStorage.Get", s.witness(), func() {
		for _, k := range probe {
			mv, mfound := s.m[string(p)+string(k)]
			v, found, err := pst.Get(k)
			switch {
			case err != nil:
				s.violation("Get:error", err.Error())
				return
			case found != mfound || (found && !bytes.Equal(v, mv)):
				s.violation("Get:wrong-answer", fmt.Sprintf("key %q: got (%q,%v) model (%q,%v)", k, v, found, mv, mfound))
				return
			}
			efound, err := pst.Exists(k)
			switch {
			case err != nil:
				s.violation("Exists:error", err.Error())
				return
			case efound != mfound:
				s.violation("Exists:wrong-answer", fmt.Sprintf("key %q: got %v model %v", k, efound, mfound))
				return
			}
			if mfound {
				r.Count("big_get_exists_present", 1)
			} else {
				r.Count("big_get_exists_absent", 1)
			}
		}
	})
}

// bigRemove removes the whole population of handle h's prefix (sometimes after
// a partial range removal): PrefixStorage.Remove, RemoveByPrefix, BatchRemove
// over the prefix range with limits around the population size and the repo's
// limit, or one Batch of deletes.
func (s *script) bigRemove(rng interface{ Intn(int) int }, h int) {
	if s.failed {
		return
	}
	r := s.r
	pst, p := s.hs[h], s.hp[h]

	if vis := s.m.visible(p, nil, nil, true); len(vis) >= 3 && rng.Intn(3) == 0 { // partial, by range
		s.bigBegin(h)
		i := rng.Intn(len(vis) - 1)
		j := i + 1 + rng.Intn(len(vis)-i-1)
		if rng.Intn(3) == 0 && len(vis) > repoBatchLimit+2 { // a range that needs more than one batch of the repo's size
			i = rng.Intn(len(vis) - repoBatchLimit - 2)
			j = i + repoBatchLimit + 1 + rng.Intn(len(vis)-i-repoBatchLimit-1)
		}
		rg := &leveldbutil.Range{
			Start: append(bytes.Clone(p), vis[i].K...),
			Limit: append(bytes.Clone(p), vis[j].K...),
		}
		limit := s.brLimit(rng, j-i)
		r.Count("big_partial_range_removals", 1)
		r.Count("big_batchremove_range_size_"+sizeClass(j-i), 1)
		s.doBatchRemove("big-batchremove-range", rg, limit, fmt.Sprintf("[%s,%s) keys=%d of population=%d", q(rg.Start), q(rg.Limit), j-i, len(vis)))
		if s.failed {
			return
		}
		s.after("big-batchremove-range")
		if s.failed {
			return
		}
	}

	vis := s.m.visible(p, nil, nil, true)
	n := len(vis)
	cls := sizeClass(n)
	s.bigBegin(h)
	hh := &s.hist[h]
	modelRemove := func() {
		for fk := range s.m {
			if strings.HasPrefix(fk, string(p)) {
				delete(s.m, fk)
			}
		}
	}
	var mode string
	switch x := rng.Intn(20); {
	case x < 8:
		mode = "remove"
		s.rec("big-remove", p, "population="+cls)
		r.Guard("PrefixStorage.Remove", s.witness(), func() {
			if err := pst.Remove(); err != nil {
				s.violation("Remove:error", err.Error())
				return
			}
			modelRemove()
		})
		hh.RemovalsViaInstance++
		if !s.failed {
			s.compare("Remove", p, false)
		}
	case x < 12:
		mode = "removebyprefix"
		s.rec("big-removebyprefix", nil, q(p)+" population="+cls)
		r.Guard("RemoveByPrefix", s.witness(), func() {
			if err := leveldbstorage.RemoveByPrefix(s.st, bytes.Clone(p)); err != nil {
				s.violation("RemoveByPrefix:error", err.Error())
				return
			}
			modelRemove()
		})
		if !s.failed {
			s.compare("RemoveByPrefix", p, false)
		}
	case x < 17:
		mode = "batchremove"
		limit := s.brLimit(rng, n)
		s.doBatchRemove("big-batchremove-prefix", leveldbutil.BytesPrefix(bytes.Clone(p)), limit, "prefix"+q(p)+" population="+cls)
	default:
		mode = "batch-of-deletes"
		s.rec("big-batch-deletes", p, "population="+cls)
		r.Guard("PrefixStorage.Batch", s.witness(), func() {
			b := pst.NewBatch()
			for _, e := range vis {
				b.Delete(e.K)
			}
			if err := pst.Batch(b, nil); err != nil {
				s.violation("Batch:error", err.Error())
				return
			}
			modelRemove()
		})
		if !s.failed {
			s.compare("Batch", p, false)
		}
	}
	if s.failed {
		return
	}
	r.Count("big_removals_"+mode, 1)
	r.Count("big_removed_population_"+cls, 1)
	if n > repoBatchLimit {
		r.Count("big_removals_of_population_over_batch_limit", 1)
		if mode == "remove" {
			r.Count("big_instance_Remove_of_population_over_batch_limit", 1)
		}
	}
	if hh.Removals > 0 {
		r.Count("big_removals_on_reused_instance", 1)
	}
	if n > 0 {
		hh.Removals++
		hh.removedMin, hh.removedMax = vis[0].K, vis[n-1].K
		hh.LastRemovedMin, hh.LastRemovedMax = q(vis[0].K), q(vis[n-1].K)
		if n > hh.LargestRemoved {
			hh.LargestRemoved = n
		}
		hh.removedSample = hh.removedSample[:0]
		for _, i := range []int{0, 1, n / 3, repoBatchLimit - 1, repoBatchLimit, repoBatchLimit + 1, n / 2, 2 * repoBatchLimit, n - 2, n - 1} {
			if i >= 0 && i < n {
				hh.removedSample = append(hh.removedSample, vis[i].K)
			}
		}
	}
	bigMu.Lock()
	if hh.Removals > bigMaxDepth {
		bigMaxDepth = hh.Removals
	}
	if hh.Ops > bigMaxOps {
		bigMaxOps = hh.Ops
	}
	bigMu.Unlock()
	s.after(s.ops[len(s.ops)-1].Op)
}

// BatchRemove limit for a range of n keys: around n, around the repo's limit,
// and other batch sizes (never tiny: a range of thousands with limit 1 only
// costs time)
func (s *script) brLimit(rng interface{ Intn(int) int }, n int) int {
	c := []int{50, 100, 127, 128, 129, 256, repoBatchLimit - 1, repoBatchLimit, repoBatchLimit + 1, 1000, 10000}
	for _, d := range []int{-1, 0, 1} {
		if n+d >= 50 {
			c = append(c, n+d)
		}
		if n/2+d >= 50 {
			c = append(c, n/2+d)
		}
	}
	if rng.Intn(3) == 0 {
		return repoBatchLimit
	}
	return c[rng.Intn(len(c))]
}

// something through another handle of the same storage (also a reused instance)
func (s *script) bigOther(rng interface{ Intn(int) int }, not int) {
	if s.failed || len(s.hs) < 2 {
		return
	}
	o := rng.Intn(len(s.hs) - 1)
	if o >= not {
		o++
	}
	switch x := rng.Intn(10); {
	case x < 5:
		n := 3 + rng.Intn(40)
		if rng.Intn(5) == 0 {
			n = repoBatchLimit + 1 + rng.Intn(70)
		}
		s.bigPopulate(rng, o, n, bands[rng.Intn(len(bands))], "other-handle")
	case x < 8:
		s.bigReads(rng, o, true)
	default:
		s.bigRemove(rng, o)
	}
}

func runBigScript(r *vlib.Run, idx, mainSize, cycles int, sizes []int) {
	rng := r.Rand(2525, idx)
	s := &script{r: r, idx: idx, st: leveldbstorage.NewMemStorage(), m: model{}, big: true}
	defer s.st.Close()

	// 3-5 handles, at least two of the nested look-alike family
	fam := rng.Perm(5)
	s.addHandle(prefixes[fam[0]])
	s.addHandle(prefixes[fam[1]])
	for _, pi := range rng.Perm(len(prefixes))[:1+rng.Intn(3)] {
		s.addHandle(prefixes[pi])
	}
	rng.Shuffle(len(s.hp), func(i, j int) { s.hp[i], s.hp[j] = s.hp[j], s.hp[i] })
	s.layoutHandles(rng)
	s.hist = make([]hhist, len(s.hs))

	// background: a few keys under every handle, raw neighbours
	for h := range s.hs {
		for j := 0; j < 3+rng.Intn(12); j++ {
			k, v := randKey(rng, false), randVal(rng)
			if err := s.hs[h].Put(k, v, nil); err != nil {
				r.Inconclusive("seed put failed: " + err.Error())
				return
			}
			s.m[string(s.hp[h])+string(k)] = v
		}
	}
	for j := 0; j < 6; j++ {
		k, v := s.neighbour(rng), randVal(rng)
		if len(k) == 0 {
			k = []byte{0x00}
		}
		if err := s.st.Put(k, v, nil); err != nil {
			r.Inconclusive("seed raw put failed: " + err.Error())
			return
		}
		s.m[string(k)] = v
	}
	s.ops = append(s.ops, opRec{Op: "seed", Arg: fmt.Sprintf("%d keys", len(s.m))})
	s.compare("seed", nil, true)
	s.after("seed")

	h := rng.Intn(len(s.hs))
	for c := 0; c < cycles && !s.failed; c++ {
		if c > 0 && rng.Intn(4) == 0 {
			h = (h + 1 + rng.Intn(len(s.hs)-1)) % len(s.hs)
		}
		n := mainSize
		if c > 0 {
			if rng.Intn(2) == 0 {
				n = []int{repoBatchLimit - 1, repoBatchLimit, repoBatchLimit + 1, 2*repoBatchLimit + 1}[rng.Intn(4)]
			} else {
				n = sizes[rng.Intn(len(sizes))]
				for n > 1100 {
					n = sizes[rng.Intn(len(sizes))]
				}
			}
		}
		if s.pop(h) >= n { // make room so that the population is exactly n
			s.bigRemove(rng, h)
		}
		mb := 2 + rng.Intn(len(bands)-4)
		s.bigPopulate(rng, h, n-s.pop(h), bands[mb], "main")
		s.bigOther(rng, h)
		s.bigReads(rng, h, false)
		s.bigRemove(rng, h)
		s.bigOther(rng, h)
		// the same instance again: keys below, above and between the removed ones
		parts := []struct {
			band byte
			why  string
		}{
			{bands[rng.Intn(mb)], "below-removed"},
			{bands[mb+1+rng.Intn(len(bands)-mb-1)], "above-removed"},
			{bands[mb], "between-removed"},
		}
		rng.Shuffle(len(parts), func(i, j int) { parts[i], parts[j] = parts[j], parts[i] })
		if rng.Intn(3) == 0 {
			parts = parts[:2]
		}
		for _, pt := range parts {
			s.bigPopulate(rng, h, 1+rng.Intn(24), pt.band, pt.why)
		}
		s.bigReads(rng, h, false)
		if rng.Intn(2) == 0 {
			s.bigRemove(rng, h)
			s.bigReads(rng, h, true)
		}
	}

	fp := fnv.New64a()
	for _, o := range s.ops {
		fmt.Fprintf(fp, "%s|%s|%s;", o.Op, o.Prefix, o.Arg)
	}
	if s.bigNontrivial {
		r.Distinct(fmt.Sprintf("big:%016x", fp.Sum64()))
	}
	r.Count("big_scripts", 1)
	r.Count("big_script_main_population_"+sizeClass(mainSize), 1)
	if idx < 2 {
		var ops []opRec
		for _, o := range s.ops {
			if o.Op != "big-iter" && o.Op != "big-get-exists" && len(ops) < 14 {
				ops = append(ops, o)
			}
		}
		r.Sample(map[string]any{"big_script": idx, "handles": qs(s.hp), "ops_without_reads": ops, "total_ops": len(s.ops), "instance_history": s.hist, "final_keys": len(s.m)})
	}
}
