package c25

import (
	"bytes"
	"context"
	"fmt"
	"hash/fnv"
	"sort"
	"strings"
	"sync"
	"testing"
	"time"

	leveldbstorage "github.com/spikeekips/mitum/storage/leveldb"
	leveldbutil "github.com/syndtr/goleveldb/leveldb/util"
	"verifharness/vlib"
)

// C25: PrefixStorage isolates prefixes; RemoveByPrefix / BatchRemove delete
// exactly the right keys. The oracle is a map of *full* keys of the shared
// Storage; after every operation the whole real storage is scanned and compared
// with the map, and every value the operation showed to the caller is compared
// with what the map says is visible through that prefix.

var prefixes = [][]byte{
	[]byte("ab"), []byte("abc"), []byte("ab\x00"), []byte("ab\xff"), []byte("a"),
	{0xff, 0xff}, {0xff}, {0x01, 0x01}, {0x01, 0x02}, {0x02, 0x06}, {0x02, 0x07}, {0x02, 0x00}, {0x02},
}

var alphabet = []byte{0x00, 'a', 'b', 'c', 0xff, 0x01, 0x02, 0x06, 0x07}

type model map[string][]byte

func (m model) sortedKeys() []string {
	ks := make([]string, 0, len(m))
	for k := range m {
		ks = append(ks, k)
	}
	sort.Strings(ks)
	return ks
}

type kv struct {
	K, V []byte
}

// what is visible through prefix p within stripped-key range [start,limit)
func (m model) visible(p []byte, start, limit []byte, asc bool) []kv {
	return m.visibleIn(m.sortedKeys(), p, start, limit, asc)
}

// same, over an already sorted snapshot ks of the model's keys (keys under one
// prefix are contiguous in it)
func (m model) visibleIn(ks []string, p []byte, start, limit []byte, asc bool) []kv {
	var out []kv
	from := string(p)
	if start != nil {
		from += string(start)
	}
	for i := sort.SearchStrings(ks, from); i < len(ks); i++ {
		fk := ks[i]
		if !strings.HasPrefix(fk, string(p)) {
			break
		}
		k := []byte(fk[len(p):])
		if start != nil && bytes.Compare(k, start) < 0 {
			continue
		}
		if limit != nil && bytes.Compare(k, limit) >= 0 {
			break
		}
		out = append(out, kv{K: k, V: m[fk]})
	}
	if !asc {
		for i, j := 0, len(out)-1; i < j; i, j = i+1, j-1 {
			out[i], out[j] = out[j], out[i]
		}
	}
	return out
}

func (m model) inRange(r *leveldbutil.Range) []string {
	var out []string
	for _, fk := range m.sortedKeys() {
		if r != nil {
			if r.Start != nil && bytes.Compare([]byte(fk), r.Start) < 0 {
				continue
			}
			if r.Limit != nil && bytes.Compare([]byte(fk), r.Limit) >= 0 {
				continue
			}
		}
		out = append(out, fk)
	}
	return out
}

func (m model) foreign(p []byte) int {
	n := 0
	for fk := range m {
		if !strings.HasPrefix(fk, string(p)) {
			n++
		}
	}
	return n
}

type opRec struct {
	Op     string `json:"op"`
	Prefix string `json:"prefix,omitempty"`
	Arg    string `json:"arg,omitempty"`
}

type script struct {
	r      *vlib.Run
	idx    int
	st     *leveldbstorage.Storage
	m      model
	hs     []*leveldbstorage.PrefixStorage
	hp     [][]byte // prefix of handle
	closed []bool
	ops    []opRec
	// all handle prefixes are sub-slices of one caller-owned buffer (cap > len,
	// neighbours adjacent): pbuf must never change
	pbuf     []byte
	pbufOrig []byte
	poff     [][2]int // offset, length of handle i's prefix in pbuf
	failed   bool
	// large-population / reused-instance scripts (big_test.go)
	big           bool
	cur           int // handle the current op (or view check) goes through
	bigNontrivial bool
	hist          []hhist // per handle instance: what it has lived through
}

func q(b []byte) string { return fmt.Sprintf("%q", b) }

func (s *script) witness() map[string]any {
	ops := s.ops
	if len(ops) > 60 {
		ops = ops[len(ops)-60:]
	}
	w := map[string]any{"script": s.idx, "ops_so_far": ops}
	if s.big {
		w["big"] = true
		w["handles"] = qs(s.hp)
		w["instance_history"] = s.hist
	}
	return w
}

func (s *script) violation(sig, what string) {
	s.failed = true
	name := "script"
	if s.big {
		sig += s.bigSuffix()
		name = "big-script"
	}
	s.r.Violation(sig, fmt.Sprintf("%s %d op #%d %+v: %s", name, s.idx, len(s.ops), s.ops[len(s.ops)-1], what), s.witness())
}

// compare the real storage with the model; p is the prefix the op went through
// (nil for raw operations which may touch any key).
func (s *script) compare(op string, p []byte, rawop bool) {
	real := map[string][]byte{}
	if err := s.st.Iter(nil, func(k, v []byte) (bool, error) {
		real[string(k)] = v
		return true, nil
	}, true); err != nil {
		s.r.Inconclusive("raw scan failed: " + err.Error())
		s.failed = true
		return
	}
	var outside, inside []string
	for k, v := range s.m {
		rv, ok := real[k]
		if ok && bytes.Equal(rv, v) {
			continue
		}
		d := "lost:" + q([]byte(k))
		if ok {
			d = "value-changed:" + q([]byte(k))
		}
		if !rawop && !strings.HasPrefix(k, string(p)) {
			outside = append(outside, d)
		} else {
			inside = append(inside, d)
		}
	}
	for k := range real {
		if _, ok := s.m[k]; ok {
			continue
		}
		d := "unexpected:" + q([]byte(k))
		if !rawop && !strings.HasPrefix(k, string(p)) {
			outside = append(outside, d)
		} else {
			inside = append(inside, d)
		}
	}
	sort.Strings(outside)
	sort.Strings(inside)
	if len(outside) > 0 {
		s.violation(op+":changed-keys-outside-prefix", fmt.Sprintf("operation through prefix %q changed keys outside it: %v", p, head(outside)))
	} else if len(inside) > 0 {
		what := "wrong-keys-after-op"
		s.violation(op+":"+what, fmt.Sprintf("storage differs from model after op (prefix %q): %v", p, head(inside)))
	}
	if s.failed {
		// resynchronise is pointless: stop this script
		return
	}
}

func head(s []string) []string {
	if len(s) > 8 {
		return s[:8]
	}
	return s
}

func randKey(rng interface{ Intn(int) int }, allowEmpty bool) []byte {
	var n int
	switch x := rng.Intn(20); {
	case x == 0 && allowEmpty:
		n = 0
	case x < 8:
		n = 1
	case x < 15:
		n = 2
	case x < 19:
		n = 3
	default:
		n = 4
	}
	b := make([]byte, n)
	for i := range b {
		b[i] = alphabet[rng.Intn(len(alphabet))]
	}
	return b
}

func randVal(rng interface{ Intn(int) int }) []byte {
	b := make([]byte, 1+rng.Intn(6))
	for i := range b {
		b[i] = byte(rng.Intn(256))
	}
	return b
}

func TestC25(t *testing.T) {
	r := vlib.Start(t, "C25", vlib.LevelExploration)
	defer r.Finish()
	r.SetRule("case = one operation of a script; a script = fresh in-memory leveldb Storage shared by 4-7 PrefixStorage handles over look-alike prefixes (ab, abc, ab\\x00, ab\\xff, a, \\xff\\xff, \\xff, real two-byte labels), seeded with keys over alphabet {00,a,b,c,ff,01,02,06,07} through the handles and raw neighbour keys, then 50 PRNG ops (get/exists/put/delete/iter with ranges both directions and early stop/batch/batchfunc/Remove/RemoveByPrefix/BatchRemove limit 1..10/raw put/Close+reuse); after every op the full storage is compared with a map of full keys; distinct = hash of the script's (op,prefix,argument) sequence; non-trivial = script had ops executed while keys outside the op's prefix were present. SECOND WORKLOAD (ops big-*): scripts on a fresh Storage with 3-5 handles (two of the nested family) whose PrefixStorage instances are never re-created: per cycle one handle is populated (Put / one Batch / chunked Batches / BatchFunc sizes 1..1000, some overwrites) to exactly n keys of one key band, n cycling through 1 and L-1,L,L+1,2L+1 for L in {128,256,333 (the repo's BatchRemove limit),512,1000} and 3000 (thorough also 5000); read (Iter nil-range both directions, Start-only, Limit-only, both bounds from existing keys / band bounds / bounds of the last removed population, early stop 1 and 332..334; Get+Exists of up to 600 present keys, of keys of the last removed population and of absent keys); the whole population removed (optionally after a BatchRemove of a sub-range longer than one batch) by PrefixStorage.Remove / RemoveByPrefix / BatchRemove over the prefix with limits 50..10000 incl. 332,333,334,n-1,n,n+1,n/2 / one Batch of deletes; the SAME instance populated again with keys below, above and between the removed ones; read again; sometimes removed again; between the steps the other handles of the storage get the same kind of ops. Same oracle after every op (full storage vs map; every handle's Iter(nil) vs map). Signatures of failures seen through an instance get :reused-handle when its prefix's whole population had been removed before, and :population>batch-limit when it ever held more than 333 keys")
	r.Assume("PrefixStorage.Get/Exists/Put/Delete with an empty key, and Iter with an empty non-nil range bound, may be rejected with an error; a rejection must leave the storage unchanged and show no key")
	r.Assume("BatchRemove limit is 1..10 in the small scripts (limit 0 is meaningless; the repo uses 333) and 50..10000 in the large-population scripts")
	r.Assume("the storage layer's internal batch limit is taken as 333 (literal in Storage.Clean -> BatchRemove; no exported constant), other plausible limits 128/256/512/1000 are covered by population sizes around them")
	r.Assume("a PrefixStorage that was Closed must not show or change any key (the repo's TestClose expects ErrClosed); what it may not do under the statement is show or change keys outside its prefix")

	n := r.N(4000, 60000)
	opsPer := 50
	t0 := time.Now()
	vlib.Parallel(n, 16, func(i int) {
		runScript(r, i, opsPer)
	})
	if r.Counter("ops_with_foreign_keys_present") == 0 {
		r.Inconclusive("no operation ran while keys outside its prefix existed")
	}

	// second workload (big_test.go): populations beyond the storage layer's
	// internal batch sizes on PrefixStorage instances reused over a long history
	t1 := time.Now()
	sizes := bigSizes(r.Thorough())
	nbig := r.N(6*len(sizes), 40*len(sizes))
	cycles := r.N(3, 4)
	vlib.Parallel(nbig, 16, func(i int) {
		runBigScript(r, i, sizes[len(sizes)-1-i%len(sizes)], cycles, sizes)
	})
	// informational only (cost of the two workloads); never part of a verdict
	r.Set("wall_s_small_scripts", t1.Sub(t0).Seconds())
	r.Set("wall_s_big_scripts", time.Since(t1).Seconds())
	r.Set("big_population_sizes", sizes)
	r.Set("big_assumed_internal_batch_limits", batchLimits)
	bigMu.Lock()
	r.Set("big_max_instance_reuse_depth", bigMaxDepth)
	r.Set("big_max_ops_through_one_instance", bigMaxOps)
	bigMu.Unlock()
	for _, k := range []string{
		"big_instance_Remove_of_population_over_batch_limit", "big_removals_on_reused_instance",
		"big_repopulated_keys_below_last_removed", "big_repopulated_keys_above_last_removed",
		"big_iter_limit-only", "big_iter_nil-range", "big_ops_with_foreign_keys_present",
	} {
		if r.Counter(k) == 0 {
			r.Inconclusive("large-population workload never produced: " + k)
		}
	}
}

func runScript(r *vlib.Run, idx, nops int) {
	rng := r.Rand(25, idx)
	s := &script{r: r, idx: idx, st: leveldbstorage.NewMemStorage(), m: model{}}
	defer s.st.Close()

	// handles
	perm := rng.Perm(len(prefixes))
	nh := 4 + rng.Intn(4)
	// make the look-alike family likely
	for _, pi := range perm[:nh] {
		s.addHandle(prefixes[pi])
	}
	if rng.Intn(2) == 0 {
		for _, p := range prefixes[:5] {
			s.addHandle(p)
		}
	}

	s.layoutHandles(rng)

	// seed
	for j := 0; j < 12+rng.Intn(20); j++ {
		h := rng.Intn(len(s.hs))
		k, v := randKey(rng, false), randVal(rng)
		if err := s.hs[h].Put(k, v, nil); err != nil {
			r.Inconclusive("seed put failed: " + err.Error())
			return
		}
		s.m[string(s.hp[h])+string(k)] = v
	}
	for j := 0; j < 6; j++ {
		k := s.neighbour(rng)
		v := randVal(rng)
		if err := s.st.Put(k, v, nil); err != nil {
			r.Inconclusive("seed raw put failed: " + err.Error())
			return
		}
		s.m[string(k)] = v
	}
	s.ops = append(s.ops, opRec{Op: "seed", Arg: fmt.Sprintf("%d keys", len(s.m))})
	s.compare("seed", nil, true)

	alias := 0
	for fk := range s.m {
		c := 0
		for _, p := range s.hp {
			if strings.HasPrefix(fk, string(p)) {
				c++
			}
		}
		if c > 1 {
			alias++
		}
	}
	r.Count("seed_keys_visible_through_2+_handles", alias)

	nontrivial := false
	for o := 0; o < nops && !s.failed; o++ {
		if s.step(rng) {
			nontrivial = true
		}
		s.after(s.ops[len(s.ops)-1].Op)
		if o == nops/2 || o == nops-1 {
			s.concurrentPhase(rng)
			s.after("concurrent-batches")
		}
	}

	h := fnv.New64a()
	for _, o := range s.ops {
		fmt.Fprintf(h, "%s|%s|%s;", o.Op, o.Prefix, o.Arg)
	}
	if nontrivial {
		r.Distinct(fmt.Sprintf("%016x", h.Sum64()))
	}
	r.Count("scripts", 1)
	if idx < 3 {
		ops := s.ops
		if len(ops) > 12 {
			ops = ops[:12]
		}
		r.Sample(map[string]any{"script": idx, "handles": qs(s.hp), "first_ops": ops, "final_keys": len(s.m)})
	}
}

func qs(bs [][]byte) []string {
	out := make([]string, len(bs))
	for i := range bs {
		out[i] = q(bs[i])
	}
	return out
}

func (s *script) addHandle(p []byte) {
	for _, e := range s.hp {
		if bytes.Equal(e, p) {
			return
		}
	}
	s.hp = append(s.hp, p)
	s.closed = append(s.closed, false)
}

// prefix slice of handle i as the caller hands it to NewPrefixStorage: a
// sub-slice of the shared buffer, capacity reaching to the end of the buffer
func (s *script) sub(i int) []byte {
	return s.pbuf[s.poff[i][0] : s.poff[i][0]+s.poff[i][1]]
}

func (s *script) layoutHandles(rng interface{ Intn(int) int }) {
	for i, p := range s.hp {
		if i > 0 && rng.Intn(3) == 0 { // gap between neighbours; otherwise adjacent
			for j := 0; j < 1+rng.Intn(4); j++ {
				s.pbuf = append(s.pbuf, 0xee)
			}
		}
		s.poff = append(s.poff, [2]int{len(s.pbuf), len(p)})
		s.pbuf = append(s.pbuf, p...)
	}
	for j := 0; j < 24; j++ { // slack after the last prefix
		s.pbuf = append(s.pbuf, 0xee)
	}
	s.pbuf = s.pbuf[:len(s.pbuf):len(s.pbuf)]
	s.pbufOrig = bytes.Clone(s.pbuf)
	for i := range s.hp {
		s.hs = append(s.hs, leveldbstorage.NewPrefixStorage(s.st, s.sub(i)))
	}
}

// after every op: the caller's prefix buffer is untouched and every open
// handle shows exactly the model's keys under its prefix
func (s *script) after(op string) {
	if s.failed {
		return
	}
	if !bytes.Equal(s.pbuf, s.pbufOrig) {
		at := firstDiffAt(s.pbuf, s.pbufOrig)
		s.violation("handles:caller-prefix-buffer-modified-after:"+op, fmt.Sprintf("the buffer the handle prefixes were cut from changed at offset %d: was %x now %x", at, s.pbufOrig, s.pbuf))
		return
	}
	ks := s.m.sortedKeys()
	cur := s.cur
	defer func() { s.cur = cur }()
	for i, pst := range s.hs {
		if s.closed[i] {
			continue
		}
		s.cur = i
		var got []kv
		err := pst.Iter(nil, func(k, v []byte) (bool, error) {
			got = append(got, kv{K: k, V: v})
			return true, nil
		}, true)
		if err != nil {
			s.violation("handles:view-error-after:"+op, fmt.Sprintf("handle %q: %v", s.hp[i], err))
			return
		}
		want := s.m.visibleIn(ks, s.hp[i], nil, nil, true)
		if !sameKVs(got, want) {
			s.violation("handles:view-differs-from-model-after:"+op, fmt.Sprintf("handle %q shows %s, model %s; %s", s.hp[i], kvs(got), kvs(want), diffKVs(got, want)))
			return
		}
		if s.big && len(want) > s.hist[i].MaxPopulation {
			s.hist[i].MaxPopulation = len(want)
		}
	}
	s.r.Count("all_handle_views_checked", 1)
}

func sameKVs(got, want []kv) bool {
	if len(got) != len(want) {
		return false
	}
	for j := range got {
		if !bytes.Equal(got[j].K, want[j].K) || !bytes.Equal(got[j].V, want[j].V) {
			return false
		}
	}
	return true
}

func diffKVs(got, want []kv) string {
	i := 0
	for i < len(got) && i < len(want) && bytes.Equal(got[i].K, want[i].K) && bytes.Equal(got[i].V, want[i].V) {
		i++
	}
	d := fmt.Sprintf("got %d keys, model %d keys, first difference at #%d:", len(got), len(want), i)
	if i < len(got) {
		d += fmt.Sprintf(" got %q", got[i].K)
	} else {
		d += " got <end>"
	}
	if i < len(want) {
		d += fmt.Sprintf(" model %q", want[i].K)
	} else {
		d += " model <end>"
	}
	return d
}

func firstDiffAt(a, b []byte) int {
	for i := 0; i < len(a) && i < len(b); i++ {
		if a[i] != b[i] {
			return i
		}
	}
	return min(len(a), len(b))
}

// a raw key just outside (or inside) some handle's prefix range
func (s *script) neighbour(rng interface{ Intn(int) int }) []byte {
	p := s.hp[rng.Intn(len(s.hp))]
	switch rng.Intn(5) {
	case 0: // just below the prefix
		b := bytes.Clone(p)
		if b[len(b)-1] > 0 {
			b[len(b)-1]--
			return append(b, 0xff, 0xff)
		}
		if len(b) > 1 {
			return b[:len(b)-1]
		}
		return []byte{0x00, 0x00}
	case 1: // successor of the prefix
		r := leveldbutil.BytesPrefix(p)
		if r.Limit != nil {
			return append(bytes.Clone(r.Limit), randKey(rng, true)...)
		}
		return []byte{0xfe, 0xff}
	case 2: // proper prefix of the prefix
		if len(p) > 1 {
			return bytes.Clone(p[:len(p)-1])
		}
		return []byte{p[0] ^ 0x80}
	case 3: // the prefix itself
		return bytes.Clone(p)
	default:
		return randKey(rng, false)
	}
}

func (s *script) rec(op string, p []byte, arg string) {
	o := opRec{Op: op, Arg: arg}
	if p != nil {
		o.Prefix = q(p)
	}
	s.ops = append(s.ops, o)
	s.r.Eval(1)
	s.r.Count("op_"+op, 1)
}

// step runs one op; returns true when keys outside the op's prefix existed.
func (s *script) step(rng interface{ Intn(int) int }) bool {
	r := s.r
	if len(s.m) < 10 { // destructive ops emptied the storage: refill through open handles
		n := 0
		for j := 0; j < 12; j++ {
			hh := rng.Intn(len(s.hs))
			if s.closed[hh] {
				continue
			}
			k, v := randKey(rng, false), randVal(rng)
			if err := s.hs[hh].Put(k, v, nil); err == nil {
				s.m[string(s.hp[hh])+string(k)] = v
				n++
			}
		}
		r.Count("refills", 1)
		r.Count("refill_puts", n)
	}
	h := rng.Intn(len(s.hs))
	pst, p := s.hs[h], s.hp[h]
	foreign := s.m.foreign(p) > 0
	r.Count("keys_present_at_op_total", len(s.m))
	if s.closed[h] {
		s.closedOp(rng, h)
		return foreign
	}
	x := rng.Intn(100)
	switch {
	case x < 10: // get
		k := randKey(rng, true)
		s.rec("get", p, q(k))
		r.Guard("PrefixStorage.Get", s.witness(), func() {
			v, found, err := pst.Get(k)
			mv, mfound := s.m[string(p)+string(k)]
			switch {
			case err != nil && len(k) == 0:
				r.Count("empty_key_rejected", 1)
			case err != nil:
				s.violation("Get:error", err.Error())
			case found != mfound || (found && !bytes.Equal(v, mv)):
				s.violation("Get:wrong-answer", fmt.Sprintf("got (%q,%v) model (%q,%v)", v, found, mv, mfound))
			}
		})
	case x < 17: // exists
		k := randKey(rng, true)
		s.rec("exists", p, q(k))
		r.Guard("PrefixStorage.Exists", s.witness(), func() {
			found, err := pst.Exists(k)
			_, mfound := s.m[string(p)+string(k)]
			switch {
			case err != nil && len(k) == 0:
				r.Count("empty_key_rejected", 1)
			case err != nil:
				s.violation("Exists:error", err.Error())
			case found != mfound:
				s.violation("Exists:wrong-answer", fmt.Sprintf("got %v model %v", found, mfound))
			}
		})
	case x < 29: // put
		k, v := randKey(rng, true), randVal(rng)
		s.rec("put", p, q(k))
		r.Guard("PrefixStorage.Put", s.witness(), func() {
			err := pst.Put(k, v, nil)
			switch {
			case err != nil && len(k) == 0:
				r.Count("empty_key_rejected", 1)
			case err != nil:
				s.violation("Put:error", err.Error())
			default:
				s.m[string(p)+string(k)] = v
			}
		})
		s.compare("Put", p, false)
	case x < 37: // delete
		k := s.someKey(rng, p)
		s.rec("delete", p, q(k))
		r.Guard("PrefixStorage.Delete", s.witness(), func() {
			err := pst.Delete(k, nil)
			switch {
			case err != nil && len(k) == 0:
				r.Count("empty_key_rejected", 1)
			case err != nil:
				s.violation("Delete:error", err.Error())
			default:
				delete(s.m, string(p)+string(k))
			}
		})
		s.compare("Delete", p, false)
	case x < 57: // iter
		s.iterOp(rng, h)
	case x < 65: // batch
		nb := 1 + rng.Intn(6)
		var desc []string
		b := pst.NewBatch()
		mm := map[string][]byte{}
		var order []string
		for j := 0; j < nb; j++ {
			if rng.Intn(3) == 0 {
				k := s.someKey(rng, p)
				b.Delete(k)
				mm[string(p)+string(k)] = nil
				order = append(order, string(p)+string(k))
				desc = append(desc, "del"+q(k))
			} else {
				k, v := randKey(rng, true), randVal(rng)
				b.Put(k, v)
				mm[string(p)+string(k)] = v
				order = append(order, string(p)+string(k))
				desc = append(desc, "put"+q(k))
			}
		}
		s.rec("batch", p, strings.Join(desc, ","))
		r.Guard("PrefixStorage.Batch", s.witness(), func() {
			if err := pst.Batch(b, nil); err != nil {
				s.violation("Batch:error", err.Error())
				return
			}
			for _, fk := range order { // last record of a key wins, mm holds the last
				if v := mm[fk]; v == nil {
					delete(s.m, fk)
				} else {
					s.m[fk] = v
				}
			}
		})
		s.compare("Batch", p, false)
	case x < 70: // batchfunc
		bs := uint64(1 + rng.Intn(4))
		nb := 1 + rng.Intn(7)
		s.rec("batchfunc", p, fmt.Sprintf("size=%d n=%d", bs, nb))
		r.Guard("PrefixStorage.BatchFunc", s.witness(), func() {
			add, done, cancel := pst.BatchFunc(context.Background(), bs, nil)
			defer cancel()
			do := func(f func() error) error { return f() }
			for j := 0; j < nb; j++ {
				k, v := randKey(rng, false), randVal(rng)
				if err := add(func(b leveldbstorage.LeveldbBatch) { b.Put(k, v) }, do); err != nil {
					s.violation("BatchFunc:error", err.Error())
					return
				}
				s.m[string(p)+string(k)] = v
			}
			if err := done(do); err != nil {
				s.violation("BatchFunc:error", err.Error())
			}
		})
		s.compare("BatchFunc", p, false)
	case x < 74: // Remove
		s.rec("remove", p, "")
		r.Guard("PrefixStorage.Remove", s.witness(), func() {
			if err := pst.Remove(); err != nil {
				s.violation("Remove:error", err.Error())
				return
			}
			for fk := range s.m {
				if strings.HasPrefix(fk, string(p)) {
					delete(s.m, fk)
				}
			}
		})
		s.compare("Remove", p, false)
	case x < 80: // RemoveByPrefix on the raw storage
		var rp []byte
		switch y := rng.Intn(10); {
		case y < 6:
			rp = bytes.Clone(p)
		case y < 9:
			rp = append(bytes.Clone(p), randKey(rng, false)...)
		default:
			rp = randKey(rng, false)
		}
		s.rec("removebyprefix", nil, q(rp))
		r.Guard("RemoveByPrefix", s.witness(), func() {
			if err := leveldbstorage.RemoveByPrefix(s.st, rp); err != nil {
				s.violation("RemoveByPrefix:error", err.Error())
				return
			}
			for fk := range s.m {
				if strings.HasPrefix(fk, string(rp)) {
					delete(s.m, fk)
				}
			}
		})
		s.compare("RemoveByPrefix", rp, false)
		foreign = s.m.foreign(rp) > 0 || foreign
	case x < 90: // BatchRemove
		var rg *leveldbutil.Range
		var desc string
		switch y := rng.Intn(10); {
		case y < 4:
			rg = leveldbutil.BytesPrefix(bytes.Clone(p))
			desc = "prefix" + q(p)
		case y < 6:
			sub := append(bytes.Clone(p), randKey(rng, false)...)
			rg = leveldbutil.BytesPrefix(sub)
			desc = "prefix" + q(sub)
		case y < 9:
			a := s.rawBound(rng)
			b := s.rawBound(rng)
			rg = &leveldbutil.Range{Start: a, Limit: b}
			desc = fmt.Sprintf("[%s,%s)", qn(a), qn(b))
		default:
			rg = nil
			desc = "nil"
		}
		limit := 1 + rng.Intn(10)
		s.doBatchRemove("batchremove", rg, limit, desc)
	case x < 94: // raw put next to a prefix
		k, v := s.neighbour(rng), randVal(rng)
		if len(k) == 0 {
			k = []byte{0x00}
		}
		s.rec("rawput", nil, q(k))
		if err := s.st.Put(k, v, nil); err != nil {
			s.violation("RawPut:error", err.Error())
			return foreign
		}
		s.m[string(k)] = v
		s.compare("RawPut", nil, true)
	default: // close the handle; later ops reuse it closed, then it is reopened
		s.rec("close", p, "")
		r.Guard("PrefixStorage.Close", s.witness(), func() {
			if err := pst.Close(); err != nil {
				s.violation("Close:error", err.Error())
			}
		})
		s.closed[h] = true
		s.compare("Close", p, false)
	}
	if foreign {
		r.Count("ops_with_foreign_keys_present", 1)
	}
	return foreign
}

// doBatchRemove runs BatchRemove(raw storage, rg, limit): exactly the model's
// keys of the range are gone, nothing else, and the returned count is right.
func (s *script) doBatchRemove(op string, rg *leveldbutil.Range, limit int, desc string) {
	r := s.r
	s.rec(op, nil, fmt.Sprintf("%s limit=%d", desc, limit))
	var want []string
	var mr *leveldbutil.Range
	if rg != nil {
		mr = &leveldbutil.Range{Start: bytes.Clone(rg.Start), Limit: bytes.Clone(rg.Limit)}
		if rg.Start == nil {
			mr.Start = nil
		}
		if rg.Limit == nil {
			mr.Limit = nil
		}
	}
	want = s.m.inRange(mr)
	r.Guard("BatchRemove", s.witness(), func() {
		removed, err := leveldbstorage.BatchRemove(s.st, rg, limit)
		if err != nil {
			s.violation("BatchRemove:error", err.Error())
			return
		}
		for _, fk := range want {
			delete(s.m, fk)
		}
		s.compare("BatchRemove", nil, true)
		if !s.failed && removed != len(want) {
			s.violation("BatchRemove:wrong-removed-count", fmt.Sprintf("returned %d, range held %d keys", removed, len(want)))
		}
		if len(want) > limit {
			r.Count("batchremove_multi_round", 1)
			if s.big {
				r.Count("big_batchremove_multi_round", 1)
			}
		}
	})
}

func qn(b []byte) string {
	if b == nil {
		return "nil"
	}
	return q(b)
}

func (s *script) rawBound(rng interface{ Intn(int) int }) []byte {
	switch rng.Intn(6) {
	case 0:
		return nil
	case 1:
		ks := s.m.sortedKeys()
		if len(ks) > 0 {
			return []byte(ks[rng.Intn(len(ks))])
		}
		return randKey(rng, false)
	case 2:
		return bytes.Clone(s.hp[rng.Intn(len(s.hp))])
	default:
		return append(bytes.Clone(s.hp[rng.Intn(len(s.hp))]), randKey(rng, true)...)
	}
}

// an existing stripped key under p (mostly), else random
func (s *script) someKey(rng interface{ Intn(int) int }, p []byte) []byte {
	if rng.Intn(4) > 0 {
		vis := s.m.visible(p, nil, nil, true)
		if len(vis) > 0 {
			return bytes.Clone(vis[rng.Intn(len(vis))].K)
		}
	}
	return randKey(rng, true)
}

func (s *script) iterBound(rng interface{ Intn(int) int }, p []byte) []byte {
	switch rng.Intn(8) {
	case 0, 1, 2:
		return nil
	case 3:
		return []byte{} // empty, non-nil
	case 4, 5:
		return s.someKey(rng, p)
	default:
		return randKey(rng, false)
	}
}

func (s *script) iterOp(rng interface{ Intn(int) int }, h int) {
	p := s.hp[h]
	var rg *leveldbutil.Range
	var start, limit []byte
	if rng.Intn(4) > 0 {
		start, limit = s.iterBound(rng, p), s.iterBound(rng, p)
		rg = &leveldbutil.Range{Start: start, Limit: limit}
	}
	asc := rng.Intn(2) == 0
	stop := -1
	if rng.Intn(3) == 0 {
		stop = 1 + rng.Intn(4)
	}
	arg := fmt.Sprintf("nilrange asc=%v stop=%d", asc, stop)
	if rg != nil {
		arg = fmt.Sprintf("[%s,%s) asc=%v stop=%d", qn(start), qn(limit), asc, stop)
	}
	s.doIter("iter", h, rg, asc, stop, arg)
}

// doIter runs pst.Iter(rg, …, asc) through handle h, stopping after stop keys
// when stop > 0, and compares what the callback saw with the model.
func (s *script) doIter(op string, h int, rg *leveldbutil.Range, asc bool, stop int, arg string) {
	r := s.r
	pst, p := s.hs[h], s.hp[h]
	var start, limit []byte
	if rg != nil {
		start, limit = rg.Start, rg.Limit
	}
	s.rec(op, p, arg)
	emptyBound := rg != nil && ((start != nil && len(start) == 0) || (limit != nil && len(limit) == 0))

	var got []kv
	var err error
	if r.Guard("PrefixStorage.Iter", s.witness(), func() {
		err = pst.Iter(rg, func(k, v []byte) (bool, error) {
			got = append(got, kv{K: bytes.Clone(k), V: bytes.Clone(v)})
			if stop > 0 && len(got) >= stop {
				return false, nil
			}
			return true, nil
		}, asc)
	}) {
		s.failed = true
		return
	}
	if err != nil {
		if emptyBound && len(got) == 0 {
			r.Count("iter_empty_bound_rejected", 1)
			s.compare("Iter", p, false)
			return
		}
		s.violation("Iter:error", err.Error())
		return
	}
	var ms, ml []byte
	if rg != nil {
		ms, ml = start, limit
		// an empty non-nil bound that the code accepted: "" as start = from the
		// beginning, "" as limit = nothing
	}
	want := s.m.visible(p, ms, ml, asc)
	if stop > 0 && len(want) > stop {
		want = want[:stop]
	}
	// classify
	for _, g := range got {
		if _, ok := s.m[string(p)+string(g.K)]; !ok {
			s.violation("Iter:showed-key-not-under-prefix", fmt.Sprintf("callback got key %q which is not a key under prefix %q; range %s", g.K, p, arg))
			return
		}
	}
	if !sameKVs(got, want) {
		kind := "wrong-keys-or-order"
		if len(got) > len(want) {
			kind = "keys-outside-range"
		} else if len(got) < len(want) {
			kind = "missing-keys"
		}
		s.violation("Iter:"+kind+fmt.Sprintf(":asc=%v", asc), fmt.Sprintf("got %s want %s; %s", kvs(got), kvs(want), diffKVs(got, want)))
		return
	}
	if len(got) > 0 {
		r.Count("iter_keys_shown", len(got))
	}
	if s.big {
		r.Count("big_iter_keys_shown", len(got))
	}
	s.compare("Iter", p, false)
}

func kvs(l []kv) string {
	var sb strings.Builder
	sb.WriteString("[")
	for i, e := range l {
		if i > 0 {
			sb.WriteString(" ")
		}
		if i >= 10 {
			sb.WriteString("…")
			break
		}
		fmt.Fprintf(&sb, "%q", e.K)
	}
	sb.WriteString("]")
	return sb.String()
}

// operations on a handle after Close: nothing may be shown or changed. Then
// (sometimes) the handle is replaced by a fresh one over the same prefix.
func (s *script) closedOp(rng interface{ Intn(int) int }, h int) {
	r := s.r
	pst, p := s.hs[h], s.hp[h]
	x := rng.Intn(7)
	name := []string{"get", "put", "delete", "iter", "remove", "batch", "reopen"}[x]
	s.rec("closed-"+name, p, "")
	shown := 0
	var shownOutside []string
	r.Guard("PrefixStorage."+name+"-after-Close", s.witness(), func() {
		switch x {
		case 0:
			k := s.someKey(rng, p)
			if _, found, _ := pst.Get(k); found {
				shown++
			}
		case 1:
			_ = pst.Put(randKey(rng, false), randVal(rng), nil)
		case 2:
			_ = pst.Delete(s.someKey(rng, p), nil)
		case 3:
			asc := rng.Intn(2) == 0
			_ = pst.Iter(nil, func(k, _ []byte) (bool, error) {
				shown++
				if !bytes.HasPrefix(k, p) { // a closed handle has no prefix to strip: full keys
					shownOutside = append(shownOutside, q(k))
				}
				return true, nil
			}, asc)
		case 4:
			_ = pst.Remove()
		case 5:
			b := pst.NewBatch()
			b.Put(randKey(rng, false), randVal(rng))
			_ = pst.Batch(b, nil)
		default:
			s.hs[h] = leveldbstorage.NewPrefixStorage(s.st, s.sub(h))
			s.closed[h] = false
		}
	})
	if len(shownOutside) > 0 {
		s.violation("closed-handle:"+name+":showed-keys-outside-prefix", fmt.Sprintf("handle for prefix %q after Close() showed %d keys, outside its prefix: %v", p, shown, head(shownOutside)))
		return
	}
	if shown > 0 { // only keys under its own prefix: not what the statement forbids
		r.Count("closed_handle_showed_own_keys", 1)
	}
	r.Count("ops_on_closed_handle", 1)
	// a closed handle changing keys under its own prefix (e.g. Remove still
	// removing them) is not what the statement forbids: adopt such changes
	real := map[string][]byte{}
	if err := s.st.Iter(leveldbutil.BytesPrefix(p), func(k, v []byte) (bool, error) {
		real[string(k)] = v
		return true, nil
	}, true); err == nil {
		changed := false
		for fk, v := range s.m {
			if !strings.HasPrefix(fk, string(p)) {
				continue
			}
			if rv, ok := real[fk]; !ok || !bytes.Equal(rv, v) {
				changed = true
				delete(s.m, fk)
			}
		}
		for fk, v := range real {
			if mv, ok := s.m[fk]; !ok || !bytes.Equal(mv, v) {
				changed = true
				s.m[fk] = v
			}
		}
		if changed {
			r.Count("closed_handle_changed_own_keys", 1)
		}
	}
	s.compare("closed-handle:"+name, p, false)
}

// concurrent phase: 2-8 goroutines fill separate batches (NewBatch+Batch or
// BatchFunc) through the same and through different handles and commit them.
// Every goroutine writes only full keys that end in its own tag byte and
// deletes only existing keys assigned to it, so the final contents do not
// depend on the schedule; only the contents at quiescence are judged.
type cop struct {
	del  bool
	k, v []byte
}

func (s *script) concurrentPhase(rng interface{ Intn(int) int }) {
	if s.failed {
		return
	}
	r := s.r
	var open []int
	for i := range s.hs {
		if !s.closed[i] {
			open = append(open, i)
		}
	}
	if len(open) == 0 {
		return
	}
	g := 2 + rng.Intn(7)
	type job struct {
		h       int
		viaFunc bool
		bsize   uint64
		rounds  [][]cop
	}
	jobs := make([]job, g)
	same := open[rng.Intn(len(open))]
	mode := rng.Intn(3) // 0: all through one handle, 1: all different/random, 2: mixed
	existing := s.m.sortedKeys()
	for i := range jobs {
		j := &jobs[i]
		switch {
		case mode == 0, mode == 2 && i%2 == 0:
			j.h = same
		default:
			j.h = open[rng.Intn(len(open))]
		}
		j.viaFunc = rng.Intn(2) == 0
		j.bsize = uint64(1 + rng.Intn(4))
		p := s.hp[j.h]
		tag := byte(0xa0 + i)
		var mine [][]byte
		for rd := 0; rd < 1+rng.Intn(3); rd++ {
			var ops []cop
			for x := 0; x < 2+rng.Intn(8); x++ {
				switch y := rng.Intn(10); {
				case y < 2 && len(mine) > 0 && !j.viaFunc:
					ops = append(ops, cop{del: true, k: mine[rng.Intn(len(mine))]})
				case y < 3 && len(existing) > 0 && !j.viaFunc:
					// an existing key under this handle's prefix that is assigned to goroutine i
					fk := existing[rng.Intn(len(existing))]
					if strings.HasPrefix(fk, string(p)) && len(fk) > len(p) && int(fk[len(fk)-1])%g == i && fk[len(fk)-1] < 0xa0 {
						ops = append(ops, cop{del: true, k: []byte(fk[len(p):])})
						break
					}
					fallthrough
				default:
					k := append(randKey(rng, true), tag)
					mine = append(mine, k)
					ops = append(ops, cop{k: k, v: randVal(rng)})
				}
			}
			j.rounds = append(j.rounds, ops)
		}
	}
	desc := fmt.Sprintf("goroutines=%d handle-mode=%d", g, mode)
	s.rec("concurrent-batches", nil, desc)

	var wg sync.WaitGroup
	var mu sync.Mutex
	var problems []string
	for i := range jobs {
		wg.Add(1)
		go func(j job) {
			defer wg.Done()
			defer func() {
				if e := recover(); e != nil {
					mu.Lock()
					problems = append(problems, fmt.Sprintf("panic: %v", e))
					mu.Unlock()
				}
			}()
			pst := s.hs[j.h]
			fail := func(err error) {
				mu.Lock()
				problems = append(problems, err.Error())
				mu.Unlock()
			}
			if j.viaFunc {
				add, done, cancel := pst.BatchFunc(context.Background(), j.bsize, nil)
				defer cancel()
				do := func(f func() error) error { return f() }
				for _, ops := range j.rounds {
					for _, o := range ops {
						o := o
						if err := add(func(b leveldbstorage.LeveldbBatch) { b.Put(o.k, o.v) }, do); err != nil {
							fail(err)
							return
						}
					}
				}
				if err := done(do); err != nil {
					fail(err)
				}
				return
			}
			for _, ops := range j.rounds {
				b := pst.NewBatch()
				for _, o := range ops {
					if o.del {
						b.Delete(o.k)
					} else {
						b.Put(o.k, o.v)
					}
				}
				if err := pst.Batch(b, nil); err != nil {
					fail(err)
					return
				}
			}
		}(jobs[i])
	}
	wg.Wait()
	if len(problems) > 0 {
		sort.Strings(problems)
		s.violation("concurrent-batches:error-or-panic", fmt.Sprintf("%v", head(problems)))
		return
	}
	nrec := 0
	for _, j := range jobs {
		p := string(s.hp[j.h])
		for _, ops := range j.rounds {
			for _, o := range ops {
				nrec++
				if o.del {
					delete(s.m, p+string(o.k))
				} else {
					s.m[p+string(o.k)] = o.v
				}
			}
		}
	}
	r.Count("concurrent_phases", 1)
	r.Count("concurrent_goroutines", g)
	r.Count("concurrent_batch_records", nrec)
	s.compare("concurrent-batches", nil, true)
}
