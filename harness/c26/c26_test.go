package c26

import (
	"context"
	"fmt"
	"testing"
	"time"

	"github.com/alicebob/miniredis/v2"
	"github.com/redis/go-redis/v9"
	"github.com/spikeekips/mitum/isaac"
	isaacdatabase "github.com/spikeekips/mitum/isaac/database"
	leveldbstorage "github.com/spikeekips/mitum/storage/leveldb"
	redisstorage "github.com/spikeekips/mitum/storage/redis"
	"github.com/spikeekips/mitum/util"
	goleveldbstorage "github.com/syndtr/goleveldb/leveldb/storage"
	"verifharness/c19/dbrig"
	"verifharness/vlib"
)

type config struct {
	PermCache int // same for both permanent databases
	TempCache int // state cache of each block write (0: none)
}

type witness struct {
	Chain      int
	Config     config
	Script     []string
	Mismatches []dbrig.Mismatch
	Model      map[string]string
}

// twin holds the two permanent databases and the leveldb storage in which the
// block writes (the temps both are fed from) live.
type twin struct {
	env    *dbrig.Env
	cfg    config
	raw    goleveldbstorage.Storage
	st     *leveldbstorage.Storage
	ropt   *redis.Options
	prefix string
	rst    *redisstorage.Storage
	lperm  *isaacdatabase.LeveldbPermanent
	rperm  *isaacdatabase.RedisPermanent
}

func (tw *twin) open() error {
	st, err := leveldbstorage.NewStorage(tw.raw, nil)
	if err != nil {
		return err
	}

	tw.st = st

	if tw.lperm, err = isaacdatabase.NewLeveldbPermanent(st, tw.env.Encs, tw.env.Enc, tw.cfg.PermCache); err != nil {
		return err
	}

	ctx, cancel := context.WithTimeout(context.Background(), time.Second*10)
	defer cancel()

	if tw.rst, err = redisstorage.NewStorage(ctx, tw.ropt, tw.prefix); err != nil {
		return err
	}

	tw.rperm, err = isaacdatabase.NewRedisPermanent(tw.rst, tw.env.Encs, tw.env.Enc, tw.cfg.PermCache)

	return err
}

func (tw *twin) reopen() error {
	if err := tw.st.Close(); err != nil {
		return err
	}

	if err := tw.rperm.Close(); err != nil {
		return err
	}

	tw.st, tw.lperm, tw.rst, tw.rperm = nil, nil, nil, nil

	return tw.open()
}

// temp writes the block as a block writer does and hands out its temp database.
func (tw *twin) temp(b *dbrig.Block) (isaac.TempDatabase, error) {
	bw := isaacdatabase.NewLeveldbBlockWrite(b.Height, tw.st, tw.env.Encs, tw.env.Enc)

	if tw.cfg.TempCache > 0 {
		bw.SetStateCache(util.NewLFUGCache[string, [2]interface{}](tw.cfg.TempCache))
	}

	if err := bw.SetBlockMap(b.Map); err != nil {
		return nil, err
	}

	if err := bw.SetStates(b.States); err != nil {
		return nil, err
	}

	if err := bw.SetOperations(b.Ops); err != nil {
		return nil, err
	}

	if b.Proof != nil {
		if err := bw.SetSuffrageProof(b.Proof); err != nil {
			return nil, err
		}
	}

	if err := bw.Write(); err != nil {
		return nil, err
	}

	return bw.TempDatabase()
}

type run struct {
	r      *vlib.Run
	idx    int
	tw     *twin
	gen    *dbrig.Gen
	chain  *dbrig.Chain
	script []string
}

func (s *run) log(format string, a ...any) { s.script = append(s.script, fmt.Sprintf(format, a...)) }

// compare: every PermanentDatabase read on both stores; answers must be equal
// (found flags, objects, encoder hint, meta and body bytes).
func (s *run) compare(step string) {
	r := s.r
	w := witness{Chain: s.idx, Config: s.tw.cfg, Script: append([]string{}, s.script...)}

	var lrs, rrs dbrig.ReadSet

	if r.Guard("LeveldbPermanent.read", w, func() {
		lrs = dbrig.ReadAll(s.tw.env, dbrig.PermanentReader(s.tw.lperm), s.gen.U)
	}) {
		return
	}

	if r.Guard("RedisPermanent.read", w, func() {
		rrs = dbrig.ReadAll(s.tw.env, dbrig.PermanentReader(s.tw.rperm), s.gen.U)
	}) {
		return
	}

	kinds := map[string]int{}
	for q := range lrs {
		kinds[dbrig.Kind(q)]++
	}

	for k, n := range kinds {
		r.Count("reads_compared_"+k, n)
	}

	r.Count("steps_"+step, 1)
	r.Case(fmt.Sprintf("%s/blocks=%d/suf=%d/keys=%d/cache=%d,%d", step, len(s.chain.Blocks), s.chain.LastSufHeight(), len(s.gen.U.Keys), s.tw.cfg.PermCache, s.tw.cfg.TempCache))

	ms := dbrig.DiffExact(lrs, rrs)
	if len(ms) < 1 {
		return
	}

	model := dbrig.Expected(s.gen.U, s.chain.Blocks)
	groups := map[string][]dbrig.Mismatch{}

	for _, m := range ms {
		groups["redis-differs:"+dbrig.Kind(m.Query)+":"+m.Class] = append(groups["redis-differs:"+dbrig.Kind(m.Query)+":"+m.Class], m)
	}

	for sig, g := range groups {
		w.Mismatches = dbrig.Head(g, 5)
		w.Model = map[string]string{}

		for _, m := range w.Mismatches {
			w.Model[m.Query] = model[m.Query].Short()
		}

		r.Violation(sig, fmt.Sprintf("after %s (chain %d, %d blocks merged): %s: leveldb answers %q, redis answers %q (all committed blocks: %q); %d such reads",
			step, s.idx, len(s.chain.Blocks), g[0].Query, g[0].Want, g[0].Got, model[g[0].Query].Short(), len(g)), w)
	}
}

func (s *run) merge(opt dbrig.BlockOpt) bool {
	b := s.gen.Next(s.chain, opt)
	s.log("merge h=%d states=%d ops=%d suffrage=%v policy=%v", b.Height, len(b.States), len(b.Ops), b.Proof != nil, b.Policy != nil)

	temp, err := s.tw.temp(b)
	if err != nil {
		s.r.Inconclusive("block write failed: " + err.Error())

		return false
	}

	if err := s.tw.lperm.MergeTempDatabase(context.Background(), temp); err != nil {
		s.r.Violation("leveldb:merge-error", err.Error(), witness{Chain: s.idx, Script: s.script})

		return false
	}

	if err := s.tw.rperm.MergeTempDatabase(context.Background(), temp); err != nil {
		s.r.Violation("redis:merge-error", err.Error(), witness{Chain: s.idx, Script: s.script})

		return false
	}

	s.chain.Append(b)
	s.r.Count("blocks_merged", 1)

	return true
}

func runChain(r *vlib.Run, env *dbrig.Env, mr *miniredis.Miniredis, idx int, directed bool) {
	rng := r.Rand(1, idx)

	cfg := config{
		PermCache: []int{0, 0, 2, 64, 4096}[rng.Intn(5)],
		TempCache: []int{0, 3, 4096}[rng.Intn(3)],
	}

	if directed {
		cfg = config{PermCache: 4096, TempCache: 0}
	}

	tw := &twin{
		env: env, cfg: cfg, raw: goleveldbstorage.NewMemStorage(),
		ropt:   &redis.Options{Network: "tcp", Addr: mr.Addr()},
		prefix: fmt.Sprintf("c26-%d-%d", r.Seed, idx),
	}

	if err := tw.open(); err != nil {
		r.Inconclusive("open stores: " + err.Error())

		return
	}

	defer func() {
		_ = tw.st.Close()
		_ = tw.rperm.Close()
	}()

	s := &run{r: r, idx: idx, tw: tw, gen: dbrig.NewGen(env, rng, fmt.Sprintf("c%d", idx)), chain: &dbrig.Chain{}}

	s.compare("empty")

	if directed {
		// a key is read from the permanent store (and cached), then a later
		// block rewrites it; the temp carries no state cache (a syncer import)
		plain := dbrig.BlockOpt{States: 3, FreshKey: 1, Ops: 1, StateOps: 1}
		rewrite := dbrig.BlockOpt{States: 3, FreshKey: 0, Ops: 1, StateOps: 1}

		for _, o := range []dbrig.BlockOpt{plain, rewrite, rewrite} {
			if !s.merge(o) {
				return
			}

			s.compare("merge")
		}

		r.Sample(map[string]any{"chain": "directed state rewrite", "config": cfg, "script": s.script})

		return
	}

	nblocks := 5 + rng.Intn(r.N(10, 25))
	maxStates := []int{3, 8, 20}[rng.Intn(3)]
	sufEvery := 1 + rng.Intn(5)

	for i := 0; i < nblocks; i++ {
		opt := dbrig.RandomOpt(rng, maxStates, sufEvery)
		if !s.merge(opt) {
			return
		}

		s.compare("merge")

		if rng.Intn(4) == 0 {
			s.log("reopen both")

			if err := tw.reopen(); err != nil {
				r.Violation("reopen:error", err.Error(), witness{Chain: idx, Script: s.script})

				return
			}

			r.Count("reopens", 1)
			s.compare("reopen")
		}
	}

	if idx < 3 {
		r.Sample(map[string]any{"chain": idx, "config": cfg, "script": s.script})
	}
}

func TestC26(t *testing.T) {
	r := vlib.Start(t, "C26", vlib.LevelExploration)
	defer r.Finish()

	r.SetRule("case = one step (merge of the next generated block's temp database into both permanent databases, or close + reopen of both) followed by every isaac.PermanentDatabase read (every state key, operation hash, block height, suffrage height of the scenario and two past each end; objects and *Bytes tuples) on LeveldbPermanent (memory leveldb) and RedisPermanent (miniredis, in-process, over loopback TCP), compared field by field; distinct = (step kind, blocks merged, suffrage height, keys in scenario, cache sizes)")
	r.Assume("miniredis v2.33.0 stands in for a Redis server (the repository's own redis test does the same); both stores get the same state cache size, the block writes get a state cache or none, as launch does for block writers resp. importers")

	env := dbrig.NewEnv()

	mr, err := miniredis.Run()
	if err != nil {
		r.Inconclusive("miniredis does not start: " + err.Error())

		return
	}

	defer mr.Close()

	runChain(r, env, mr, 100000, true)

	n := r.N(30, 400)

	vlib.Parallel(n, 8, func(i int) {
		r.WithWatchdog(10*time.Minute, fmt.Sprintf("chain %d", i), func() { runChain(r, env, mr, i, false) })
	})

	r.Set("chains", n)

	if r.Counter("blocks_merged") < 1 {
		r.Inconclusive("nothing was merged")
	}
}
