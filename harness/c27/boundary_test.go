package c27

import (
	"fmt"
	"runtime/debug"
	"sort"
	"strings"
	"sync"

	jsonenc "github.com/spikeekips/mitum/util/encoder/json"
	"verifharness/c27/objrig"
	"verifharness/vlib"
)

// Boundary-value phase: the objects of every generator again, with the
// numeric draws of one field class (height, round, unsigned count, signed
// int, duration, threshold, time) replaced by a boundary value of the field's
// type - in every draw of the class at once ("all") or in one draw only
// ("site<k>", so that fields derived from each other do not overflow
// together). An object the repository's constructor/setter or IsValid
// refuses is not a case (not an encodable valid object); every other one
// goes through the same encode -> decode -> compare -> re-encode oracle.

// generate runs the generator; refused: a constructor refused the boundary
// value; other panics are reported to the caller.
func generate(spec objrig.Spec, g *objrig.G) (x any, refused bool, panicked string) {
	defer func() {
		if e := recover(); e != nil {
			if _, ok := e.(objrig.Refused); ok {
				x, refused = nil, true

				return
			}

			panicked = fmt.Sprintf("%v\n%s", e, debug.Stack())
		}
	}()

	return spec.Gen(g), false, ""
}

const boundaryRandBase = 1 << 20 // PRNG index space of the boundary phase, apart from the ordinary objects'

type boundaryBase struct {
	idx int // PRNG index of the base object
	n   int // draws of the class in the base object
}

type boundaryJob struct {
	s     int
	class string
	base  boundaryBase
	value objrig.BoundValue
	site  int
}

func siteName(site int) string {
	if site == objrig.AllSites {
		return "all"
	}

	return fmt.Sprintf("site%d", site)
}

func boundaryPhase(r *vlib.Run, enc *jsonenc.Encoder, st *stats, specs []objrig.Spec) {
	thorough := r.Thorough()
	tries := r.N(3, 8)    // base objects tried per generator
	nbases := r.N(1, 3)   // base objects used per (generator, class)
	maxSites := r.N(2, 8) // single-site variants per (base object, value)

	// 1. which classes each generator draws, and how many times
	bases := make([]map[string][]boundaryBase, len(specs))

	vlib.Parallel(len(specs), 16, func(s int) {
		spec := specs[s]
		if strings.Contains(spec.Name, "!wrong-network") { // invalid by construction
			return
		}

		m := map[string][]boundaryBase{}

		for idx := 0; idx < tries; idx++ {
			g := objrig.NewG(r.Rand(s, boundaryRandBase+idx))
			g.B = objrig.NewBound("", objrig.BoundValue{}, objrig.CountOnly)

			if _, _, p := generate(spec, g); p != "" {
				r.Inconclusive(fmt.Sprintf("generator %s panicked: %s", spec.Name, p))

				return
			}

			for class, n := range g.B.Draws {
				if n > 0 && len(m[class]) < nbases {
					m[class] = append(m[class], boundaryBase{idx: idx, n: n})
				}
			}
		}

		bases[s] = m
	})

	// 2. the cases
	var jobs []boundaryJob

	values := map[string][]string{}

	for _, class := range objrig.Classes {
		vs := objrig.BoundValues(class, thorough)
		for _, v := range vs {
			values[class] = append(values[class], v.Label)
		}

		for s := range specs {
			for _, base := range bases[s][class] {
				for j, v := range vs {
					jobs = append(jobs, boundaryJob{s: s, class: class, base: base, value: v, site: objrig.AllSites})

					if base.n < 2 {
						continue // one draw only: "all" is that draw
					}

					switch {
					case thorough:
						for k := 0; k < base.n && k < maxSites; k++ {
							jobs = append(jobs, boundaryJob{s: s, class: class, base: base, value: v, site: k})
						}
					default: // a few single-site variants, rotating over the sites with the values
						for q := 0; q < base.n && q < maxSites; q++ {
							jobs = append(jobs, boundaryJob{s: s, class: class, base: base, value: v, site: (j + s + q) % base.n})
						}
					}
				}
			}
		}
	}

	var mu sync.Mutex

	checkedByClass := map[string]int{}
	checkedByKind := map[string]int{}
	skippedByKind := map[string]int{}
	refusedByKind := map[string]int{}
	typesByClass := map[string]map[string]int{}
	outcomeBySpecClass := map[string][2]int{} // generator|class -> checked, not a case

	vlib.Parallel(len(jobs), 16, func(k int) {
		job := jobs[k]
		spec := specs[job.s]

		g := objrig.NewG(r.Rand(job.s, boundaryRandBase+job.base.idx))
		g.B = objrig.NewBound(job.class, job.value, job.site)

		bc := &boundaryCase{Class: job.class, Label: job.value.Label, Bucket: job.value.Bucket, Site: siteName(job.site)}
		kind := job.class + job.value.Bucket
		key := spec.Name + "|" + job.class

		wit := map[string]any{
			"generator": spec.Name, "index": boundaryRandBase + job.base.idx,
			"boundary": job.class + "=" + job.value.Label, "boundary_sites": bc.Site,
		}

		x, refused, p := generate(spec, g)

		switch {
		case p != "":
			r.Inconclusive(fmt.Sprintf("generator %s (%s=%s@%s) panicked: %s", spec.Name, job.class, job.value.Label, bc.Site, p))

			return
		case refused:
			r.Count("boundary_objects_refused_by_constructor", 1)
			mu.Lock()
			refusedByKind[kind]++
			o := outcomeBySpecClass[key]
			o[1]++
			outcomeBySpecClass[key] = o
			mu.Unlock()

			return
		case x == nil:
			return
		case g.B.Applied < 1: // the boundary value of an earlier field changed the path: the site was not reached
			r.Count("boundary_site_not_reached", 1)

			return
		}

		sample := job.site == objrig.AllSites && job.base.idx == 0 &&
			((spec.Name == "manifest" && job.value.Label == "2^53+1") || (spec.Name == "fact:init" && job.value.Label == "maxuint64"))

		switch checkObject(r, enc, st, spec, g, x, wit, bc, nil, sample) {
		case objSkippedInvalid:
			r.Count("boundary_objects_skipped_invalid", 1)
			mu.Lock()
			skippedByKind[kind]++
			o := outcomeBySpecClass[key]
			o[1]++
			outcomeBySpecClass[key] = o
			mu.Unlock()
		default:
			r.Count("boundary_objects_checked", 1)
			mu.Lock()
			checkedByClass[job.class]++
			checkedByKind[kind]++

			ht := hintType(x, spec.Hint)
			if typesByClass[job.class] == nil {
				typesByClass[job.class] = map[string]int{}
			}

			typesByClass[job.class][ht]++

			o := outcomeBySpecClass[key]
			o[0]++
			outcomeBySpecClass[key] = o
			mu.Unlock()
		}
	})

	types := map[string][]string{}

	for class, m := range typesByClass {
		for ht, n := range m {
			types[class] = append(types[class], fmt.Sprintf("%s=%d", ht, n))
		}

		sort.Strings(types[class])
	}

	var never []string

	for key, o := range outcomeBySpecClass {
		if o[0] == 0 {
			never = append(never, key)
		}
	}

	sort.Strings(never)

	r.Set("boundary_cases_generated", len(jobs))
	r.Set("boundary_values_by_class", values)
	r.Set("boundary_checked_by_class", checkedByClass)
	r.Set("boundary_checked_by_class_and_kind", checkedByKind)
	r.Set("boundary_skipped_invalid_by_class_and_kind", skippedByKind)
	r.Set("boundary_refused_by_constructor_by_class_and_kind", refusedByKind)
	r.Set("boundary_hint_types_checked_by_class", types)
	r.Set("boundary_generator_class_never_valid", never)

	if len(checkedByClass) < len(objrig.Classes) {
		r.Inconclusive(fmt.Sprintf("boundary phase: only %d of %d field classes produced a valid object", len(checkedByClass), len(objrig.Classes)))
	}
}
