package c27

import (
	"crypto/sha256"
	"encoding/hex"
	"fmt"
	"runtime/debug"
	"sort"
	"strings"
	"testing"
	"time"

	"github.com/spikeekips/mitum/util"
	"github.com/spikeekips/mitum/util/hint"
	"verifharness/c27/objrig"
	"verifharness/vlib"
)

// verdict runs IsValid and folds the outcome to "ok", "invalid" or "panic:<site>".
func verdict(v any, networkID []byte) (s string, detail string) {
	iv, ok := v.(util.IsValider)
	if !ok {
		return "no-isvalid", ""
	}

	defer func() {
		if e := recover(); e != nil {
			s = "panic:" + vlib.PanicSite(string(debug.Stack()))
			detail = fmt.Sprint(e)
		}
	}()

	if err := iv.IsValid(networkID); err != nil {
		return "invalid", err.Error()
	}

	return "ok", ""
}

func hintType(v any, fallback hint.Hint) string {
	if h, ok := v.(hint.Hinter); ok {
		return h.Hint().Type().String()
	}

	return fallback.Type().String()
}

func short(b []byte) string {
	if len(b) > 1500 {
		return string(b[:1500]) + "..."
	}

	return string(b)
}

func TestC27(t *testing.T) {
	r := vlib.Start(t, "C27", vlib.LevelExploration)
	defer r.Finish()

	r.SetRule("case = one object built by the repository's exported constructors from PRNG(seed, generator, i), encoded with the JSON encoder " +
		"loaded with launch.Hinters+SupportedProposalOperationFactHinters, decoded by enc.Decode (DecodeWithHint for tree nodes, which carry no _hint), re-encoded; " +
		"distinct = (generator, structural shape of the encoding: key paths, list lengths, nested hints, null/empty leaves); non-trivial = every case (each is a full real object). " +
		"Boundary cases: the same generators with every draw ('all') or one draw ('site<k>') of one numeric field class replaced by a boundary value of the field's type - " +
		"height (int64: 0, 1, 2^31+-1, 2^32+-1, 2^53-1, 2^53, 2^53+1, 2^53+3, 2^62, 2^62+1, maxint64-1, maxint64, -1, minint64), round and unsigned counts/limits (the same and 2^63, 2^63+1, maxuint64-1, maxuint64), " +
		"signed ints, durations (the int64 edges and unit edges of the readable encoding), thresholds (51.0, 67.0, 100.0, one-decimal rounding edges, many decimals, just outside the range), " +
		"times (epoch+-1ns, 2^31/2^32 seconds, max unix nanoseconds, year 9999, no fraction and 9-digit fractions, other zone); an object whose constructor/setter or IsValid refuses the value is not a case; " +
		"distinct boundary case = (generator, shape, class=value@sites); the same oracle, signatures end in ':boundary=<class><kind of value>'")
	r.Assume("signing time, proposal proposedAt, voteproof id/finishedAt and the empty-proposal fact's r come from the constructors (wall clock / uuid), not from the PRNG")
	r.Assume("only types listed under covered_* are claimed; registered types under not_covered were never generated (no exported constructor)")
	r.Assume("isaac.Params is node-local configuration whose encoding omits the network id by design (the loader sets it): the decoded Params gets the network id set before IsValid is compared")
	r.Assume("tree nodes encode without _hint and are decoded with DecodeWithHint; keys and addresses encode as '<body><type>' strings and are decoded with DecodeWithFixedHintType")
	r.Assume("boundary objects are checked only when IsValid accepts the original (boundary_objects_skipped_invalid counts the others) and are not put through the repeated-decode phase")
	r.Assume("every hinted object is also decoded 5 times from the same bytes (3 in a row, another type, 2 more) on a per-worker encoder, unmodified and with every _hint (top level and nested) rewritten to a higher compatible version (patch+1; minor+3): all decodes must agree in type, hint, hash, validity and re-encoding; the current tree keeps the received hint version in the decoded object, so the re-encoding must equal what was received")
	r.Assume("a panic inside IsValid counts as a validity verdict of its own ('panic:<site>'): equal before and after decoding is not a C27 violation; sites are listed in isvalid_panic_sites")

	enc, err := objrig.NewEncoder()
	if err != nil {
		r.Inconclusive("encoder: " + err.Error())

		return
	}

	specs := objrig.Catalog()
	per := r.N(50, 1000)

	// a valid encoding of another type, decoded in between repeated decodes
	otherBytes, err := enc.Marshal(objrig.NewG(r.Rand(999)).Manifest())
	if err != nil {
		r.Inconclusive("marshal manifest: " + err.Error())

		return
	}

	type job struct{ s, i int }

	jobs := make([]job, 0, len(specs)*per)
	for s := range specs {
		for i := 0; i < per; i++ {
			jobs = append(jobs, job{s, i})
		}
	}

	var st stats
	st.init()

	started := time.Now()

	vlib.Parallel(len(jobs), 16, func(k int) {
		spec := specs[jobs[k].s]
		g := objrig.NewG(r.Rand(jobs[k].s, jobs[k].i))
		wit := map[string]any{"generator": spec.Name, "index": jobs[k].i}

		var x any

		func() {
			defer func() {
				if e := recover(); e != nil {
					r.Inconclusive(fmt.Sprintf("generator %s panicked: %v\n%s", spec.Name, e, debug.Stack()))
				}
			}()

			x = spec.Gen(g)
		}()

		if x == nil {
			return
		}

		checkObject(r, enc, &st, spec, g, x, wit, nil, otherBytes, jobs[k].i == 0 && (jobs[k].s%29 == 0))
	})

	ordinaryDone := time.Now()

	boundaryPhase(r, enc, &st, specs)

	// cost of the two phases (evidence only; no verdict depends on it)
	r.Set("wall_s_ordinary_phase", ordinaryDone.Sub(started).Round(100*time.Millisecond).Seconds())
	r.Set("wall_s_boundary_phase", time.Since(ordinaryDone).Round(100*time.Millisecond).Seconds())

	top, nested, verdicts, byGroup, panicSites, invalidGen := st.top, st.nested, st.verdicts, st.byGroup, st.panicSites, st.invalidGen

	// coverage of the registered hint types
	var coveredTop, coveredNested, notCovered []string

	for _, h := range objrig.Registered() {
		ty := h.Type().String()

		switch {
		case top[ty] > 0:
			coveredTop = append(coveredTop, fmt.Sprintf("%s=%d", ty, top[ty]))
		case nested[ty] > 0:
			coveredNested = append(coveredNested, fmt.Sprintf("%s=%d", ty, nested[ty]))
		default:
			notCovered = append(notCovered, ty)
		}
	}

	r.Set("registered_hint_types", len(objrig.Registered()))
	r.Set("covered_top_level", coveredTop)
	r.Set("covered_only_nested", coveredNested)
	r.Set("not_covered", notCovered)
	r.Set("generators", len(specs))
	r.Set("objects_per_generator", per)
	r.Set("objects_by_group", byGroup)
	r.Set("isvalid_verdicts_of_generated", verdicts)

	if len(panicSites) > 0 {
		keys := make([]string, 0, len(panicSites))
		for k, n := range panicSites {
			keys = append(keys, fmt.Sprintf("%s (x%d)", k, n))
		}

		sort.Strings(keys)
		r.Set("isvalid_panic_sites", keys)
	}

	if len(invalidGen) > 0 {
		r.Set("generators_producing_invalid_objects", invalidGen)
	}

	if len(coveredTop) == 0 {
		r.Inconclusive("no registered type generated")
	}
}

func verdictClass(v string) string {
	if strings.HasPrefix(v, "panic:") {
		return "panic"
	}

	return v
}

func shapeHash(tree any) string {
	s := sha256.Sum256([]byte(objrig.Shape(tree)))

	return hex.EncodeToString(s[:8])
}
