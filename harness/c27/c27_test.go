package c27

import (
	"bytes"
	"crypto/sha256"
	"encoding/hex"
	"fmt"
	"reflect"
	"runtime/debug"
	"sort"
	"strings"
	"sync"
	"testing"

	"github.com/spikeekips/mitum/isaac"
	"github.com/spikeekips/mitum/util"
	"github.com/spikeekips/mitum/util/hint"
	"verifharness/c27/objrig"
	"verifharness/vlib"
)

// verdict runs IsValid and folds the outcome to "ok", "invalid" or "panic:<site>".
func verdict(v any, networkID []byte) (s string, detail string) {
	iv, ok := v.(util.IsValider)
	if !ok {
		return "no-isvalid", ""
	}

	defer func() {
		if e := recover(); e != nil {
			s = "panic:" + vlib.PanicSite(string(debug.Stack()))
			detail = fmt.Sprint(e)
		}
	}()

	if err := iv.IsValid(networkID); err != nil {
		return "invalid", err.Error()
	}

	return "ok", ""
}

func hintType(v any, fallback hint.Hint) string {
	if h, ok := v.(hint.Hinter); ok {
		return h.Hint().Type().String()
	}

	return fallback.Type().String()
}

func short(b []byte) string {
	if len(b) > 1500 {
		return string(b[:1500]) + "..."
	}

	return string(b)
}

func TestC27(t *testing.T) {
	r := vlib.Start(t, "C27", vlib.LevelExploration)
	defer r.Finish()

	r.SetRule("case = one object built by the repository's exported constructors from PRNG(seed, generator, i), encoded with the JSON encoder " +
		"loaded with launch.Hinters+SupportedProposalOperationFactHinters, decoded by enc.Decode (DecodeWithHint for tree nodes, which carry no _hint), re-encoded; " +
		"distinct = (generator, structural shape of the encoding: key paths, list lengths, nested hints, null/empty leaves); non-trivial = every case (each is a full real object)")
	r.Assume("signing time, proposal proposedAt, voteproof id/finishedAt and the empty-proposal fact's r come from the constructors (wall clock / uuid), not from the PRNG")
	r.Assume("only types listed under covered_* are claimed; registered types under not_covered were never generated (no exported constructor)")
	r.Assume("isaac.Params is node-local configuration whose encoding omits the network id by design (the loader sets it): the decoded Params gets the network id set before IsValid is compared")
	r.Assume("tree nodes encode without _hint and are decoded with DecodeWithHint; keys and addresses encode as '<body><type>' strings and are decoded with DecodeWithFixedHintType")
	r.Assume("every hinted object is also decoded 5 times from the same bytes (3 in a row, another type, 2 more) on a per-worker encoder, unmodified and with every _hint (top level and nested) rewritten to a higher compatible version (patch+1; minor+3): all decodes must agree in type, hint, hash, validity and re-encoding; the current tree keeps the received hint version in the decoded object, so the re-encoding must equal what was received")
	r.Assume("a panic inside IsValid counts as a validity verdict of its own ('panic:<site>'): equal before and after decoding is not a C27 violation; sites are listed in isvalid_panic_sites")

	enc, err := objrig.NewEncoder()
	if err != nil {
		r.Inconclusive("encoder: " + err.Error())

		return
	}

	specs := objrig.Catalog()
	per := r.N(50, 1000)

	var mu sync.Mutex

	top := map[string]int{}    // hint type -> objects generated at top level
	nested := map[string]int{} // hint type -> occurrences inside other objects
	verdicts := map[string]int{}
	byGroup := map[string]int{}
	panicSites := map[string]int{}
	invalidGen := map[string]string{} // generator expected valid but invalid: first error

	// a valid encoding of another type, decoded in between repeated decodes
	otherBytes, err := enc.Marshal(objrig.NewG(r.Rand(999)).Manifest())
	if err != nil {
		r.Inconclusive("marshal manifest: " + err.Error())

		return
	}

	type job struct{ s, i int }

	jobs := make([]job, 0, len(specs)*per)
	for s := range specs {
		for i := 0; i < per; i++ {
			jobs = append(jobs, job{s, i})
		}
	}

	vlib.Parallel(len(jobs), 16, func(k int) {
		spec := specs[jobs[k].s]
		g := objrig.NewG(r.Rand(jobs[k].s, jobs[k].i))
		wit := map[string]any{"generator": spec.Name, "index": jobs[k].i}

		var x any

		func() {
			defer func() {
				if e := recover(); e != nil {
					r.Inconclusive(fmt.Sprintf("generator %s panicked: %v\n%s", spec.Name, e, debug.Stack()))
				}
			}()

			x = spec.Gen(g)
		}()

		if x == nil {
			return
		}

		ht := hintType(x, spec.Hint)
		wit["hint"] = ht

		var b []byte

		var err error

		if r.Guard("marshal:"+ht, wit, func() { b, err = enc.Marshal(x) }) {
			return
		}

		if err != nil {
			r.Violation("marshal-error:"+ht, fmt.Sprintf("%s: Marshal failed: %v", spec.Name, err), wit)

			return
		}

		wit["encoded"] = short(b)

		tree, terr := objrig.ParseTree(b)
		if terr != nil {
			r.Violation("marshal-not-json:"+ht, fmt.Sprintf("%s: encoding is not JSON: %v", spec.Name, terr), wit)

			return
		}

		r.Case(spec.Name + "|" + shapeHash(tree))

		decode := func(b []byte) (any, error) {
			switch {
			case spec.FixedTypeSize > 0:
				var s string
				if err := enc.Unmarshal(b, &s); err != nil {
					return nil, err
				}

				return enc.DecodeWithFixedHintType(s, spec.FixedTypeSize)
			case !spec.Hint.IsEmpty():
				return enc.DecodeWithHint(b, spec.Hint)
			default:
				return enc.Decode(b)
			}
		}

		var y any

		var derr error

		if r.Guard("decode:"+ht, wit, func() { y, derr = decode(b) }) {
			return
		}

		if derr != nil {
			r.Violation("decode-error:"+ht, fmt.Sprintf("%s: own encoding does not decode: %v", spec.Name, derr), wit)

			return
		}

		if y == nil {
			r.Violation("decode-nil:"+ht, fmt.Sprintf("%s: own encoding decodes to nil", spec.Name), wit)

			return
		}

		// same concrete type and hint
		if tx, ty := reflect.TypeOf(x), reflect.TypeOf(y); tx != ty {
			r.Violation("type-differs:"+ht, fmt.Sprintf("%s: encoded %v, decoded %v", spec.Name, tx, ty), wit)

			return
		}

		if hx, ok := x.(hint.Hinter); ok {
			hy, ok := y.(hint.Hinter)
			if !ok || !hx.Hint().Equal(hy.Hint()) {
				r.Violation("hint-differs:"+ht, fmt.Sprintf("%s: hint %v decoded as %v", spec.Name, hx.Hint(), y), wit)
			}
		}

		// same hash
		if hx, ok := x.(util.Hasher); ok {
			hy := y.(util.Hasher) //nolint:forcetypeassert // same type
			a, c := hx.Hash(), hy.Hash()

			switch {
			case a == nil && c == nil:
			case a == nil || c == nil || !a.Equal(c):
				r.Violation("hash-differs:"+ht, fmt.Sprintf("%s: Hash() %v decoded %v", spec.Name, a, c), wit)
			}
		}

		if hx, ok := x.(util.HashByter); ok {
			hy := y.(util.HashByter) //nolint:forcetypeassert // same type

			var ba, bc []byte

			pa := r.Guard("hashbytes:"+ht, wit, func() { ba = hx.HashBytes() })
			pc := r.Guard("hashbytes-decoded:"+ht, wit, func() { bc = hy.HashBytes() })

			if !pa && !pc && !bytes.Equal(ba, bc) {
				r.Violation("hashbytes-differ:"+ht, fmt.Sprintf("%s: HashBytes() differ after decoding", spec.Name), wit)
			}
		}

		// isaac.Params is node-local configuration: its encoding leaves the
		// network id out on purpose and the loader sets it afterwards.
		if p, ok := y.(*isaac.Params); ok {
			_ = p.SetNetworkID(g.NetworkID)
		}

		// same validity
		arg := []byte(g.NetworkID)
		if spec.NilIsValidArg {
			arg = nil
		}

		vx, dx := verdict(x, arg)
		vy, dy := verdict(y, arg)

		if vx != vy {
			wit["isvalid_original"] = vx + " " + dx
			wit["isvalid_decoded"] = vy + " " + dy
			r.Violation("validity-differs:"+ht+":"+verdictClass(vx)+"->"+verdictClass(vy),
				fmt.Sprintf("%s: IsValid %s (%s) before, %s (%s) after decoding", spec.Name, vx, dx, vy, dy), wit)
		}

		// same bytes
		var b2 []byte

		var merr error

		if !r.Guard("remarshal:"+ht, wit, func() { b2, merr = enc.Marshal(y) }) {
			switch {
			case merr != nil:
				r.Violation("remarshal-error:"+ht, fmt.Sprintf("%s: decoded object does not encode: %v", spec.Name, merr), wit)
			case !bytes.Equal(b, b2):
				where := "?"
				if t2, err := objrig.ParseTree(b2); err == nil {
					where = objrig.FirstDiff(tree, t2, nil)
					if where == "" {
						where = "(same tree, different bytes)"
					}
				}

				wit["reencoded"] = short(b2)
				r.Violation("reencode-differs:"+ht+":"+where,
					fmt.Sprintf("%s: re-encoding the decoded object differs at %s", spec.Name, where), wit)
			}
		}

		// the same bytes decoded again and again, also with compatible hint versions
		if spec.FixedTypeSize == 0 {
			res, nd, nv := repeated(spec, ht, b, otherBytes, g.NetworkID)
			for _, x := range res {
				r.Violation(x.Sig, x.What, x.Witness)
			}

			r.Count("repeated_decodes", nd)
			r.Count("compatible_version_variants", nv)
		}

		mu.Lock()
		top[ht]++
		byGroup[spec.Group]++
		verdicts[vx]++

		if strings.HasPrefix(vx, "panic:") {
			panicSites[spec.Name+" -> "+vx+": "+dx]++
		}

		if vx == "invalid" && !strings.Contains(spec.Name, "!wrong-network") {
			if _, ok := invalidGen[spec.Name]; !ok {
				invalidGen[spec.Name] = dx
			}
		}

		for _, h := range objrig.Hints(tree) {
			if ph, err := hint.ParseHint(h); err == nil {
				nested[ph.Type().String()]++
			}
		}
		mu.Unlock()

		if jobs[k].i == 0 && (jobs[k].s%23 == 0) {
			r.Sample(map[string]any{"generator": spec.Name, "hint": ht, "isvalid": vx, "bytes": len(b), "encoded": short(b)})
		}
	})

	// coverage of the registered hint types
	var coveredTop, coveredNested, notCovered []string

	for _, h := range objrig.Registered() {
		ty := h.Type().String()

		switch {
		case top[ty] > 0:
			coveredTop = append(coveredTop, fmt.Sprintf("%s=%d", ty, top[ty]))
		case nested[ty] > 0:
			coveredNested = append(coveredNested, fmt.Sprintf("%s=%d", ty, nested[ty]))
		default:
			notCovered = append(notCovered, ty)
		}
	}

	r.Set("registered_hint_types", len(objrig.Registered()))
	r.Set("covered_top_level", coveredTop)
	r.Set("covered_only_nested", coveredNested)
	r.Set("not_covered", notCovered)
	r.Set("generators", len(specs))
	r.Set("objects_per_generator", per)
	r.Set("objects_by_group", byGroup)
	r.Set("isvalid_verdicts_of_generated", verdicts)

	if len(panicSites) > 0 {
		keys := make([]string, 0, len(panicSites))
		for k, n := range panicSites {
			keys = append(keys, fmt.Sprintf("%s (x%d)", k, n))
		}

		sort.Strings(keys)
		r.Set("isvalid_panic_sites", keys)
	}

	if len(invalidGen) > 0 {
		r.Set("generators_producing_invalid_objects", invalidGen)
	}

	if len(coveredTop) == 0 {
		r.Inconclusive("no registered type generated")
	}
}

func verdictClass(v string) string {
	if strings.HasPrefix(v, "panic:") {
		return "panic"
	}

	return v
}

func shapeHash(tree any) string {
	s := sha256.Sum256([]byte(objrig.Shape(tree)))

	return hex.EncodeToString(s[:8])
}
