package c27

import (
	"bytes"
	"fmt"
	"reflect"
	"strings"
	"sync"

	"github.com/spikeekips/mitum/isaac"
	"github.com/spikeekips/mitum/util"
	jsonenc "github.com/spikeekips/mitum/util/encoder/json"
	"github.com/spikeekips/mitum/util/hint"
	"verifharness/c27/objrig"
	"verifharness/vlib"
)

// stats: what the checked objects were (shared by the workers).
type stats struct {
	mu         sync.Mutex
	top        map[string]int    // hint type -> objects generated at top level
	nested     map[string]int    // hint type -> occurrences inside other objects
	verdicts   map[string]int    // IsValid verdict of the generated object
	byGroup    map[string]int    // spec group -> objects
	panicSites map[string]int    // IsValid panics
	invalidGen map[string]string // ordinary generator expected valid but invalid: first error
	// signatures of the violations of ordinary (non-boundary) objects
	ordinarySigs map[string]bool
}

func (s *stats) init() {
	s.top = map[string]int{}
	s.nested = map[string]int{}
	s.verdicts = map[string]int{}
	s.byGroup = map[string]int{}
	s.panicSites = map[string]int{}
	s.invalidGen = map[string]string{}
	s.ordinarySigs = map[string]bool{}
}

// boundaryCase describes the boundary value an object was built with.
type boundaryCase struct {
	Class  string // field class of the boundary value
	Label  string // the value
	Bucket string // kind of boundary value (goes into signatures)
	Site   string // "all" or "site<k>": which draws of the class got the value
}

func (b *boundaryCase) sig() string {
	if b == nil {
		return ""
	}

	return ":boundary=" + b.Class + b.Bucket
}

// outcome of checkObject.
const (
	objChecked        = "checked"
	objSkippedInvalid = "skipped-invalid" // boundary object the repository's IsValid refuses: not a case
	objStopped        = "stopped"         // a violation ended the check early
)

// checkObject: encode -> decode -> compare (type, hint, hash, hash bytes,
// IsValid verdict) -> re-encode, bytes equal. bc != nil: x was built with a
// boundary value; it is a case only when IsValid accepts it, signatures get
// the boundary kind appended, and the repeated-decode phase is left out.
func checkObject(
	r *vlib.Run, enc *jsonenc.Encoder, st *stats,
	spec objrig.Spec, g *objrig.G, x any, wit map[string]any,
	bc *boundaryCase, otherBytes []byte, sample bool,
) string {
	ht := hintType(x, spec.Hint)
	wit["hint"] = ht

	bsig := bc.sig()

	// a failure the ordinary objects already showed under the same signature
	// is not a boundary failure: it is not reported again per kind of boundary
	viol := func(sig, what string) {
		st.mu.Lock()
		seen := st.ordinarySigs[sig]
		if bc == nil {
			st.ordinarySigs[sig] = true
		}
		st.mu.Unlock()

		if bc != nil && seen {
			r.Count("boundary_failures_already_seen_without_boundary", 1)

			return
		}

		r.Violation(sig+bsig, what, wit)
	}
	guard := func(prefix string, f func()) bool { return r.Guard(prefix+bsig, wit, f) }

	arg := []byte(g.NetworkID)
	if spec.NilIsValidArg {
		arg = nil
	}

	var vx, dx string

	if bc != nil {
		if vx, dx = verdict(x, arg); vx == "invalid" {
			wit["isvalid_original"] = dx

			return objSkippedInvalid
		}
	}

	var b []byte

	var err error

	if guard("marshal:"+ht, func() { b, err = enc.Marshal(x) }) {
		return objStopped
	}

	if err != nil {
		viol("marshal-error:"+ht, fmt.Sprintf("%s: Marshal failed: %v", spec.Name, err))

		return objStopped
	}

	wit["encoded"] = short(b)

	tree, terr := objrig.ParseTree(b)
	if terr != nil {
		viol("marshal-not-json:"+ht, fmt.Sprintf("%s: encoding is not JSON: %v", spec.Name, terr))

		return objStopped
	}

	switch {
	case bc == nil:
		r.Case(spec.Name + "|" + shapeHash(tree))
	default:
		r.Case(spec.Name + "|" + shapeHash(tree) + "|boundary:" + bc.Class + "=" + bc.Label + "@" + bc.Site)
	}

	decode := func(b []byte) (any, error) {
		switch {
		case spec.FixedTypeSize > 0:
			var s string
			if err := enc.Unmarshal(b, &s); err != nil {
				return nil, err
			}

			return enc.DecodeWithFixedHintType(s, spec.FixedTypeSize)
		case !spec.Hint.IsEmpty():
			return enc.DecodeWithHint(b, spec.Hint)
		default:
			return enc.Decode(b)
		}
	}

	var y any

	var derr error

	if guard("decode:"+ht, func() { y, derr = decode(b) }) {
		return objStopped
	}

	if derr != nil {
		viol("decode-error:"+ht, fmt.Sprintf("%s: own encoding does not decode: %v", spec.Name, derr))

		return objStopped
	}

	if y == nil {
		viol("decode-nil:"+ht, fmt.Sprintf("%s: own encoding decodes to nil", spec.Name))

		return objStopped
	}

	// same concrete type and hint
	if tx, ty := reflect.TypeOf(x), reflect.TypeOf(y); tx != ty {
		viol("type-differs:"+ht, fmt.Sprintf("%s: encoded %v, decoded %v", spec.Name, tx, ty))

		return objStopped
	}

	if hx, ok := x.(hint.Hinter); ok {
		hy, ok := y.(hint.Hinter)
		if !ok || !hx.Hint().Equal(hy.Hint()) {
			viol("hint-differs:"+ht, fmt.Sprintf("%s: hint %v decoded as %v", spec.Name, hx.Hint(), y))
		}
	}

	// same hash
	if hx, ok := x.(util.Hasher); ok {
		hy := y.(util.Hasher) //nolint:forcetypeassert // same type
		a, c := hx.Hash(), hy.Hash()

		switch {
		case a == nil && c == nil:
		case a == nil || c == nil || !a.Equal(c):
			viol("hash-differs:"+ht, fmt.Sprintf("%s: Hash() %v decoded %v", spec.Name, a, c))
		}
	}

	if hx, ok := x.(util.HashByter); ok {
		hy := y.(util.HashByter) //nolint:forcetypeassert // same type

		var ba, bd []byte

		pa := guard("hashbytes:"+ht, func() { ba = hx.HashBytes() })
		pc := guard("hashbytes-decoded:"+ht, func() { bd = hy.HashBytes() })

		if !pa && !pc && !bytes.Equal(ba, bd) {
			viol("hashbytes-differ:"+ht, fmt.Sprintf("%s: HashBytes() differ after decoding", spec.Name))
		}
	}

	// isaac.Params is node-local configuration: its encoding leaves the
	// network id out on purpose and the loader sets it afterwards.
	if p, ok := y.(*isaac.Params); ok {
		_ = p.SetNetworkID(g.NetworkID)
	}

	// same validity
	if bc == nil {
		vx, dx = verdict(x, arg)
	}

	vy, dy := verdict(y, arg)

	if vx != vy {
		wit["isvalid_original"] = vx + " " + dx
		wit["isvalid_decoded"] = vy + " " + dy
		viol("validity-differs:"+ht+":"+verdictClass(vx)+"->"+verdictClass(vy),
			fmt.Sprintf("%s: IsValid %s (%s) before, %s (%s) after decoding", spec.Name, vx, dx, vy, dy))
	}

	// same bytes
	var b2 []byte

	var merr error

	if !guard("remarshal:"+ht, func() { b2, merr = enc.Marshal(y) }) {
		switch {
		case merr != nil:
			viol("remarshal-error:"+ht, fmt.Sprintf("%s: decoded object does not encode: %v", spec.Name, merr))
		case !bytes.Equal(b, b2):
			where := "?"
			if t2, err := objrig.ParseTree(b2); err == nil {
				where = objrig.FirstDiff(tree, t2, nil)
				if where == "" {
					where = "(same tree, different bytes)"
				}
			}

			wit["reencoded"] = short(b2)
			viol("reencode-differs:"+ht+":"+where,
				fmt.Sprintf("%s: re-encoding the decoded object differs at %s", spec.Name, where))
		}
	}

	// the same bytes decoded again and again, also with compatible hint versions
	if spec.FixedTypeSize == 0 && bc == nil {
		res, nd, nv := repeated(spec, ht, b, otherBytes, g.NetworkID)
		for _, x := range res {
			r.Violation(x.Sig, x.What, x.Witness)
		}

		r.Count("repeated_decodes", nd)
		r.Count("compatible_version_variants", nv)
	}

	st.mu.Lock()
	if bc == nil {
		st.top[ht]++
		st.byGroup[spec.Group]++
		st.verdicts[vx]++
	}

	if strings.HasPrefix(vx, "panic:") {
		st.panicSites[spec.Name+" -> "+vx+": "+dx]++
	}

	if bc == nil && vx == "invalid" && !strings.Contains(spec.Name, "!wrong-network") {
		if _, ok := st.invalidGen[spec.Name]; !ok {
			st.invalidGen[spec.Name] = dx
		}
	}

	if bc == nil {
		for _, h := range objrig.Hints(tree) {
			if ph, err := hint.ParseHint(h); err == nil {
				st.nested[ph.Type().String()]++
			}
		}
	}
	st.mu.Unlock()

	if sample {
		m := map[string]any{"generator": spec.Name, "hint": ht, "isvalid": vx, "bytes": len(b), "encoded": short(b)}
		if bc != nil {
			m["boundary"] = bc.Class + "=" + bc.Label + "@" + bc.Site
		}

		r.Sample(m)
	}

	return objChecked
}
