package objrig

import (
	"fmt"

	"github.com/spikeekips/mitum/base"
	"github.com/spikeekips/mitum/isaac"
	"github.com/spikeekips/mitum/util"
)

// ---- expel operations ----

// Expels builds one signed suffrage-expel operation per target node; every
// signer signs every operation. start <= height (ballots demand it).
func (g *G) Expels(height base.Height, targets, signers []LocalNode) ([]base.SuffrageExpelOperation, []util.Hash) {
	ops := make([]base.SuffrageExpelOperation, len(targets))
	facts := make([]util.Hash, len(targets))

	for i := range targets {
		start := height
		if height > 1 && g.R.Intn(2) == 0 {
			start = height - base.Height(g.R.Int63n(int64(height-1))) // in [2..height] or so, > genesis
			if start < 1 {
				start = 1
			}
		}

		start = g.bHeight(start)
		end := g.bHeight(start + base.Height(g.R.Intn(5)))
		fact := isaac.NewSuffrageExpelFact(targets[i].Addr, start, end, "reason-"+g.Str(1+g.R.Intn(12)))
		op := isaac.NewSuffrageExpelOperation(fact)

		for j := range signers {
			if err := op.NodeSign(signers[j].Priv, g.NetworkID, signers[j].Addr); err != nil {
				panic(err)
			}
		}

		ops[i] = op
		facts[i] = fact.Hash()
	}

	return ops, facts
}

// ExpelOperation is one standalone suffrage-expel operation.
func (g *G) ExpelOperation() isaac.SuffrageExpelOperation {
	k := 1 + g.R.Intn(len(g.Nodes)-1)
	idx := g.Pick(len(g.Nodes), k+1)
	target := g.Nodes[idx[0]]
	signers := make([]LocalNode, k)

	for i := range signers {
		signers[i] = g.Nodes[idx[i+1]]
	}

	ops, _ := g.Expels(g.Height(), []LocalNode{target}, signers)

	return ops[0].(isaac.SuffrageExpelOperation) //nolint:forcetypeassert //...
}

// ---- ballot facts ----

const (
	KindINIT            = "init"
	KindSuffrageConfirm = "suffrage-confirm"
	KindEmptyProposal   = "empty-proposal-init"
	KindACCEPT          = "accept"
	KindEmptyOperations = "empty-operations-accept"
	KindNotProcessed    = "not-processed-accept"
)

var (
	INITFactKinds   = []string{KindINIT, KindSuffrageConfirm, KindEmptyProposal}
	ACCEPTFactKinds = []string{KindACCEPT, KindEmptyOperations, KindNotProcessed}
)

func (g *G) INITFact(kind string, point base.Point, prev, proposal util.Hash, expelfacts []util.Hash) base.INITBallotFact {
	if prev == nil {
		prev = g.Hash()
	}

	if proposal == nil {
		proposal = g.Hash()
	}

	switch kind {
	case KindINIT:
		return isaac.NewINITBallotFact(point, prev, proposal, expelfacts)
	case KindSuffrageConfirm:
		if len(expelfacts) < 1 {
			expelfacts = []util.Hash{g.Hash()}
		}

		return isaac.NewSuffrageConfirmBallotFact(point, prev, proposal, expelfacts)
	case KindEmptyProposal:
		return isaac.NewEmptyProposalINITBallotFact(point, prev, proposal)
	default:
		panic("unknown init fact kind " + kind)
	}
}

func (g *G) ACCEPTFact(kind string, point base.Point, proposal, newblock util.Hash, expelfacts []util.Hash) base.ACCEPTBallotFact {
	if proposal == nil {
		proposal = g.Hash()
	}

	if newblock == nil {
		newblock = g.Hash()
	}

	switch kind {
	case KindACCEPT:
		return isaac.NewACCEPTBallotFact(point, proposal, newblock, expelfacts)
	case KindEmptyOperations:
		return isaac.NewEmptyOperationsACCEPTBallotFact(point, proposal)
	case KindNotProcessed:
		return isaac.NewNotProcessedACCEPTBallotFact(point, proposal)
	default:
		panic("unknown accept fact kind " + kind)
	}
}

// RandomINITFact / RandomACCEPTFact: standalone facts of the given kind.
func (g *G) RandomINITFact(kind string) base.INITBallotFact {
	var expelfacts []util.Hash

	if kind == KindSuffrageConfirm || (kind == KindINIT && g.R.Intn(2) == 0) {
		expelfacts = make([]util.Hash, 1+g.R.Intn(3))
		for i := range expelfacts {
			expelfacts[i] = g.Hash()
		}
	}

	return g.INITFact(kind, g.Point(), nil, nil, expelfacts)
}

func (g *G) RandomACCEPTFact(kind string) base.ACCEPTBallotFact {
	var expelfacts []util.Hash

	if kind == KindACCEPT && g.R.Intn(2) == 0 {
		expelfacts = make([]util.Hash, 1+g.R.Intn(3))
		for i := range expelfacts {
			expelfacts[i] = g.Hash()
		}
	}

	return g.ACCEPTFact(kind, g.Point(), nil, nil, expelfacts)
}

// ---- sign facts ----

func (g *G) SignINIT(fact base.INITBallotFact, n LocalNode) isaac.INITBallotSignFact {
	return g.SignINITNet(fact, n, g.NetworkID)
}

func (g *G) SignINITNet(fact base.INITBallotFact, n LocalNode, networkID base.NetworkID) isaac.INITBallotSignFact {
	sf := isaac.NewINITBallotSignFact(fact)
	if err := sf.NodeSign(n.Priv, networkID, n.Addr); err != nil {
		panic(err)
	}

	return sf
}

func (g *G) SignACCEPT(fact base.ACCEPTBallotFact, n LocalNode) isaac.ACCEPTBallotSignFact {
	return g.SignACCEPTNet(fact, n, g.NetworkID)
}

func (g *G) SignACCEPTNet(fact base.ACCEPTBallotFact, n LocalNode, networkID base.NetworkID) isaac.ACCEPTBallotSignFact {
	sf := isaac.NewACCEPTBallotSignFact(fact)
	if err := sf.NodeSign(n.Priv, networkID, n.Addr); err != nil {
		panic(err)
	}

	return sf
}

// ---- voteproofs ----

const (
	VPMajority = "majority"
	VPDraw     = "draw"
	VPExpel    = "expel" // majority, with expels
	VPStuck    = "stuck"
)

var VoteproofKinds = []string{VPMajority, VPDraw, VPExpel, VPStuck}

// splitNodes returns (voters, expelled). For expel/stuck kinds at least one
// node is expelled and at least one votes.
func (g *G) splitNodes(kind string) (voters, expelled []LocalNode) {
	n := len(g.Nodes)
	p := g.R.Perm(n)

	switch kind {
	case VPExpel, VPStuck:
		k := 1 + g.R.Intn((n-1)/2) // expelled
		for i, j := range p {
			if i < k {
				expelled = append(expelled, g.Nodes[j])
			} else {
				voters = append(voters, g.Nodes[j])
			}
		}
	default:
		nv := 1 + g.R.Intn(n)
		for _, j := range p[:nv] {
			voters = append(voters, g.Nodes[j])
		}
	}

	return voters, expelled
}

// INITVoteproofWith builds an INIT voteproof of the given kind at point. For
// majority kinds the majority fact has (prev, proposal); returned fact is the
// majority fact (nil for draw/stuck).
func (g *G) INITVoteproofWith(kind string, point base.Point, prev, proposal util.Hash) (base.INITVoteproof, base.INITBallotFact) {
	voters, expelled := g.splitNodes(kind)

	var expels []base.SuffrageExpelOperation

	var expelfacts []util.Hash

	if len(expelled) > 0 {
		expels, expelfacts = g.Expels(point.Height(), expelled, voters)
	}

	sfs := make([]base.BallotSignFact, len(voters))

	switch kind {
	case VPMajority, VPExpel:
		fact := g.INITFact(KindINIT, point, prev, proposal, expelfacts)

		for i := range voters {
			f := fact
			// a minority may vote for something else
			if i > 0 && i == len(voters)-1 && len(voters) > 2 && g.R.Intn(3) == 0 {
				k := INITFactKinds[g.R.Intn(len(INITFactKinds))]
				if k == KindEmptyProposal {
					f = g.INITFact(k, point, nil, nil, nil)
				} else {
					f = g.INITFact(k, point, nil, nil, expelfacts)
				}
			}

			sfs[i] = g.SignINIT(f, voters[i])
		}

		if kind == VPMajority {
			vp := isaac.NewINITVoteproof(point)
			vp.SetMajority(fact).SetSignFacts(sfs).SetThreshold(g.Threshold()).Finish()

			return vp, fact
		}

		vp := isaac.NewINITExpelVoteproof(point)
		vp.SetMajority(fact).SetSignFacts(sfs).SetThreshold(g.Threshold())
		vp.SetExpels(expels)
		vp.Finish()

		return vp, fact
	case VPDraw:
		for i := range voters {
			k := INITFactKinds[g.R.Intn(len(INITFactKinds))]
			sfs[i] = g.SignINIT(g.RandomINITFactAt(k, point), voters[i])
		}

		vp := isaac.NewINITVoteproof(point)
		vp.SetSignFacts(sfs).SetThreshold(g.Threshold()).Finish()

		return vp, nil
	case VPStuck:
		fact := g.INITFact(KindINIT, point, prev, proposal, expelfacts)
		for i := range voters {
			sfs[i] = g.SignINIT(fact, voters[i])
		}

		vp := isaac.NewINITStuckVoteproof(point)
		vp.SetSignFacts(sfs).SetMajority(fact)
		vp.SetExpels(expels)
		vp.Finish()

		return vp, nil
	default:
		panic("unknown voteproof kind " + kind)
	}
}

func (g *G) RandomINITFactAt(kind string, point base.Point) base.INITBallotFact {
	var expelfacts []util.Hash
	if kind == KindSuffrageConfirm {
		expelfacts = []util.Hash{g.Hash()}
	}

	return g.INITFact(kind, point, nil, nil, expelfacts)
}

func (g *G) ACCEPTVoteproofWith(kind string, point base.Point, proposal, newblock util.Hash) (base.ACCEPTVoteproof, base.ACCEPTBallotFact) {
	mk := KindACCEPT
	if kind == VPMajority && g.R.Intn(4) == 0 {
		mk = KindNotProcessed
	}

	return g.ACCEPTVoteproofMajorityKind(kind, mk, point, proposal, newblock)
}

// ACCEPTVoteproofMajorityKind: mk is the fact kind of the majority (accept or not-processed).
func (g *G) ACCEPTVoteproofMajorityKind(kind, mk string, point base.Point, proposal, newblock util.Hash) (base.ACCEPTVoteproof, base.ACCEPTBallotFact) {
	voters, expelled := g.splitNodes(kind)

	var expels []base.SuffrageExpelOperation

	var expelfacts []util.Hash

	if len(expelled) > 0 {
		expels, expelfacts = g.Expels(point.Height(), expelled, voters)
	}

	sfs := make([]base.BallotSignFact, len(voters))

	switch kind {
	case VPMajority, VPExpel:
		if kind != VPMajority {
			mk = KindACCEPT
		}

		fact := g.ACCEPTFact(mk, point, proposal, newblock, expelfacts)

		for i := range voters {
			f := fact
			if i > 0 && i == len(voters)-1 && len(voters) > 2 && g.R.Intn(3) == 0 {
				f = g.ACCEPTFact(ACCEPTFactKinds[g.R.Intn(len(ACCEPTFactKinds))], point, nil, nil, nil)
			}

			sfs[i] = g.SignACCEPT(f, voters[i])
		}

		if kind == VPMajority {
			vp := isaac.NewACCEPTVoteproof(point)
			vp.SetMajority(fact).SetSignFacts(sfs).SetThreshold(g.Threshold()).Finish()

			return vp, fact
		}

		vp := isaac.NewACCEPTExpelVoteproof(point)
		vp.SetMajority(fact).SetSignFacts(sfs).SetThreshold(g.Threshold())
		vp.SetExpels(expels)
		vp.Finish()

		return vp, fact
	case VPDraw:
		for i := range voters {
			sfs[i] = g.SignACCEPT(g.ACCEPTFact(ACCEPTFactKinds[g.R.Intn(len(ACCEPTFactKinds))], point, nil, nil, nil), voters[i])
		}

		vp := isaac.NewACCEPTVoteproof(point)
		vp.SetSignFacts(sfs).SetThreshold(g.Threshold()).Finish()

		return vp, nil
	case VPStuck:
		fact := g.ACCEPTFact(KindACCEPT, point, proposal, newblock, expelfacts)
		for i := range voters {
			sfs[i] = g.SignACCEPT(fact, voters[i])
		}

		vp := isaac.NewACCEPTStuckVoteproof(point)
		vp.SetSignFacts(sfs).SetMajority(fact)
		vp.SetExpels(expels)
		vp.Finish()

		return vp, nil
	default:
		panic("unknown voteproof kind " + kind)
	}
}

func (g *G) INITVoteproof(kind string) base.INITVoteproof {
	vp, _ := g.INITVoteproofWith(kind, g.Point(), nil, nil)

	return vp
}

func (g *G) ACCEPTVoteproof(kind string) base.ACCEPTVoteproof {
	vp, _ := g.ACCEPTVoteproofWith(kind, g.Point(), nil, nil)

	return vp
}

// ---- ballots ----

// Ballot shapes.
const (
	BLInitAfterAcceptMajority = "init:accept-majority-vp" // round 0, previous height ACCEPT majority
	// INIT ballot carrying an ACCEPT voteproof whose majority is a not-processed
	// fact (kept apart: IsValid of such a ballot panics in BallotMajority()).
	BLInitAfterAcceptNotProcessed = "init:accept-not-processed-majority-vp"
	BLInitAfterAcceptDraw         = "init:accept-draw-vp"       // next round after ACCEPT draw
	BLInitAfterInitDraw           = "init:init-draw-vp"         // next round after INIT draw
	BLInitAfterInitStuck          = "init:init-stuck-vp"        // next round after INIT stuck
	BLInitWithExpels              = "init:expels"               // INIT fact with expel facts + expels in body
	BLInitEmptyProposal           = "init:empty-proposal-fact"  // empty proposal fact
	BLInitSuffrageConfirm         = "init:suffrage-confirm"     // suffrage confirm fact with INIT expel voteproof
	BLAccept                      = "accept:init-majority-vp"   // ACCEPT with INIT majority voteproof
	BLAcceptWithExpels            = "accept:expels"             // ACCEPT with INIT expel voteproof + expels
	BLAcceptEmptyOperations       = "accept:empty-operations"   // empty operations fact
	BLAcceptNotProcessed          = "accept:not-processed-fact" // not processed fact
)

var BallotShapes = []string{
	BLInitAfterAcceptMajority, BLInitAfterAcceptNotProcessed, BLInitAfterAcceptDraw, BLInitAfterInitDraw, BLInitAfterInitStuck,
	BLInitWithExpels, BLInitEmptyProposal, BLInitSuffrageConfirm,
	BLAccept, BLAcceptWithExpels, BLAcceptEmptyOperations, BLAcceptNotProcessed,
}

// Ballot builds a valid ballot of the given shape, signed by a suffrage node
// that did not get expelled in it.
func (g *G) Ballot(shape string) base.Ballot {
	signer := g.Nodes[g.R.Intn(len(g.Nodes))]

	switch shape {
	case BLInitAfterAcceptNotProcessed:
		h := g.Height()
		avp, afact := g.ACCEPTVoteproofMajorityKind(VPMajority, KindNotProcessed, base.NewPoint(h-1, g.Round()), nil, nil)
		fact := g.INITFact(KindINIT, base.NewPoint(h, 0), afact.NewBlock(), nil, nil)

		return isaac.NewINITBallot(avp, g.SignINIT(fact, signer), nil)
	case BLInitAfterAcceptMajority, BLInitEmptyProposal:
		h := g.Height()
		newblock := g.Hash()
		avp, _ := g.ACCEPTVoteproofMajorityKind(VPMajority, KindACCEPT, base.NewPoint(h-1, g.Round()), nil, newblock)

		kind := KindINIT
		if shape == BLInitEmptyProposal {
			kind = KindEmptyProposal
		}

		fact := g.INITFact(kind, base.NewPoint(h, 0), newblock, nil, nil)

		return isaac.NewINITBallot(avp, g.SignINIT(fact, signer), nil)
	case BLInitAfterAcceptDraw:
		p := g.Point()
		avp, _ := g.ACCEPTVoteproofWith(VPDraw, p, nil, nil)
		fact := g.INITFact(KindINIT, p.NextRound(), nil, nil, nil)

		return isaac.NewINITBallot(avp, g.SignINIT(fact, signer), nil)
	case BLInitAfterInitDraw, BLInitAfterInitStuck:
		p := g.Point()

		k := VPDraw
		if shape == BLInitAfterInitStuck {
			k = VPStuck
		}

		ivp, _ := g.INITVoteproofWith(k, p, nil, nil)
		fact := g.INITFact(KindINIT, p.NextRound(), nil, nil, nil)

		return isaac.NewINITBallot(ivp, g.SignINIT(fact, signer), nil)
	case BLInitWithExpels:
		h := g.Height()
		newblock := g.Hash()
		avp, _ := g.ACCEPTVoteproofMajorityKind(VPMajority, KindACCEPT, base.NewPoint(h-1, g.Round()), nil, newblock)

		signer, expels, expelfacts := g.ballotExpels(h)
		fact := g.INITFact(KindINIT, base.NewPoint(h, 0), newblock, nil, expelfacts)

		return isaac.NewINITBallot(avp, g.SignINIT(fact, signer), expels)
	case BLInitSuffrageConfirm:
		p := base.NewPoint(g.Height(), g.Round()+1)
		ivp, ifact := g.INITVoteproofWith(VPExpel, p.PrevRound(), nil, nil)
		expelfacts := ifact.(isaac.ExpelBallotFact).ExpelFacts() //nolint:forcetypeassert //...
		cp := make([]util.Hash, len(expelfacts))
		copy(cp, expelfacts)

		fact := g.INITFact(KindSuffrageConfirm, p, ifact.PreviousBlock(), ifact.Proposal(), cp)
		signer := g.nonExpelled(ivp.(base.HasExpels).Expels()) //nolint:forcetypeassert //...

		return isaac.NewINITBallot(ivp, g.SignINIT(fact, signer), nil)
	case BLAccept, BLAcceptEmptyOperations, BLAcceptNotProcessed:
		p := g.Point()
		ivp, ifact := g.INITVoteproofWith(VPMajority, p, nil, nil)

		kind := KindACCEPT

		switch shape {
		case BLAcceptEmptyOperations:
			kind = KindEmptyOperations
		case BLAcceptNotProcessed:
			kind = KindNotProcessed
		}

		fact := g.ACCEPTFact(kind, p, ifact.Proposal(), nil, nil)

		return isaac.NewACCEPTBallot(ivp, g.SignACCEPT(fact, signer), nil)
	case BLAcceptWithExpels:
		p := g.Point()
		ivp, ifact := g.INITVoteproofWith(VPExpel, p, nil, nil)
		expels := ivp.(base.HasExpels).Expels() //nolint:forcetypeassert //...
		cpops := make([]base.SuffrageExpelOperation, len(expels))
		copy(cpops, expels)

		expelfacts := make([]util.Hash, len(expels))
		for i := range expels {
			expelfacts[i] = expels[i].Fact().Hash()
		}

		fact := g.ACCEPTFact(KindACCEPT, p, ifact.Proposal(), nil, expelfacts)
		signer := g.nonExpelled(expels)

		return isaac.NewACCEPTBallot(ivp, g.SignACCEPT(fact, signer), cpops)
	default:
		panic(fmt.Sprintf("unknown ballot shape %q", shape))
	}
}

func (g *G) ballotExpels(height base.Height) (LocalNode, []base.SuffrageExpelOperation, []util.Hash) {
	n := len(g.Nodes)
	k := 1 + g.R.Intn((n-1)/2)
	p := g.R.Perm(n)

	var targets, signers []LocalNode

	for i, j := range p {
		if i < k {
			targets = append(targets, g.Nodes[j])
		} else {
			signers = append(signers, g.Nodes[j])
		}
	}

	ops, facts := g.Expels(height, targets, signers)

	return signers[0], ops, facts
}

func (g *G) nonExpelled(expels []base.SuffrageExpelOperation) LocalNode {
	for i := range g.Nodes {
		var found bool

		for j := range expels {
			if expels[j].ExpelFact().Node().Equal(g.Nodes[i].Addr) {
				found = true
			}
		}

		if !found {
			return g.Nodes[i]
		}
	}

	panic("every node expelled")
}
