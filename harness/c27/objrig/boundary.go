package objrig

import (
	"fmt"
	"math"
	"time"

	"github.com/spikeekips/mitum/base"
	"github.com/spikeekips/mitum/isaac"
)

// Boundary-value generation. Every numeric draw of the generators (heights,
// rounds, unsigned counts/limits, signed ints, durations, thresholds, times)
// passes through one of the b* hooks below with the ordinary (PRNG) value; a
// G with a Bound set replaces the draws of the bound's class - all of them
// (AllSites) or only the k-th one - by the boundary value. The PRNG is
// consumed exactly as without a bound, so a G without a bound behaves as it
// always did.

// Numeric field classes.
const (
	ClassHeight    = "height"    // base.Height (int64): points, manifest/state heights, start/end/deadline, lifespans
	ClassRound     = "round"     // base.Round (uint64)
	ClassCount     = "count"     // unsigned counts and limits (uint64)
	ClassInt       = "int"       // signed non-height integers (int/int64): offsets, cache sizes
	ClassDuration  = "duration"  // time.Duration
	ClassThreshold = "threshold" // base.Threshold (float64, one decimal place in the encoding)
	ClassTime      = "time"      // time.Time
)

var Classes = []string{ClassHeight, ClassRound, ClassCount, ClassInt, ClassDuration, ClassThreshold, ClassTime}

const (
	AllSites  = -1 // every draw of the class gets the boundary value
	CountOnly = -2 // no draw is replaced; draws of every class are counted
)

// BoundValue is one boundary value of a class.
type BoundValue struct {
	Label  string // "2^53+1"
	Bucket string // kind of boundary, used in signatures: ">2^53"
	I      int64
	U      uint64
	F      float64
	T      time.Time
}

// Bound is the boundary override of one generator run.
type Bound struct {
	Class   string
	Value   BoundValue
	Site    int
	Draws   map[string]int // class -> draws seen
	Applied int            // draws replaced
}

func NewBound(class string, v BoundValue, site int) *Bound {
	return &Bound{Class: class, Value: v, Site: site, Draws: map[string]int{}}
}

// Refused is the panic value of a generator whose repository constructor or
// setter refused a boundary value (not an encodable object: no case).
type Refused struct{ Err error }

func (r Refused) Error() string { return "refused: " + r.Err.Error() }

func (g *G) refuse(err error) {
	panic(Refused{Err: err})
}

func (g *G) take(class string) bool {
	b := g.B
	if b == nil {
		return false
	}

	k := b.Draws[class]
	b.Draws[class] = k + 1

	if b.Site == CountOnly || b.Class != class {
		return false
	}

	if b.Site == AllSites || b.Site == k {
		b.Applied++

		return true
	}

	return false
}

func (g *G) bHeight(ordinary base.Height) base.Height {
	if g.take(ClassHeight) {
		return base.Height(g.B.Value.I)
	}

	return ordinary
}

func (g *G) bRound(ordinary base.Round) base.Round {
	if g.take(ClassRound) {
		return base.Round(g.B.Value.U)
	}

	return ordinary
}

func (g *G) bCount(ordinary uint64) uint64 {
	if g.take(ClassCount) {
		return g.B.Value.U
	}

	return ordinary
}

func (g *G) bInt(ordinary int64) int64 {
	if g.take(ClassInt) {
		return g.B.Value.I
	}

	return ordinary
}

func (g *G) bDuration(ordinary time.Duration) time.Duration {
	if g.take(ClassDuration) {
		return time.Duration(g.B.Value.I)
	}

	return ordinary
}

func (g *G) bThreshold(ordinary base.Threshold) base.Threshold {
	if g.take(ClassThreshold) {
		return base.Threshold(g.B.Value.F)
	}

	return ordinary
}

func (g *G) bTime(ordinary time.Time) time.Time {
	if g.take(ClassTime) {
		return g.B.Value.T
	}

	return ordinary
}

// Params is isaac.DefaultParams; with a bound, the numeric and duration
// fields of the bound's class are set through the exported setters (a setter
// that refuses the value makes the generator refuse).
func (g *G) Params() *isaac.Params {
	p := isaac.DefaultParams(g.NetworkID)
	if g.B == nil {
		return p
	}

	set := func(err error) {
		if err != nil {
			g.refuse(err)
		}
	}

	if v := g.bThreshold(p.Threshold()); v != p.Threshold() {
		set(p.SetThreshold(v))
	}

	if v := g.bDuration(p.IntervalBroadcastBallot()); v != p.IntervalBroadcastBallot() {
		set(p.SetIntervalBroadcastBallot(v))
	}

	if v := g.bDuration(p.WaitPreparingINITBallot()); v != p.WaitPreparingINITBallot() {
		set(p.SetWaitPreparingINITBallot(v))
	}

	if v := g.bDuration(p.BallotStuckWait()); v != p.BallotStuckWait() {
		set(p.SetBallotStuckWait(v))
	}

	if v := g.bDuration(p.BallotStuckResolveAfter()); v != p.BallotStuckResolveAfter() {
		set(p.SetBallotStuckResolveAfter(v))
	}

	if v := g.bDuration(p.MinWaitNextBlockINITBallot()); v != p.MinWaitNextBlockINITBallot() {
		set(p.SetMinWaitNextBlockINITBallot(v))
	}

	if v := g.bCount(p.MaxTryHandoverYBrokerSyncData()); v != p.MaxTryHandoverYBrokerSyncData() {
		set(p.SetMaxTryHandoverYBrokerSyncData(v))
	}

	if v := g.bInt(int64(p.StateCacheSize())); v != int64(p.StateCacheSize()) {
		set(p.SetStateCacheSize(int(v)))
	}

	if v := g.bInt(int64(p.OperationPoolCacheSize())); v != int64(p.OperationPoolCacheSize()) {
		set(p.SetOperationPoolCacheSize(int(v)))
	}

	return p
}

// ---- the boundary values of each class ----

func intBucket(v int64) string {
	switch {
	case v < 0:
		return "<0"
	case v == 0:
		return "=0"
	case v < 1<<31:
		return "<2^31"
	case v < 1<<32:
		return "<2^32"
	case v <= 1<<53:
		return "<=2^53"
	default:
		return ">2^53"
	}
}

func uintBucket(v uint64) string {
	if v > math.MaxInt64 {
		return ">=2^63"
	}

	return intBucket(int64(v))
}

type namedInt struct {
	label string
	v     int64
}

// the signed 64 bit edges: zero, one, around 2^31 and 2^32 (32 bit
// truncation), around 2^53 (float64 mantissa; 2^53+1 and 2^53+3 are not
// representable), 2^62, the maximum, and negative values.
var int64Edges = []namedInt{
	{"0", 0},
	{"1", 1},
	{"2^31-1", 1<<31 - 1},
	{"2^31+1", 1<<31 + 1},
	{"2^32-1", 1<<32 - 1},
	{"2^32+1", 1<<32 + 1},
	{"2^53-1", 1<<53 - 1},
	{"2^53", 1 << 53},
	{"2^53+1", 1<<53 + 1},
	{"2^53+3", 1<<53 + 3},
	{"2^62", 1 << 62},
	{"2^62+1", 1<<62 + 1},
	{"maxint64-1", math.MaxInt64 - 1},
	{"maxint64", math.MaxInt64},
	{"-1", -1},
	{"minint64", math.MinInt64},
	// only in the thorough tier
	{"2", 2},
	{"2^31", 1 << 31},
	{"2^32", 1 << 32},
	{"2^53+2", 1<<53 + 2},
	{"2^63-1025", math.MaxInt64 - 1024},
	{"-2^53-1", -(1<<53 + 1)},
}

const int64EdgesQuick = 16

type namedUint struct {
	label string
	v     uint64
}

var uint64Only = []namedUint{
	{"2^63", 1 << 63},
	{"2^63+1", 1<<63 + 1},
	{"maxuint64-1", math.MaxUint64 - 1},
	{"maxuint64", math.MaxUint64},
	// only in the thorough tier
	{"2^64-2049", math.MaxUint64 - 2048},
}

const uint64OnlyQuick = 4

type namedFloat struct {
	label, bucket string
	v             float64
}

// thresholds: the named ones, the ends of the valid range, values whose
// second decimal is at the rounding edge of the one-decimal encoding, values
// with many decimals, and values just outside the valid range.
var thresholdEdges = []namedFloat{
	{"51.0", "min", 51},
	{"67.0", "default", 67},
	{"100.0", "max", 100},
	{"66.95", "one-decimal-edge", 66.95},
	{"66.94", "one-decimal-edge", 66.94},
	{"67.05", "one-decimal-edge", 67.05},
	{"99.95", "one-decimal-edge", 99.95},
	{"99.9", "one-decimal", 99.9},
	{"51.05", "one-decimal-edge", 51.05},
	{"66.66666666666667", "many-decimals", 200.0 / 3},
	{"99.99999999999999", "many-decimals", math.Nextafter(100, 0)},
	{"51.00000000000001", "many-decimals", math.Nextafter(51, 100)},
	{"50.96", "below-min", 50.96},
	{"100.04", "above-max", 100.04},
	// only in the thorough tier
	{"66.9", "one-decimal", 66.9},
	{"67.1", "one-decimal", 67.1},
	{"75.25", "one-decimal-edge", 75.25},
	{"75.35", "one-decimal-edge", 75.35},
	{"67.04999999999999", "many-decimals", math.Nextafter(67.05, 0)},
	{"0", "zero", 0},
}

const thresholdEdgesQuick = 14

type namedTime struct {
	label, bucket string
	v             time.Time
}

// times: the epoch and its neighbours, the 32 bit second counters' ends, the
// end of the int64 nanosecond counter, the last RFC3339 year, no fraction
// and 9-digit fractions, another zone.
var timeEdges = []namedTime{
	{"epoch", "epoch", time.Unix(0, 0).UTC()},
	{"epoch+1ns", "epoch", time.Unix(0, 1).UTC()},
	{"epoch-1ns", "pre-epoch", time.Unix(0, -1).UTC()},
	{"epoch+1ms", "epoch", time.Unix(0, 1_000_000).UTC()},
	{"2^31-1s", "unix>=2^31", time.Unix(1<<31-1, 999_999_999).UTC()},
	{"2^31s", "unix>=2^31", time.Unix(1<<31, 0).UTC()},
	{"2^32s", "unix>=2^32", time.Unix(1<<32, 123_456_789).UTC()},
	{"max-unixnano", "unix>=2^32", time.Unix(0, math.MaxInt64).UTC()},
	{"year-9999", "far-future", time.Date(9999, 12, 31, 23, 59, 59, 999_999_999, time.UTC)},
	{"year-9999-no-fraction", "far-future", time.Date(9999, 1, 1, 0, 0, 0, 0, time.UTC)},
	{"ns=999999999", "ns-fraction", time.Unix(1_700_000_000, 999_999_999).UTC()},
	{"ns=000999999", "ns-fraction", time.Unix(1_700_000_000, 999_999).UTC()},
	{"ns=0", "no-fraction", time.Unix(1_700_000_000, 0).UTC()},
	{"zone+09:00", "zone", time.Unix(1_700_000_000, 120_000_000).In(time.FixedZone("", 9*3600))},
	// only in the thorough tier
	{"year-1", "zero", time.Time{}},
	{"year-1000", "pre-epoch", time.Date(1000, 2, 3, 4, 5, 6, 7_000_000, time.UTC)},
	{"ns=001000000", "ns-fraction", time.Unix(1_700_000_000, 1_000_000).UTC()},
	{"ns=123456789", "ns-fraction", time.Unix(1_700_000_000, 123_456_789).UTC()},
	{"zone-11:30", "zone", time.Unix(1<<31, 999_000_000).In(time.FixedZone("", -(11*3600 + 1800)))},
}

const timeEdgesQuick = 14

// BoundValues lists the boundary values of a class for the tier.
func BoundValues(class string, thorough bool) []BoundValue {
	var vs []BoundValue

	ints := int64Edges
	uints := uint64Only
	ths := thresholdEdges
	ts := timeEdges

	if !thorough {
		ints = ints[:int64EdgesQuick]
		uints = uints[:uint64OnlyQuick]
		ths = ths[:thresholdEdgesQuick]
		ts = ts[:timeEdgesQuick]
	}

	switch class {
	case ClassHeight, ClassInt, ClassDuration:
		for _, e := range ints {
			vs = append(vs, BoundValue{Label: e.label, Bucket: intBucket(e.v), I: e.v})
		}

		if class == ClassDuration { // unit edges of the readable encoding ("1.000000001s", "999.999µs")
			for _, e := range []namedInt{
				{"1s+1ns", int64(time.Second) + 1},
				{"1ms-1ns", int64(time.Millisecond) - 1},
				{"1h-1ns", int64(time.Hour) - 1},
			} {
				vs = append(vs, BoundValue{Label: e.label, Bucket: "unit-edge", I: e.v})
			}
		}
	case ClassRound, ClassCount:
		for _, e := range ints {
			if e.v < 0 {
				continue
			}

			vs = append(vs, BoundValue{Label: e.label, Bucket: uintBucket(uint64(e.v)), U: uint64(e.v)})
		}

		for _, e := range uints {
			vs = append(vs, BoundValue{Label: e.label, Bucket: uintBucket(e.v), U: e.v})
		}
	case ClassThreshold:
		for _, e := range ths {
			vs = append(vs, BoundValue{Label: e.label, Bucket: e.bucket, F: e.v})
		}
	case ClassTime:
		for _, e := range ts {
			vs = append(vs, BoundValue{Label: e.label, Bucket: e.bucket, T: e.v})
		}
	default:
		panic(fmt.Sprintf("unknown class %q", class))
	}

	return vs
}
