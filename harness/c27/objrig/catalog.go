package objrig

import (
	"errors"
	"net"
	"net/url"

	"github.com/spikeekips/mitum/base"
	"github.com/spikeekips/mitum/isaac"
	isaacnetwork "github.com/spikeekips/mitum/isaac/network"
	isaacstates "github.com/spikeekips/mitum/isaac/states"
	"github.com/spikeekips/mitum/launch"
	"github.com/spikeekips/mitum/network/quicmemberlist"
	"github.com/spikeekips/mitum/network/quicstream"
	quicstreamheader "github.com/spikeekips/mitum/network/quicstream/header"
	"github.com/spikeekips/mitum/util"
	"github.com/spikeekips/mitum/util/fixedtree"
	"github.com/spikeekips/mitum/util/hint"
)

// Spec is one generator of the catalog.
type Spec struct {
	Name  string // generator name (unique)
	Group string // ballot-fact, sign-fact, ballot, voteproof, operation, proposal, state, block, header, misc
	// Hint is set only for objects that do not carry their hint in the
	// encoding (tree nodes); they are decoded with DecodeWithHint.
	Hint hint.Hint
	// FixedTypeSize > 0: the object encodes to a JSON string "<body><type>"
	// (keys, addresses) and is decoded with DecodeWithFixedHintType.
	FixedTypeSize int
	// NilIsValidArg: IsValid's argument is not a network id for this type
	// (it is an expected hint type); nil is passed.
	NilIsValidArg bool
	Gen           func(g *G) any
}

func (g *G) optErr() error {
	if g.R.Intn(2) == 0 {
		return nil
	}

	return errors.New("err-" + g.Str(1+g.R.Intn(20)))
}

func (g *G) uri() url.URL {
	return url.URL{Scheme: "https", Host: g.Str(5) + ".example.com:" + "4321", Path: "/" + g.Str(6) + "/" + g.Str(3) + ".json"}
}

func (g *G) blockItemType() base.BlockItemType {
	ts := []base.BlockItemType{
		base.BlockItemMap, base.BlockItemProposal, base.BlockItemOperations, base.BlockItemOperationsTree,
		base.BlockItemStates, base.BlockItemStatesTree, base.BlockItemVoteproofs,
	}

	return ts[g.R.Intn(len(ts))]
}

func (g *G) blockItemFile() isaac.BlockItemFile {
	cf := ""
	if g.R.Intn(2) == 0 {
		cf = "gz"
	}

	switch g.R.Intn(3) {
	case 0:
		return isaac.NewLocalFSBlockItemFile(g.Str(6)+".json", cf)
	case 1:
		return isaac.NewFileBlockItemFile(g.Str(4)+"/"+g.Str(6)+".ndjson", cf)
	default:
		return isaac.NewBlockItemFile(g.uri(), cf)
	}
}

// Catalog returns every generator. Objects are valid unless the name ends in
// "!wrong-network" (signed with another network id).
func Catalog() []Spec {
	var specs []Spec

	add := func(group, name string, f func(g *G) any) {
		specs = append(specs, Spec{Name: name, Group: group, Gen: f})
	}

	// ballot facts
	for _, k := range INITFactKinds {
		k := k
		add("ballot-fact", "fact:"+k, func(g *G) any { return g.RandomINITFact(k) })
	}

	for _, k := range ACCEPTFactKinds {
		k := k
		add("ballot-fact", "fact:"+k, func(g *G) any { return g.RandomACCEPTFact(k) })
	}

	// ballot sign facts
	for _, k := range INITFactKinds {
		k := k
		add("sign-fact", "signfact:"+k, func(g *G) any {
			return g.SignINIT(g.RandomINITFact(k), g.Nodes[g.R.Intn(len(g.Nodes))])
		})
	}

	for _, k := range ACCEPTFactKinds {
		k := k
		add("sign-fact", "signfact:"+k, func(g *G) any {
			return g.SignACCEPT(g.RandomACCEPTFact(k), g.Nodes[g.R.Intn(len(g.Nodes))])
		})
	}

	add("sign-fact", "signfact:init!wrong-network", func(g *G) any {
		return g.SignINITNet(g.RandomINITFact(KindINIT), g.Nodes[0], base.NetworkID("other-network"))
	})

	// voteproofs
	for _, k := range VoteproofKinds {
		k := k
		add("voteproof", "voteproof:init:"+k, func(g *G) any { return g.INITVoteproof(k) })
		add("voteproof", "voteproof:accept:"+k, func(g *G) any { return g.ACCEPTVoteproof(k) })
	}

	// ballots
	for _, s := range BallotShapes {
		s := s
		add("ballot", "ballot:"+s, func(g *G) any { return g.Ballot(s) })
	}

	// operations
	for _, k := range OperationKinds {
		k := k
		add("operation", "operation:"+k, func(g *G) any { return g.Operation(k) })
	}

	add("operation", "operation:suffrage-join!wrong-network", func(g *G) any {
		return g.OperationNet(OpJoin, base.NetworkID("other-network"))
	})

	add("operation-fact", "opfact:suffrage-expel", func(g *G) any { return g.ExpelOperation().Fact() })
	add("operation-fact", "opfact:suffrage-candidate", func(g *G) any { return g.Operation(OpCandidate).Fact() })
	add("operation-fact", "opfact:suffrage-join", func(g *G) any { return g.Operation(OpJoin).Fact() })
	add("operation-fact", "opfact:suffrage-disjoin", func(g *G) any { return g.Operation(OpDisjoin).Fact() })
	add("operation-fact", "opfact:network-policy", func(g *G) any { return g.Operation(OpNetworkPolicy).Fact() })
	add("operation-fact", "opfact:suffrage-genesis-join", func(g *G) any { return g.Operation(OpGenesisJoin).Fact() })
	add("operation-fact", "opfact:genesis-network-policy", func(g *G) any {
		return g.Operation(OpGenesisNetworkPolicy).Fact()
	})

	// proposals
	add("proposal", "proposal-fact", func(g *G) any { return g.ProposalFact(false) })
	add("proposal", "proposal-fact:genesis", func(g *G) any { return g.ProposalFact(true) })
	add("proposal", "proposal", func(g *G) any { return g.Proposal(false) })
	add("proposal", "proposal:genesis", func(g *G) any { return g.Proposal(true) })
	add("proposal", "proposal!wrong-network", func(g *G) any {
		return g.ProposalNet(false, base.NetworkID("other-network"))
	})

	// states and state values
	for _, k := range StateValueKinds {
		k := k
		add("state", "state:"+k, func(g *G) any { return g.State(k) })
	}

	add("state-value", "statevalue:suffrage-node", func(g *G) any { return g.SuffrageNodeStateValue() })
	add("state-value", "statevalue:suffrage-nodes", func(g *G) any { return g.SuffrageNodesStateValue() })
	add("state-value", "statevalue:suffrage-candidate", func(g *G) any { return g.SuffrageCandidateStateValue() })
	add("state-value", "statevalue:suffrage-candidates", func(g *G) any { return g.SuffrageCandidatesStateValue() })
	add("state-value", "statevalue:network-policy", func(g *G) any { return g.NetworkPolicyStateValue() })
	add("state-value", "network-policy", func(g *G) any { return g.NetworkPolicy() })
	add("state-value", "candidate-limiter-rule", func(g *G) any {
		return isaac.NewFixedSuffrageCandidateLimiterRule(g.bCount(uint64(g.R.Intn(100))))
	})

	// block
	add("block", "manifest", func(g *G) any { return g.Manifest() })
	add("block", "blockmap", func(g *G) any { return g.BlockMap() })
	add("block", "blockmap!wrong-network", func(g *G) any {
		return g.BlockMapWith(g.Manifest(), base.NetworkID("other-network"))
	})
	add("block", "suffrage-proof", func(g *G) any { return g.SuffrageProof() })
	add("block", "block-item-file", func(g *G) any { return g.blockItemFile() })
	add("block", "block-item-files", func(g *G) any {
		m := map[base.BlockItemType]base.BlockItemFile{
			base.BlockItemMap:        g.blockItemFile(),
			base.BlockItemProposal:   g.blockItemFile(),
			base.BlockItemVoteproofs: g.blockItemFile(),
		}
		for i := 0; i < 1+g.R.Intn(5); i++ {
			m[g.blockItemType()] = g.blockItemFile()
		}

		return isaac.NewBlockItemFiles(m)
	})

	specs = append(specs,
		Spec{Name: "tree-node:state", Group: "block", Hint: base.StateFixedtreeHint, Gen: func(g *G) any {
			return fixedtree.NewBaseNode(g.Hash().String()).SetHash(g.Hash())
		}},
		Spec{Name: "tree-node:operation", Group: "block", Hint: base.OperationFixedtreeHint, Gen: func(g *G) any {
			reason := ""
			if g.R.Intn(2) == 0 {
				reason = "reason " + g.Str(8)
			}

			var n base.OperationFixedtreeNode
			if g.R.Intn(2) == 0 {
				n = base.NewInStateOperationFixedtreeNode(g.Hash(), reason)
			} else {
				n = base.NewNotInStateOperationFixedtreeNode(g.Hash(), reason)
			}

			return n.SetHash(g.Hash())
		}},
	)

	// keys, address, node
	specs = append(specs,
		Spec{Name: "privatekey", Group: "misc", FixedTypeSize: base.PKKeyTypeSize, Gen: func(g *G) any { return g.Priv() }},
		Spec{Name: "publickey", Group: "misc", FixedTypeSize: base.PKKeyTypeSize, Gen: func(g *G) any { return g.Priv().Publickey() }},
		Spec{Name: "address", Group: "misc", FixedTypeSize: base.AddressTypeSize, Gen: func(g *G) any { return g.Address() }},
	)
	add("misc", "node", func(g *G) any { return g.Node() })
	add("misc", "params", func(g *G) any { return g.Params() })
	specs = append(specs, Spec{Name: "operation-reason", Group: "misc", NilIsValidArg: true, Gen: func(g *G) any {
		return base.NewBaseOperationProcessReason("reason " + g.Str(9))
	}})

	// network request / response headers
	hdr := func(name string, f func(g *G) any) { add("header", "header:"+name, f) }

	hdr("operation", func(g *G) any {
		h := isaacnetwork.NewOperationRequestHeader(g.Hash())
		if g.R.Intn(2) == 0 {
			h.SetClientID("client-" + g.Str(5))
		}

		return h
	})
	hdr("send-operation", func(*G) any { return isaacnetwork.NewSendOperationRequestHeader() })
	hdr("request-proposal", func(g *G) any {
		return isaacnetwork.NewRequestProposalRequestHeader(g.Point(), g.Address(), g.Hash())
	})
	hdr("proposal", func(g *G) any { return isaacnetwork.NewProposalRequestHeader(g.Hash()) })
	hdr("last-suffrage-proof", func(g *G) any {
		if g.R.Intn(3) == 0 {
			return isaacnetwork.NewLastSuffrageProofRequestHeader(nil)
		}

		return isaacnetwork.NewLastSuffrageProofRequestHeader(g.Hash())
	})
	hdr("suffrage-proof", func(g *G) any { return isaacnetwork.NewSuffrageProofRequestHeader(g.Height()) })
	hdr("last-blockmap", func(g *G) any {
		if g.R.Intn(3) == 0 {
			return isaacnetwork.NewLastBlockMapRequestHeader(nil)
		}

		return isaacnetwork.NewLastBlockMapRequestHeader(g.Hash())
	})
	hdr("blockmap", func(g *G) any { return isaacnetwork.NewBlockMapRequestHeader(g.Height()) })
	hdr("block-item", func(g *G) any { return isaacnetwork.NewBlockItemRequestHeader(g.Height(), g.blockItemType()) })
	hdr("block-item-files", func(g *G) any {
		return isaacnetwork.NewBlockItemFilesRequestHeader(g.Height(), g.Priv().Publickey())
	})
	hdr("node-challenge", func(g *G) any {
		if g.R.Intn(2) == 0 {
			return isaacnetwork.NewNodeChallengeRequestHeader(g.Bytes(1+g.R.Intn(40)), nil, nil)
		}

		n := g.LocalNode()

		return isaacnetwork.NewNodeChallengeRequestHeader(g.Bytes(1+g.R.Intn(40)), n.Addr, n.Priv.Publickey())
	})
	hdr("suffrage-node-conninfo", func(*G) any { return isaacnetwork.NewSuffrageNodeConnInfoRequestHeader() })
	hdr("sync-source-conninfo", func(*G) any { return isaacnetwork.NewSyncSourceConnInfoRequestHeader() })
	hdr("state", func(g *G) any {
		if g.R.Intn(2) == 0 {
			return isaacnetwork.NewStateRequestHeader("key-"+g.Str(6), nil)
		}

		return isaacnetwork.NewStateRequestHeader("key-"+g.Str(6), g.Hash())
	})
	hdr("exists-instate-operation", func(g *G) any { return isaacnetwork.NewExistsInStateOperationRequestHeader(g.Hash()) })
	hdr("node-info", func(*G) any { return isaacnetwork.NewNodeInfoRequestHeader() })
	hdr("send-ballots", func(*G) any { return isaacnetwork.NewSendBallotsHeader() })
	hdr("set-allow-consensus", func(g *G) any { return isaacnetwork.NewSetAllowConsensusHeader(g.R.Intn(2) == 0) })
	hdr("stream-operations", func(g *G) any {
		if g.R.Intn(3) == 0 {
			return isaacnetwork.NewStreamOperationsHeader(nil)
		}

		return isaacnetwork.NewStreamOperationsHeader(g.Bytes(1 + g.R.Intn(30)))
	})
	hdr("start-handover", func(g *G) any {
		return isaacnetwork.NewStartHandoverHeader(g.ConnInfo(), g.Address(), g.Priv().Publickey())
	})
	hdr("check-handover", func(g *G) any {
		return isaacnetwork.NewCheckHandoverHeader(g.ConnInfo(), g.Address(), g.Priv().Publickey())
	})
	hdr("ask-handover", func(g *G) any { return isaacnetwork.NewAskHandoverHeader(g.ConnInfo(), g.Address()) })
	hdr("ask-handover-response", func(g *G) any {
		err := g.optErr()

		return isaacnetwork.NewAskHandoverResponseHeader(err == nil, err, "id-"+g.Str(8))
	})
	hdr("cancel-handover", func(g *G) any { return isaacnetwork.NewCancelHandoverHeader(g.Priv().Publickey()) })
	hdr("handover-message", func(*G) any { return isaacnetwork.NewHandoverMessageHeader() })
	hdr("check-handover-x", func(g *G) any { return isaacnetwork.NewCheckHandoverXHeader(g.Address()) })
	hdr("block-item-response", func(g *G) any {
		err := g.optErr()

		return isaacnetwork.NewBlockItemResponseHeader(err == nil, err, g.uri(), "gz")
	})
	hdr("default-response", func(g *G) any {
		err := g.optErr()

		return quicstreamheader.NewDefaultResponseHeader(err == nil && g.R.Intn(2) == 0, err)
	})
	hdr("event-logging", func(g *G) any {
		return launch.NewEventLoggingHeader(
			launch.AllEventLogger, [2]int64{g.bInt(1000 + g.R.Int63n(1000)), g.bInt(g.R.Int63n(1000))}, g.bCount(uint64(1+g.R.Intn(100))),
			g.R.Intn(2) == 0, g.Priv().Publickey())
	})
	hdr("read-node", func(g *G) any { return launch.NewReadNodeHeader("key."+g.Str(5), g.Priv().Publickey()) })
	hdr("write-node", func(g *G) any { return launch.NewWriteNodeHeader("key."+g.Str(5), g.Priv().Publickey()) })
	hdr("callback-broadcast", func(g *G) any {
		return quicmemberlist.NewCallbackBroadcastMessageHeader("id-"+g.Str(8), quicstream.HashPrefix("cb"))
	})
	hdr("ensure-broadcast", func(g *G) any {
		n := g.Nodes[g.R.Intn(len(g.Nodes))]

		h, err := quicmemberlist.NewEnsureBroadcastMessageHeader(
			"id-"+g.Str(8), quicstream.HashPrefix("eb"), n.Addr, n.Priv, g.NetworkID)
		if err != nil {
			panic(err)
		}

		return h
	})

	// messages
	add("message", "missing-ballots-request", func(g *G) any {
		nodes := make([]base.Address, 1+g.R.Intn(4))
		for i := range nodes {
			nodes[i] = g.Address()
		}

		stage := base.StageINIT
		if g.R.Intn(2) == 0 {
			stage = base.StageACCEPT
		}

		return isaacstates.NewMissingBallotsRequestsMessage(base.NewStagePoint(g.Point(), stage), nodes, g.ConnInfo())
	})
	add("message", "handover-cancel", func(g *G) any {
		return isaacstates.NewHandoverMessageCancel("id-"+g.Str(8), g.optErr())
	})
	add("message", "conninfo-broadcast", func(g *G) any {
		return quicmemberlist.NewConnInfoBroadcastMessage("id-"+g.Str(8), g.ConnInfo())
	})
	specs = append(specs, Spec{Name: "member", Group: "message", Gen: func(g *G) any {
		addr := &net.UDPAddr{IP: net.IPv4(10, byte(g.R.Intn(256)), byte(g.R.Intn(256)), byte(1+g.R.Intn(250))), Port: 2000 + g.R.Intn(5000)}
		n := g.LocalNode()

		m, err := quicmemberlist.NewMember("member-"+g.Str(6), addr, n.Addr, n.Priv.Publickey(), addr.String(), g.R.Intn(2) == 0)
		if err != nil {
			panic(err)
		}

		return m
	}})
	add("message", "default-node-info", func(g *G) any {
		return launch.NewDefaultNodeInfo("id-"+g.Str(10), g.NetworkID, util.MustNewVersion("v1.2.3"))
	})
	add("message", "node-info", func(g *G) any {
		u := isaacnetwork.NewNodeInfoUpdater(g.NetworkID, g.Nodes[0].Node(), util.MustNewVersion("v0.0.2"))
		_ = u.SetLastManifest(g.Manifest())
		_ = u.SetSuffrageHeight(g.Height())
		_ = u.SetNetworkPolicy(g.NetworkPolicy())
		_ = u.SetLocalParams(g.Params())
		_ = u.SetConnInfo(g.ConnInfo().String())

		nodes := make([]base.Node, len(g.Nodes))
		for i := range nodes {
			nodes[i] = g.Nodes[i].Node()
		}

		_ = u.SetConsensusNodes(nodes)
		_ = u.SetLastVote(base.NewStagePoint(g.Point(), base.StageACCEPT), base.VoteResultMajority)
		_ = u.SetConsensusState(isaacstates.StateConsensus)

		return u.NodeInfo()
	})

	return specs
}
