package objrig

import (
	"bytes"
	"encoding/json"
	"fmt"
	"sort"
	"strings"
)

// ParseTree parses JSON into map[string]any / []any / json.Number / string / bool / nil.
func ParseTree(b []byte) (any, error) {
	d := json.NewDecoder(bytes.NewReader(b))
	d.UseNumber()

	var v any
	if err := d.Decode(&v); err != nil {
		return nil, err
	}

	return v, nil
}

// Walk calls f for every node; path elements are keys or "*" for list items.
func Walk(v any, path []string, f func(path []string, v any)) {
	f(path, v)

	switch t := v.(type) {
	case map[string]any:
		keys := make([]string, 0, len(t))
		for k := range t {
			keys = append(keys, k)
		}

		sort.Strings(keys)

		for _, k := range keys {
			Walk(t[k], append(append([]string{}, path...), k), f)
		}
	case []any:
		for i := range t {
			Walk(t[i], append(append([]string{}, path...), "*"), f)
		}
	}
}

// Hints collects the values of every "_hint" key.
func Hints(v any) []string {
	var hs []string

	Walk(v, nil, func(path []string, v any) {
		if len(path) > 0 && path[len(path)-1] == "_hint" {
			if s, ok := v.(string); ok {
				hs = append(hs, s)
			}
		}
	})

	return hs
}

// Shape is a structural fingerprint: the set of normalized paths with the
// kind of each leaf and the length of each list.
func Shape(v any) string {
	set := map[string]struct{}{}

	Walk(v, nil, func(path []string, v any) {
		p := strings.Join(path, ".")

		switch t := v.(type) {
		case []any:
			set[fmt.Sprintf("%s[%d]", p, len(t))] = struct{}{}
		case map[string]any:
		case nil:
			set[p+"=null"] = struct{}{}
		case string:
			if len(path) > 0 && path[len(path)-1] == "_hint" {
				set[p+"="+t] = struct{}{}
			} else if t == "" {
				set[p+"=''"] = struct{}{}
			} else {
				set[p] = struct{}{}
			}
		default:
			set[p] = struct{}{}
		}
	})

	keys := make([]string, 0, len(set))
	for k := range set {
		keys = append(keys, k)
	}

	sort.Strings(keys)

	return strings.Join(keys, ";")
}

// FirstDiff returns the normalized path of the first difference of two trees ("" if equal).
func FirstDiff(a, b any, path []string) string {
	p := func() string {
		if len(path) == 0 {
			return "."
		}

		return strings.Join(path, ".")
	}

	switch ta := a.(type) {
	case map[string]any:
		tb, ok := b.(map[string]any)
		if !ok {
			return p()
		}

		keys := map[string]struct{}{}
		for k := range ta {
			keys[k] = struct{}{}
		}

		for k := range tb {
			keys[k] = struct{}{}
		}

		sorted := make([]string, 0, len(keys))
		for k := range keys {
			sorted = append(sorted, k)
		}

		sort.Strings(sorted)

		for _, k := range sorted {
			va, oka := ta[k]
			vb, okb := tb[k]

			if oka != okb {
				return strings.Join(append(append([]string{}, path...), k), ".") + "(key-presence)"
			}

			if d := FirstDiff(va, vb, append(append([]string{}, path...), k)); d != "" {
				return d
			}
		}

		return ""
	case []any:
		tb, ok := b.([]any)
		if !ok || len(ta) != len(tb) {
			return p() + "(list)"
		}

		for i := range ta {
			if d := FirstDiff(ta[i], tb[i], append(append([]string{}, path...), "*")); d != "" {
				return d
			}
		}

		return ""
	default:
		if fmt.Sprintf("%T:%v", a, a) != fmt.Sprintf("%T:%v", b, b) {
			return p()
		}

		return ""
	}
}
