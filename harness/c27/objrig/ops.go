package objrig

import (
	"fmt"
	"time"

	"github.com/spikeekips/mitum/base"
	"github.com/spikeekips/mitum/isaac"
	isaacblock "github.com/spikeekips/mitum/isaac/block"
	isaacoperation "github.com/spikeekips/mitum/isaac/operation"
	"github.com/spikeekips/mitum/util"
	"github.com/spikeekips/mitum/util/fixedtree"
)

// ---- operations ----

const (
	OpExpel                = "suffrage-expel"
	OpCandidate            = "suffrage-candidate"
	OpJoin                 = "suffrage-join"
	OpDisjoin              = "suffrage-disjoin"
	OpNetworkPolicy        = "network-policy"
	OpGenesisJoin          = "suffrage-genesis-join"
	OpGenesisNetworkPolicy = "genesis-network-policy"
)

var OperationKinds = []string{
	OpExpel, OpCandidate, OpJoin, OpDisjoin, OpNetworkPolicy, OpGenesisJoin, OpGenesisNetworkPolicy,
}

func (g *G) NetworkPolicy() isaac.NetworkPolicy {
	p := isaac.DefaultNetworkPolicy()
	if g.R.Intn(4) == 0 {
		return p
	}

	p.SetMaxOperationsInProposal(g.bCount(uint64(1 + g.R.Intn(1000))))
	p.SetSuffrageCandidateLifespan(g.bHeight(base.Height(1 + g.R.Intn(1<<20))))
	p.SetSuffrageCandidateLimiterRule(isaac.NewFixedSuffrageCandidateLimiterRule(g.bCount(uint64(1 + g.R.Intn(9)))))
	p.SetMaxSuffrageSize(g.bCount(uint64(1 + g.R.Intn(99))))
	p.SetSuffrageExpelLifespan(g.bHeight(base.Height(1 + g.R.Intn(1000))))
	p.SetEmptyProposalNoBlock(g.R.Intn(2) == 0)

	return p
}

// someSigners: 1..n distinct suffrage nodes.
func (g *G) someSigners() []LocalNode {
	k := 1 + g.R.Intn(len(g.Nodes))
	idx := g.Pick(len(g.Nodes), k)
	out := make([]LocalNode, k)

	for i := range idx {
		out[i] = g.Nodes[idx[i]]
	}

	return out
}

// Operation builds one signed, valid operation of the given kind.
func (g *G) Operation(kind string) base.Operation {
	return g.OperationNet(kind, g.NetworkID)
}

// OperationNet signs with the given network id (facts whose token is the network
// id still use g.NetworkID).
func (g *G) OperationNet(kind string, networkID base.NetworkID) base.Operation {
	must := func(err error) {
		if err != nil {
			panic(err)
		}
	}

	switch kind {
	case OpExpel:
		if !networkID.Equal(g.NetworkID) {
			old := g.NetworkID
			g.NetworkID = networkID
			defer func() { g.NetworkID = old }()
		}

		return g.ExpelOperation()
	case OpCandidate:
		cand := g.LocalNode()
		op := isaacoperation.NewSuffrageCandidate(
			isaacoperation.NewSuffrageCandidateFact(g.Token(), cand.Addr, cand.Priv.Publickey()))
		must(op.NodeSign(cand.Priv, networkID, cand.Addr))

		if g.R.Intn(2) == 0 {
			for _, s := range g.someSigners() {
				must(op.NodeSign(s.Priv, networkID, s.Addr))
			}
		}

		return op
	case OpJoin:
		cand := g.LocalNode()
		op := isaacoperation.NewSuffrageJoin(isaacoperation.NewSuffrageJoinFact(g.Token(), cand.Addr, g.Height()))
		must(op.NodeSign(cand.Priv, networkID, cand.Addr))

		for _, s := range g.someSigners() {
			must(op.NodeSign(s.Priv, networkID, s.Addr))
		}

		return op
	case OpDisjoin:
		n := g.Nodes[g.R.Intn(len(g.Nodes))]
		op := isaacoperation.NewSuffrageDisjoin(isaacoperation.NewSuffrageDisjoinFact(g.Token(), n.Addr, g.Height()))
		must(op.NodeSign(n.Priv, networkID, n.Addr))

		return op
	case OpNetworkPolicy:
		op := isaacoperation.NewNetworkPolicy(isaacoperation.NewNetworkPolicyFact(g.Token(), g.NetworkPolicy()))
		for _, s := range g.someSigners() {
			must(op.NodeSign(s.Priv, networkID, s.Addr))
		}

		return op
	case OpGenesisJoin:
		nodes := make([]base.Node, 1+g.R.Intn(len(g.Nodes)))
		for i := range nodes {
			nodes[i] = g.Nodes[i].Node()
		}

		op := isaacoperation.NewSuffrageGenesisJoin(isaacoperation.NewSuffrageGenesisJoinFact(nodes, g.NetworkID))
		must(op.Sign(g.Nodes[0].Priv, networkID))

		return op
	case OpGenesisNetworkPolicy:
		op := isaacoperation.NewGenesisNetworkPolicy(isaacoperation.NewGenesisNetworkPolicyFact(g.NetworkPolicy()))
		must(op.Sign(g.Nodes[0].Priv, networkID))

		return op
	default:
		panic(fmt.Sprintf("unknown operation kind %q", kind))
	}
}

// ---- proposals ----

func (g *G) ProposalFact(genesis bool) isaac.ProposalFact {
	ops := make([][2]util.Hash, g.R.Intn(5))
	for i := range ops {
		ops[i] = [2]util.Hash{g.Hash(), g.Hash()}
	}

	if genesis {
		return isaac.NewProposalFact(base.GenesisPoint, g.Nodes[0].Addr, nil, ops)
	}

	return isaac.NewProposalFact(g.Point(), g.Nodes[g.R.Intn(len(g.Nodes))].Addr, g.Hash(), ops)
}

func (g *G) Proposal(genesis bool) isaac.ProposalSignFact {
	return g.ProposalNet(genesis, g.NetworkID)
}

func (g *G) ProposalNet(genesis bool, networkID base.NetworkID) isaac.ProposalSignFact {
	fact := g.ProposalFact(genesis)
	sf := isaac.NewProposalSignFact(fact)

	var signer LocalNode

	for i := range g.Nodes {
		if g.Nodes[i].Addr.Equal(fact.Proposer()) {
			signer = g.Nodes[i]
		}
	}

	if err := sf.Sign(signer.Priv, networkID); err != nil {
		panic(err)
	}

	return sf
}

// ---- states ----

const (
	SVSuffrageNodes      = "suffrage-nodes"
	SVSuffrageCandidates = "suffrage-candidates"
	SVNetworkPolicy      = "network-policy"
)

var StateValueKinds = []string{SVSuffrageNodes, SVSuffrageCandidates, SVNetworkPolicy}

func (g *G) SuffrageNodeStateValue() isaac.SuffrageNodeStateValue {
	return isaac.NewSuffrageNodeStateValue(g.Node(), g.Height())
}

func (g *G) SuffrageNodesStateValue() isaac.SuffrageNodesStateValue {
	nodes := make([]base.SuffrageNodeStateValue, len(g.Nodes))
	for i := range nodes {
		nodes[i] = isaac.NewSuffrageNodeStateValue(g.Nodes[i].Node(), g.Height())
	}

	return isaac.NewSuffrageNodesStateValue(g.Height(), nodes)
}

func (g *G) SuffrageCandidateStateValue() isaac.SuffrageCandidateStateValue {
	start := g.Height()

	return isaac.NewSuffrageCandidateStateValue(g.Node(), start, g.bHeight(start+base.Height(1+g.R.Intn(1000))))
}

func (g *G) SuffrageCandidatesStateValue() isaac.SuffrageCandidatesStateValue {
	nodes := make([]base.SuffrageCandidateStateValue, 1+g.R.Intn(4))
	for i := range nodes {
		nodes[i] = g.SuffrageCandidateStateValue()
	}

	return isaac.NewSuffrageCandidatesStateValue(nodes)
}

func (g *G) NetworkPolicyStateValue() isaac.NetworkPolicyStateValue {
	return isaac.NewNetworkPolicyStateValue(g.NetworkPolicy())
}

func (g *G) State(kind string) base.BaseState {
	return g.StateAt(kind, g.Height(), g.R.Intn(3) == 0)
}

func (g *G) StateAt(kind string, height base.Height, noprevious bool) base.BaseState {
	var key string

	var v base.StateValue

	switch kind {
	case SVSuffrageNodes:
		key, v = isaac.SuffrageStateKey, g.SuffrageNodesStateValue()
	case SVSuffrageCandidates:
		key, v = isaac.SuffrageCandidateStateKey, g.SuffrageCandidatesStateValue()
	case SVNetworkPolicy:
		key, v = isaac.NetworkPolicyStateKey, g.NetworkPolicyStateValue()
	default:
		panic(fmt.Sprintf("unknown state value kind %q", kind))
	}

	var previous util.Hash
	if !noprevious {
		previous = g.Hash()
	}

	ops := make([]util.Hash, 1+g.R.Intn(4))
	for i := range ops {
		ops[i] = g.Hash()
	}

	return base.NewBaseState(height, key, v, previous, ops)
}

// ---- manifest, block map, suffrage proof ----

func (g *G) Time() time.Time {
	// millisecond resolution, UTC: what the protocol's normalized time keeps
	// one in eight has no fractional second at all (the encoding of such a
	// time was unparseable before fix 25478cc)
	ms := int64(g.R.Intn(1000))
	if g.R.Intn(8) == 0 {
		ms = 0
	}

	return g.bTime(time.Unix(1_600_000_000+g.R.Int63n(200_000_000), ms*1_000_000).UTC())
}

func (g *G) Manifest() isaac.Manifest {
	return g.ManifestAt(g.Height(), nil)
}

func (g *G) ManifestAt(height base.Height, suffrage util.Hash) isaac.Manifest {
	opt := func() util.Hash {
		if g.R.Intn(3) == 0 {
			return nil
		}

		return g.Hash()
	}

	if suffrage == nil {
		suffrage = opt()
	}

	return isaac.NewManifest(height, g.Hash(), g.Hash(), opt(), opt(), suffrage, g.Time())
}

func (g *G) BlockMap() isaacblock.BlockMap {
	return g.BlockMapWith(g.Manifest(), g.NetworkID)
}

func (g *G) BlockMapWith(manifest base.Manifest, networkID base.NetworkID) isaacblock.BlockMap {
	m := isaacblock.NewBlockMap()

	for _, t := range []base.BlockItemType{
		base.BlockItemProposal,
		base.BlockItemOperations,
		base.BlockItemOperationsTree,
		base.BlockItemStates,
		base.BlockItemStatesTree,
		base.BlockItemVoteproofs,
	} {
		switch t {
		case base.BlockItemOperations, base.BlockItemStates:
			if g.R.Intn(3) == 0 {
				continue
			}
		}

		if err := m.SetItem(isaacblock.NewBlockMapItem(t, g.Str(8+g.R.Intn(40)))); err != nil {
			panic(err)
		}
	}

	m.SetManifest(manifest)

	signer := g.Nodes[g.R.Intn(len(g.Nodes))]
	if err := m.Sign(signer.Addr, signer.Priv, networkID); err != nil {
		panic(err)
	}

	return m
}

func (g *G) SuffrageProof() isaacblock.SuffrageProof {
	height := g.Height()

	st := g.StateAt(SVSuffrageNodes, height, false)
	m := g.BlockMapWith(g.ManifestAt(height, nil), g.NetworkID)

	n := 1 + g.R.Intn(8)
	at := g.R.Intn(n)

	w, err := fixedtree.NewWriter(base.StateFixedtreeHint, uint64(n))
	if err != nil {
		panic(err)
	}

	for i := 0; i < n; i++ {
		key := g.Hash().String()
		if i == at {
			key = st.Hash().String()
		}

		if err := w.Add(uint64(i), fixedtree.NewBaseNode(key)); err != nil {
			panic(err)
		}
	}

	if err := w.Write(func(uint64, fixedtree.Node) error { return nil }); err != nil {
		panic(err)
	}

	tr, err := w.Tree()
	if err != nil {
		panic(err)
	}

	proof, err := tr.Proof(st.Hash().String())
	if err != nil {
		panic(err)
	}

	return isaacblock.NewSuffrageProof(m, st, proof)
}
