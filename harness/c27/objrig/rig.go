// Package objrig builds real mitum protocol objects (through the repository's
// exported constructors) from a *rand.Rand, and the JSON encoder loaded with
// every hinter of launch.Hinters. Shared by the C27 and C28 monitors.
//
// Everything random comes from the given PRNG. What the constructors
// themselves draw from the wall clock / uuid (signing time, proposedAt,
// voteproof id, empty-proposal "r") is not under the rig's control.
package objrig

import (
	"fmt"
	"math/rand"
	"net"
	"sort"

	"github.com/spikeekips/mitum/base"
	"github.com/spikeekips/mitum/isaac"
	"github.com/spikeekips/mitum/launch"
	"github.com/spikeekips/mitum/network/quicstream"
	"github.com/spikeekips/mitum/util"
	"github.com/spikeekips/mitum/util/encoder"
	jsonenc "github.com/spikeekips/mitum/util/encoder/json"
	"github.com/spikeekips/mitum/util/hint"
	"github.com/spikeekips/mitum/util/valuehash"
)

// NewEncoder returns the repository's JSON encoder with launch.Hinters and
// launch.SupportedProposalOperationFactHinters added (what launch.LoadHinters does).
func NewEncoder() (*jsonenc.Encoder, error) {
	enc := jsonenc.NewEncoder()

	for i := range launch.Hinters {
		if err := enc.Add(launch.Hinters[i]); err != nil {
			return nil, fmt.Errorf("add %s: %w", launch.Hinters[i].Hint, err)
		}
	}

	for i := range launch.SupportedProposalOperationFactHinters {
		if err := enc.Add(launch.SupportedProposalOperationFactHinters[i]); err != nil {
			return nil, fmt.Errorf("add %s: %w", launch.SupportedProposalOperationFactHinters[i].Hint, err)
		}
	}

	return enc, nil
}

// Registered lists every registered hint (type string, sorted).
func Registered() []hint.Hint {
	var hs []hint.Hint
	for i := range launch.Hinters {
		hs = append(hs, launch.Hinters[i].Hint)
	}

	for i := range launch.SupportedProposalOperationFactHinters {
		hs = append(hs, launch.SupportedProposalOperationFactHinters[i].Hint)
	}

	sort.Slice(hs, func(i, j int) bool { return hs[i].String() < hs[j].String() })

	return hs
}

// FactHints is every registered hint whose instance is a base.Fact.
func FactHints() []hint.Hint {
	var hs []hint.Hint

	add := func(ds []encoder.DecodeDetail) {
		for i := range ds {
			if _, ok := ds[i].Instance.(base.Fact); ok {
				hs = append(hs, ds[i].Hint)
			}
		}
	}
	add(launch.Hinters)
	add(launch.SupportedProposalOperationFactHinters)

	sort.Slice(hs, func(i, j int) bool { return hs[i].String() < hs[j].String() })

	return hs
}

// LocalNode is a node with its private key.
type LocalNode struct {
	Priv base.Privatekey
	Addr base.Address
}

func (n LocalNode) Node() base.Node {
	return isaac.NewNode(n.Priv.Publickey(), n.Addr)
}

// G generates objects from one PRNG.
type G struct {
	R         *rand.Rand
	NetworkID base.NetworkID
	Nodes     []LocalNode // the suffrage of this generator
	// B, when set, replaces numeric draws of one field class by a boundary
	// value (see boundary.go); nil: ordinary generation.
	B *Bound
}

const alnum = "abcdefghijklmnopqrstuvwxyz0123456789"

// NewG makes a generator with a random network id and 3..6 suffrage nodes.
func NewG(r *rand.Rand) *G {
	g := &G{R: r}
	g.NetworkID = base.NetworkID([]byte("net-" + g.Str(4+r.Intn(12))))

	n := 3 + r.Intn(4)
	g.Nodes = make([]LocalNode, n)

	for i := range g.Nodes {
		g.Nodes[i] = g.LocalNode()
	}

	return g
}

func (g *G) Str(n int) string {
	b := make([]byte, n)
	for i := range b {
		b[i] = alnum[g.R.Intn(len(alnum))]
	}

	return string(b)
}

func (g *G) Bytes(n int) []byte {
	b := make([]byte, n)
	_, _ = g.R.Read(b)

	return b
}

func (g *G) Hash() util.Hash {
	return valuehash.NewSHA256(g.Bytes(32))
}

func (g *G) Priv() base.Privatekey {
	k, err := base.NewMPrivatekeyFromSeed(g.Str(base.PrivatekeyMinSeedSize + 4))
	if err != nil {
		panic(err)
	}

	return k
}

func (g *G) Address() base.Address {
	return base.NewStringAddress("n" + g.Str(3+g.R.Intn(20)))
}

func (g *G) LocalNode() LocalNode {
	return LocalNode{Priv: g.Priv(), Addr: g.Address()}
}

func (g *G) Node() base.Node {
	return g.LocalNode().Node()
}

// Height is a non-genesis height (>= 2 so that height-1 is still above genesis).
func (g *G) Height() base.Height {
	return g.bHeight(g.ordinaryHeight())
}

func (g *G) ordinaryHeight() base.Height {
	switch g.R.Intn(4) {
	case 0:
		return base.Height(2 + g.R.Intn(5))
	case 1:
		return base.Height(2 + g.R.Int63n(1<<40))
	default:
		return base.Height(2 + g.R.Intn(100000))
	}
}

func (g *G) Round() base.Round {
	return g.bRound(g.ordinaryRound())
}

func (g *G) ordinaryRound() base.Round {
	if g.R.Intn(2) == 0 {
		return 0
	}

	return base.Round(g.R.Intn(50))
}

func (g *G) Point() base.Point {
	return base.NewPoint(g.Height(), g.Round())
}

func (g *G) Threshold() base.Threshold {
	return g.bThreshold(g.ordinaryThreshold())
}

func (g *G) ordinaryThreshold() base.Threshold {
	switch g.R.Intn(3) {
	case 0:
		return base.MaxThreshold
	case 1:
		return base.DefaultThreshold
	default:
		return base.Threshold(float64(510+g.R.Intn(491)) / 10)
	}
}

func (g *G) Token() base.Token {
	return base.Token(g.Bytes(1 + g.R.Intn(40)))
}

func (g *G) ConnInfo() quicstream.ConnInfo {
	addr := &net.UDPAddr{
		IP:   net.IPv4(byte(1+g.R.Intn(222)), byte(g.R.Intn(256)), byte(g.R.Intn(256)), byte(1+g.R.Intn(254))),
		Port: 1024 + g.R.Intn(60000),
	}

	return quicstream.MustConnInfo(addr, g.R.Intn(2) == 0)
}

// Pick returns k distinct indices of [0,n).
func (g *G) Pick(n, k int) []int {
	p := g.R.Perm(n)

	return p[:k]
}
