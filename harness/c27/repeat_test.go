package c27

import (
	"bytes"
	"encoding/json"
	"fmt"
	"reflect"
	"sync"

	"github.com/spikeekips/mitum/isaac"
	"github.com/spikeekips/mitum/util"
	jsonenc "github.com/spikeekips/mitum/util/encoder/json"
	"github.com/spikeekips/mitum/util/hint"
	"verifharness/c27/objrig"
)

// encoders for the repeated-decode phase: one per concurrent worker, so that
// the order of decodes an encoder sees (its hint lookup cache is part of what
// is observed) is the order written below and not an interleaving of workers.
var encPool = sync.Pool{New: func() any {
	enc, err := objrig.NewEncoder()
	if err != nil {
		panic(err)
	}

	return enc
}}

// bumped returns the hint string with a higher compatible version (same major).
func bumped(s string, how int) (string, bool) {
	h, err := hint.ParseHint(s)
	if err != nil {
		return "", false
	}

	v := h.Version()

	switch how {
	case 0:
		return fmt.Sprintf("%s-v%d.%d.%d", h.Type(), v.Major(), v.Minor(), v.Patch()+1), true
	default:
		return fmt.Sprintf("%s-v%d.%d.%d", h.Type(), v.Major(), v.Minor()+3, 0), true
	}
}

// bumpTree rewrites every _hint leaf (top level and nested) to a higher
// compatible version; returns the number of hints rewritten.
func bumpTree(v any, how int) int {
	n := 0

	switch t := v.(type) {
	case map[string]any:
		for k, c := range t {
			if s, ok := c.(string); ok && k == "_hint" {
				if b, ok := bumped(s, how); ok {
					t[k] = b
					n++
				}

				continue
			}

			n += bumpTree(c, how)
		}
	case []any:
		for i := range t {
			n += bumpTree(t[i], how)
		}
	}

	return n
}

// observation of one decode
type seen struct {
	Err      string
	Type     string
	Hint     string
	Hash     string
	HashB    []byte
	Verdict  string
	Reencode []byte
}

func (a seen) diff(b seen) string {
	switch {
	case a.Err != b.Err:
		return "decode-error"
	case a.Type != b.Type:
		return "type"
	case a.Hint != b.Hint:
		return "hint"
	case a.Hash != b.Hash:
		return "hash"
	case !bytes.Equal(a.HashB, b.HashB):
		return "hashbytes"
	case a.Verdict != b.Verdict:
		return "validity"
	case !bytes.Equal(a.Reencode, b.Reencode):
		return "reencoded-bytes"
	}

	return ""
}

func observe(enc *jsonenc.Encoder, spec objrig.Spec, b []byte, withHint hint.Hint, networkID []byte) (s seen) {
	defer func() {
		if e := recover(); e != nil {
			s.Err = fmt.Sprintf("panic: %v", e)
		}
	}()

	var y any

	var err error

	switch {
	case !withHint.IsEmpty():
		y, err = enc.DecodeWithHint(b, withHint)
	default:
		y, err = enc.Decode(b)
	}

	if err != nil {
		s.Err = "error" // the text may carry addresses of values; the kind is enough

		return s
	}

	if y == nil {
		s.Err = "nil"

		return s
	}

	s.Type = reflect.TypeOf(y).String()

	if h, ok := y.(hint.Hinter); ok {
		s.Hint = h.Hint().String()
	}

	if h, ok := y.(util.Hasher); ok && h.Hash() != nil {
		s.Hash = h.Hash().String()
	}

	if h, ok := y.(util.HashByter); ok {
		s.HashB = h.HashBytes()
	}

	if p, ok := y.(*isaac.Params); ok {
		_ = p.SetNetworkID(networkID)
	}

	arg := networkID
	if spec.NilIsValidArg {
		arg = nil
	}

	s.Verdict, _ = verdict(y, arg)

	if rb, err := enc.Marshal(y); err == nil {
		s.Reencode = rb
	} else {
		s.Reencode = []byte("marshal error: " + err.Error())
	}

	return s
}

// repeatResult: what the repeated decodes of one object showed.
type repeatResult struct {
	Sig, What string
	Witness   map[string]any
}

// repeated decodes the unmodified encoding and two compatible-version
// variants several times in a row and interleaved with another object
// (other: a valid encoding of a different type), and demands that every
// decode of the same bytes gives the same result. For the unmodified
// encoding the re-encoded bytes must also be the input; for a variant the
// re-encoding must be the variant (same JSON tree: the decoded object keeps
// the hint version it was sent with, which is what the current tree does:
// CompatibleSet.FindByString hands the decoder the parsed incoming hint and
// encoder.AnalyzeSetHinter stores it in the object).
func repeated(spec objrig.Spec, ht string, b []byte, other []byte, networkID []byte) (results []repeatResult, decodes int, variants int) {
	enc := encPool.Get().(*jsonenc.Encoder) //nolint:forcetypeassert //...
	defer encPool.Put(enc)

	type input struct {
		name     string
		b        []byte
		withHint hint.Hint
		tree     any
	}

	inputs := []input{{name: "registered-version", b: b, withHint: spec.Hint}}

	for how, name := range []string{"patch+1", "minor+3"} {
		tree, err := objrig.ParseTree(b)
		if err != nil {
			break
		}

		n := bumpTree(tree, how)
		wh := spec.Hint

		if !wh.IsEmpty() {
			if s, ok := bumped(wh.String(), how); ok {
				wh = hint.MustNewHint(s)
				n++
			}
		}

		if n < 1 {
			continue
		}

		vb, err := json.Marshal(tree)
		if err != nil {
			continue
		}

		inputs = append(inputs, input{name: "compatible:" + name, b: vb, withHint: wh, tree: tree})
		variants++
	}

	for _, in := range inputs {
		var obs []seen

		step := func() {
			obs = append(obs, observe(enc, spec, in.b, in.withHint, networkID))
			decodes++
		}

		step()
		step()
		step()

		if other != nil { // another type in between
			_, _ = enc.Decode(other)
		}

		step()
		step()

		wit := map[string]any{"generator": spec.Name, "hint": ht, "input": in.name, "encoded": short(in.b)}

		for i := 1; i < len(obs); i++ {
			if d := obs[0].diff(obs[i]); d != "" {
				wit["decode_1"] = fmt.Sprintf("%+v", brief(obs[0]))
				wit[fmt.Sprintf("decode_%d", i+1)] = fmt.Sprintf("%+v", brief(obs[i]))
				results = append(results, repeatResult{
					Sig:     "repeated-decode-differs:" + in.name + ":" + d,
					What:    fmt.Sprintf("%s (%s): decode #%d of the same bytes differs from decode #1 in %s", spec.Name, in.name, i+1, d),
					Witness: wit,
				})

				break
			}
		}

		if obs[0].Err != "" {
			if in.tree != nil {
				results = append(results, repeatResult{
					Sig:     "compatible-version-not-decoded:" + ht,
					What:    fmt.Sprintf("%s (%s): encoding with compatible hint versions does not decode (%s)", spec.Name, in.name, obs[0].Err),
					Witness: wit,
				})
			}

			continue
		}

		// what comes back out is what came in
		switch {
		case in.tree == nil:
			if !bytes.Equal(obs[0].Reencode, in.b) {
				results = append(results, repeatResult{
					Sig: "repeated-reencode-differs:" + ht, What: spec.Name + ": re-encoding differs from the input", Witness: wit,
				})
			}
		default:
			rt, err := objrig.ParseTree(obs[0].Reencode)
			if err != nil {
				continue
			}

			if d := objrig.FirstDiff(in.tree, rt, nil); d != "" {
				wit["reencoded"] = short(obs[0].Reencode)
				results = append(results, repeatResult{
					Sig:     "compatible-version-reencode-differs:" + ht + ":" + d,
					What:    fmt.Sprintf("%s (%s): the decoded object re-encodes differently from what was received, at %s", spec.Name, in.name, d),
					Witness: wit,
				})
			}
		}
	}

	return results, decodes, variants
}

func brief(s seen) map[string]any {
	return map[string]any{"err": s.Err, "type": s.Type, "hint": s.Hint, "hash": s.Hash, "validity": s.Verdict, "reencoded": short(s.Reencode)}
}
