package c28

import (
	"bytes"
	"encoding/hex"
	"fmt"
	"math/big"
	"runtime/debug"
	"sort"
	"strings"
	"sync"
	"testing"

	"github.com/spikeekips/mitum/base"
	"github.com/spikeekips/mitum/util"
	jsonenc "github.com/spikeekips/mitum/util/encoder/json"
	"github.com/spikeekips/mitum/util/hint"
	"verifharness/c27/objrig"
	"verifharness/vlib"
)

// ---- which JSON paths are signed content, per kind of signed object ----

type pathClass int

const (
	pathUnsigned pathClass = iota
	pathSigned
	pathFactHint   // the kind of the signed fact
	pathNestedHint // hint of an object nested inside signed content (not mutated)
)

var signLeaves = map[string]bool{"signer": true, "signature": true, "signed_at": true, "node": true}

// factOrSign: <p>fact.** and <p><signkey>.{signer,signature,signed_at,node}
func factOrSign(norm, p, signkey string) (pathClass, bool) {
	switch {
	case norm == p+"fact._hint":
		return pathFactHint, true
	case strings.HasPrefix(norm, p+"fact."):
		if strings.HasSuffix(norm, "._hint") {
			return pathNestedHint, true
		}

		return pathSigned, true
	case strings.HasPrefix(norm, p+signkey+"."):
		if signLeaves[norm[len(p+signkey+"."):]] {
			return pathSigned, true
		}
	}

	return pathUnsigned, false
}

func classSignFact(norm string) pathClass {
	c, _ := factOrSign(norm, "", "sign")

	return c
}

func classOperation(norm string) pathClass {
	if norm == "signs" {
		return pathSigned
	}

	c, _ := factOrSign(norm, "", "signs.*")

	return c
}

func classBallot(norm string) pathClass {
	if c, ok := factOrSign(norm, "sign_fact.", "sign"); ok {
		return c
	}

	if norm == "expels" || norm == "expels.*.signs" {
		return pathSigned
	}

	if c, ok := factOrSign(norm, "expels.*.", "signs.*"); ok {
		if c == pathFactHint {
			return pathNestedHint // only one expel fact kind exists; the ballot fact's kind is tested at sign_fact.fact._hint
		}

		return c
	}

	return pathUnsigned
}

func classBlockMap(norm string) pathClass {
	switch {
	case norm == "manifest._hint":
		return pathNestedHint
	case strings.HasPrefix(norm, "manifest."):
		return pathSigned
	case strings.HasPrefix(norm, "items.") && strings.HasSuffix(norm, ".checksum"):
		return pathSigned
	case signLeaves[norm]:
		return pathSigned
	}

	return pathUnsigned
}

type signedSpec struct {
	Name  string
	Class func(norm string) pathClass
	Gen   func(g *objrig.G) any
}

func signedSpecs() []signedSpec {
	var specs []signedSpec

	add := func(name string, class func(string) pathClass, gen func(g *objrig.G) any) {
		specs = append(specs, signedSpec{Name: name, Class: class, Gen: gen})
	}

	pick := func(g *objrig.G) objrig.LocalNode { return g.Nodes[g.R.Intn(len(g.Nodes))] }

	for _, k := range objrig.INITFactKinds {
		k := k
		add("signfact:"+k, classSignFact, func(g *objrig.G) any { return g.SignINIT(g.RandomINITFact(k), pick(g)) })
	}

	// directed: INIT fact that always carries expel facts (a valid suffrage-confirm fact shape)
	add("signfact:init+expels", classSignFact, func(g *objrig.G) any {
		return g.SignINIT(g.INITFact(objrig.KindINIT, g.Point(), nil, nil, []util.Hash{g.Hash(), g.Hash()}), pick(g))
	})

	for _, k := range objrig.ACCEPTFactKinds {
		k := k
		add("signfact:"+k, classSignFact, func(g *objrig.G) any { return g.SignACCEPT(g.RandomACCEPTFact(k), pick(g)) })
	}

	for _, k := range objrig.OperationKinds {
		k := k
		add("operation:"+k, classOperation, func(g *objrig.G) any { return g.Operation(k) })
	}

	add("proposal", classSignFact, func(g *objrig.G) any { return g.Proposal(false) })
	add("proposal:genesis", classSignFact, func(g *objrig.G) any { return g.Proposal(true) })
	add("blockmap", classBlockMap, func(g *objrig.G) any { return g.BlockMap() })

	for _, s := range []string{
		objrig.BLInitAfterAcceptMajority, objrig.BLInitWithExpels, objrig.BLInitSuffrageConfirm,
		objrig.BLInitEmptyProposal, objrig.BLAccept, objrig.BLAcceptWithExpels,
	} {
		s := s
		add("ballot:"+s, classBallot, func(g *objrig.G) any { return g.Ballot(s) })
	}

	return specs
}

// ---- evaluating one candidate encoding ----

type outcome struct {
	Kind   string // decode-error, invalid, same-object, accepted, panic
	Detail string
}

func evaluate(enc *jsonenc.Encoder, original, mutated []byte, networkID base.NetworkID) (o outcome) {
	defer func() {
		if e := recover(); e != nil {
			o = outcome{Kind: "panic", Detail: vlib.PanicSite(string(debug.Stack())) + ": " + fmt.Sprint(e)}
		}
	}()

	y, err := enc.Decode(mutated)
	if err != nil {
		return outcome{Kind: "decode-error", Detail: firstLine(err.Error())}
	}

	if y == nil {
		return outcome{Kind: "decode-error", Detail: "nil"}
	}

	// a change of the encoding that decodes to the very same object is no change of the object
	if b2, err := enc.Marshal(y); err == nil && bytes.Equal(b2, original) {
		return outcome{Kind: "same-object"}
	}

	iv, ok := y.(util.IsValider)
	if !ok {
		return outcome{Kind: "decode-error", Detail: "decoded object has no IsValid"}
	}

	if err := iv.IsValid(networkID); err != nil {
		return outcome{Kind: "invalid", Detail: firstLine(err.Error())}
	}

	return outcome{Kind: "accepted"}
}

func firstLine(s string) string {
	if i := strings.IndexByte(s, '\n'); i >= 0 {
		s = s[:i]
	}

	if len(s) > 200 {
		s = s[:200]
	}

	return s
}

func typeOf(tree any, keys ...string) string {
	cur := tree
	for _, k := range keys {
		m, ok := cur.(map[string]any)
		if !ok {
			return ""
		}

		cur = m[k]
	}

	m, ok := cur.(map[string]any)
	if !ok {
		return ""
	}

	s, _ := m["_hint"].(string)

	if h, err := hint.ParseHint(s); err == nil {
		return h.Type().String()
	}

	return s
}

// violationSig is the canonical kind of an undetected change:
//   - a malleated signature: which malleation;
//   - the kind of a fact: the unordered pair of kinds;
//   - content of a fact: fact kind + field;
//   - anything else: object kind + path.
func violationSig(top string, tree any, st site, mkind string) string {
	norm := st.Norm

	if strings.HasPrefix(mkind, "sig-") {
		return "undetected:signature-malleation:" + mkind
	}

	if i := strings.LastIndex("."+norm, ".fact."); i >= 0 {
		// the fact object this path lives in
		var factPath []any

		n := 0
		for j, p := range st.Path {
			if s, ok := p.(string); ok && s == "fact" {
				n = j + 1
			}
		}

		factPath = st.Path[:n]
		fk := kindAt(tree, factPath)
		field := normPath(st.Path[n:])

		if field == "_hint" {
			pair := []string{fk, strings.TrimPrefix(mkind, "kind->")}
			sort.Strings(pair)

			return "undetected:fact-kind-change:" + pair[0] + "+" + pair[1]
		}

		return "undetected:fact-content:" + fk + ":" + field
	}

	return "undetected:" + top + ":" + norm
}

func kindAt(tree any, path []any) string {
	cur := tree

	for _, p := range path {
		switch k := p.(type) {
		case string:
			cur = cur.(map[string]any)[k] //nolint:forcetypeassert //...
		case int:
			cur = cur.([]any)[k] //nolint:forcetypeassert //...
		}
	}

	return typeOf(cur)
}

// ---- signature malleability (directed mutations of a signature leaf) ----

var secp256k1N, _ = new(big.Int).SetString("fffffffffffffffffffffffffffffffebaaedce6af48a03bbfd25e8cd0364141", 16)

func derInt(b []byte) []byte {
	for len(b) > 1 && b[0] == 0 {
		b = b[1:]
	}

	if b[0]&0x80 != 0 {
		b = append([]byte{0}, b...)
	}

	return append([]byte{0x02, byte(len(b))}, b...)
}

// parseDER returns r, s of a strict DER ECDSA signature.
func parseDER(sig []byte) (r, s []byte, ok bool) {
	if len(sig) < 8 || sig[0] != 0x30 || int(sig[1]) != len(sig)-2 || sig[2] != 0x02 {
		return nil, nil, false
	}

	rl := int(sig[3])
	if 4+rl+2 > len(sig) || sig[4+rl] != 0x02 {
		return nil, nil, false
	}

	sl := int(sig[5+rl])
	if 6+rl+sl != len(sig) {
		return nil, nil, false
	}

	return sig[4 : 4+rl], sig[6+rl:], true
}

func signatureTwins(sighex string) []mutationValue {
	sig, err := hex.DecodeString(sighex)
	if err != nil {
		return nil
	}

	var out []mutationValue

	out = append(out, mutationValue{"sig-trailing-byte", "one byte appended after the DER signature", sighex + "00"})

	if r, s, ok := parseDER(sig); ok {
		// (r, n-s) verifies whenever (r, s) does
		ns := new(big.Int).Sub(secp256k1N, new(big.Int).SetBytes(s))
		body := append(derInt(r), derInt(ns.Bytes())...)
		twin := append([]byte{0x30, byte(len(body))}, body...)
		out = append(out, mutationValue{"sig-high-s-twin", "s replaced by n-s", hex.EncodeToString(twin)})

		// non-minimal integer padding (BER, not DER)
		pr := append([]byte{0x02, byte(len(r) + 1), 0x00}, r...)
		body2 := append(pr, append([]byte{0x02, byte(len(s))}, s...)...)
		out = append(out, mutationValue{"sig-padded-r", "r encoded with an extra leading zero byte",
			hex.EncodeToString(append([]byte{0x30, byte(len(body2))}, body2...))})
	}

	return out
}

type mutationValue struct {
	Kind, Desc, Value string
}

// ---- the monitor ----

func TestC28(t *testing.T) {
	r := vlib.Start(t, "C28", vlib.LevelExploration)
	defer r.Finish()

	r.SetRule("case = (signed object from the repository's constructors with PRNG(seed, generator, i); ONE change on a declared signed JSON path: " +
		"hex digit of a hash/signature, key digit, address char, token bit/append, time +-1ms/+1s/-1h, number +-1, string char/append, bool flip, null->hash, leaf removed, " +
		"fact _hint replaced by every other registered fact kind, list element removed/duplicated/added/swapped, malleated signature (n-s twin, trailing byte, padded r)); " +
		"re-encoded, decoded with the real encoder, IsValid(networkID). distinct = (generator, fact kind, normalized path, mutation kind, outcome class); non-trivial = the decoded object differs from the original")
	r.Assume("signed paths: sign facts/proposals fact.** + sign.{signer,signature,signed_at,node}; operations fact.** + signs[*].{...} + the signs list; " +
		"block maps manifest.** + items.<type>.checksum + signer/signature/signed_at/node; ballots sign_fact.fact.** + sign_fact.sign.* + expels (list, facts, signs). " +
		"Not signed (skipped, counted): the object's own _hint and hash, block map items.<type>.type, a ballot's voteproof, hints of objects nested inside a fact")
	r.Assume("a change of the encoding whose decoded object re-encodes to the original bytes (same object: base64/hex case, key order, removed null) is not a change and is counted as same_object")
	r.Assume("times carry nanoseconds in JSON but the protocol signs them normalized to milliseconds: time changes are >= 1ms (a sub-millisecond change is not a change of signed content)")
	r.Assume("a panic while decoding/validating a changed object is counted (panic_sites) but is not 'validation passed'")

	enc, err := objrig.NewEncoder()
	if err != nil {
		r.Inconclusive("encoder: " + err.Error())

		return
	}

	var factHints []string
	for _, h := range objrig.FactHints() {
		factHints = append(factHints, h.String())
	}

	r.Set("registered_fact_kinds", factHints)

	specs := signedSpecs()
	per := r.N(20, 200)

	var mu sync.Mutex

	outcomes := map[string]int{}
	skipped := map[string]int{}
	byMutation := map[string]int{}
	panicSites := map[string]int{}
	invalidOriginal := map[string]string{}
	undetected := map[string]int{}
	netChecks := 0

	type job struct{ s, i int }

	jobs := make([]job, 0, len(specs)*per)
	for s := range specs {
		for i := 0; i < per; i++ {
			jobs = append(jobs, job{s, i})
		}
	}

	vlib.Parallel(len(jobs), 16, func(k int) {
		spec := specs[jobs[k].s]
		rng := r.Rand(1, jobs[k].s, jobs[k].i)
		g := objrig.NewG(rng)

		var x any

		func() {
			defer func() {
				if e := recover(); e != nil {
					r.Inconclusive(fmt.Sprintf("generator %s panicked: %v\n%s", spec.Name, e, debug.Stack()))
				}
			}()

			x = spec.Gen(g)
		}()

		if x == nil {
			return
		}

		b, err := enc.Marshal(x)
		if err != nil {
			r.Inconclusive(fmt.Sprintf("%s: marshal: %v", spec.Name, err))

			return
		}

		// precondition: the unchanged object is valid, also after decoding
		if o := evaluate(enc, nil, b, g.NetworkID); o.Kind != "accepted" {
			mu.Lock()
			invalidOriginal[spec.Name] = o.Kind + " " + o.Detail
			mu.Unlock()

			return
		}

		tree := parse(b)
		top := typeOf(tree)

		fk := typeOf(tree, "fact")
		if fk == "" {
			fk = typeOf(tree, "sign_fact", "fact")
		}

		label := top
		if fk != "" {
			label = top + "[" + fk + "]"
		}

		// other network ids
		others := []base.NetworkID{
			base.NetworkID("another-" + g.Str(6)),
			append(append(base.NetworkID{}, g.NetworkID...), 'x'),
			g.NetworkID[:len(g.NetworkID)-1],
		}

		for i, other := range others {
			var verr error

			o := outcome{Kind: "invalid"}

			func() {
				defer func() {
					if e := recover(); e != nil {
						o = outcome{Kind: "panic", Detail: vlib.PanicSite(string(debug.Stack()))}
					}
				}()

				if verr = x.(util.IsValider).IsValid(other); verr == nil { //nolint:forcetypeassert //...
					o = outcome{Kind: "accepted"}
				}
			}()

			r.Case(fmt.Sprintf("%s|network-id|%d|%s", label, i, o.Kind))

			mu.Lock()
			netChecks++
			mu.Unlock()

			if o.Kind == "accepted" {
				r.Violation(fmt.Sprintf("other-network-id-accepted:%s:variant%d", label, i),
					fmt.Sprintf("%s signed for network id %q is valid under %q", spec.Name, g.NetworkID, other),
					map[string]any{"generator": spec.Name, "index": jobs[k].i, "encoded": string(b), "network_id": string(g.NetworkID), "other": string(other)})
			}
		}

		var sts []site

		sites(tree, nil, &sts)

		for _, st := range sts {
			class := spec.Class(st.Norm)

			switch class {
			case pathUnsigned:
				mu.Lock()
				skipped["unsigned:"+top+":"+st.Norm]++
				mu.Unlock()

				continue
			case pathNestedHint:
				mu.Lock()
				skipped["nested-hint:"+top+":"+st.Norm]++
				mu.Unlock()

				continue
			}

			var ms []mutation

			switch {
			case st.List:
				ms = listMutations(rng, b, st)
			case class == pathFactHint:
				ms = leafMutations(rng, b, st, factHints)
				ms = ms[:len(ms)-1] // the fact without any _hint: not a kind change
			default:
				ms = leafMutations(rng, b, st, nil)

				if s, ok := st.Val.(string); ok && strings.HasSuffix("."+st.Norm, ".signature") {
					for _, tw := range signatureTwins(s) {
						ms = append(ms, mutation{Kind: tw.Kind, Desc: tw.Desc, JSON: setAt(b, st.Path, tw.Value)})
					}
				}
			}

			for _, m := range ms {
				o := evaluate(enc, b, m.JSON, g.NetworkID)

				mu.Lock()
				outcomes[o.Kind]++
				byMutation[m.Kind+"="+o.Kind]++

				if o.Kind == "panic" {
					panicSites[label+" "+st.Norm+" "+m.Kind+" -> "+o.Detail]++
				}
				mu.Unlock()

				if o.Kind == "same-object" {
					r.Eval(1)

					continue
				}

				r.Case(strings.Join([]string{spec.Name, label, st.Norm, m.Kind, o.Kind}, "|"))

				if o.Kind == "accepted" {
					sig := violationSig(top, tree, st, m.Kind)

					mu.Lock()
					undetected[sig+" <= "+label+" "+st.Norm+" "+m.Kind]++
					mu.Unlock()

					r.Violation(sig,
						fmt.Sprintf("%s: %s changed (%s) and the object still decodes and passes IsValid", spec.Name, st.Norm, m.Desc),
						map[string]any{
							"generator": spec.Name, "index": jobs[k].i, "path": st.Norm, "mutation": m.Kind, "change": m.Desc,
							"network_id": string(g.NetworkID), "original": string(b), "changed": string(m.JSON),
						})
				}
			}
		}

		if jobs[k].i == 0 && jobs[k].s%5 == 0 {
			r.Sample(map[string]any{"generator": spec.Name, "object": label, "sites": len(sts), "encoded_bytes": len(b)})
		}
	})

	crossKind(r, enc, factHints)

	r.Set("generators", len(specs))
	r.Set("objects_per_generator", per)
	r.Set("outcomes", outcomes)
	r.Set("outcomes_by_mutation", byMutation)
	r.Set("network_id_checks", netChecks)
	r.Set("skipped_paths", skipped)

	if len(undetected) > 0 {
		keys := make([]string, 0, len(undetected))
		for k, n := range undetected {
			keys = append(keys, fmt.Sprintf("%s (x%d)", k, n))
		}

		sort.Strings(keys)
		r.Set("undetected_changes", keys)
	}

	var nskipped int
	for _, n := range skipped {
		nskipped += n
	}

	r.Count("skipped_unsigned_sites", nskipped)

	if len(panicSites) > 0 {
		keys := make([]string, 0, len(panicSites))
		for k, n := range panicSites {
			keys = append(keys, fmt.Sprintf("%s (x%d)", k, n))
		}

		sort.Strings(keys)
		r.Set("panic_sites", keys)
	}

	if len(invalidOriginal) > 0 {
		r.Set("generators_with_invalid_original", invalidOriginal)
		r.Inconclusive(fmt.Sprintf("some generated objects were not valid before any change: %v", invalidOriginal))
	}

	if outcomes["invalid"]+outcomes["decode-error"]+outcomes["accepted"] == 0 {
		r.Inconclusive("no changed object was evaluated")
	}
}
