package c28

import (
	"fmt"
	"runtime/debug"
	"sort"
	"strings"

	"github.com/spikeekips/mitum/base"
	"github.com/spikeekips/mitum/isaac"
	isaacoperation "github.com/spikeekips/mitum/isaac/operation"
	"github.com/spikeekips/mitum/util"
	jsonenc "github.com/spikeekips/mitum/util/encoder/json"
	"github.com/spikeekips/mitum/util/hint"
	"verifharness/c27/objrig"
	"verifharness/vlib"
)

type factGen struct {
	Name string
	Gen  func(g *objrig.G) base.Fact
}

func factGens() []factGen {
	var gs []factGen

	add := func(name string, f func(g *objrig.G) base.Fact) { gs = append(gs, factGen{name, f}) }

	for _, k := range objrig.INITFactKinds {
		k := k
		add(k, func(g *objrig.G) base.Fact { return g.RandomINITFact(k) })
	}

	add("init+expels", func(g *objrig.G) base.Fact {
		return g.INITFact(objrig.KindINIT, g.Point(), nil, nil, []util.Hash{g.Hash()})
	})

	for _, k := range objrig.ACCEPTFactKinds {
		k := k
		add(k, func(g *objrig.G) base.Fact { return g.RandomACCEPTFact(k) })
	}

	for _, k := range objrig.OperationKinds {
		k := k
		add("op:"+k, func(g *objrig.G) base.Fact { return g.Operation(k).Fact() })
	}

	add("proposal", func(g *objrig.G) base.Fact { return g.ProposalFact(false) })

	return gs
}

func pairSig(a, b string) string {
	p := []string{a, b}
	sort.Strings(p)

	return "crosskind-hash-collision:" + p[0] + "+" + p[1]
}

func factType(f base.Fact) string {
	if h, ok := f.(hint.Hinter); ok {
		return h.Hint().Type().String()
	}

	return fmt.Sprintf("%T", f)
}

// crossKind searches two facts of different kinds with one hash:
//  1. the encoding of a valid fact with its _hint replaced by every other
//     registered fact kind (identical field values by construction), kept when
//     the result decodes to a VALID fact of the other kind;
//  2. pairs of constructors of different kinds fed identical arguments.
func crossKind(r *vlib.Run, enc *jsonenc.Encoder, factHints []string) {
	gens := factGens()
	per := r.N(12, 150)

	pairs := map[string]int{}
	evaluated := 0

	report := func(a, b base.Fact, how string, wit map[string]any) {
		ta, tb := factType(a), factType(b)
		pairs[pairSig(ta, tb)]++

		wit["how"] = how
		wit["hash"] = a.Hash().String()
		r.Violation(pairSig(ta, tb),
			fmt.Sprintf("a valid %s and a valid %s built from identical field values have the same hash %s (%s)", ta, tb, a.Hash(), how), wit)
	}

	for gi := range gens {
		for i := 0; i < per; i++ {
			g := objrig.NewG(r.Rand(2, gi, i))
			f := gens[gi].Gen(g)

			if err := f.IsValid(g.NetworkID); err != nil {
				r.Inconclusive(fmt.Sprintf("cross-kind: generated %s fact invalid: %v", gens[gi].Name, err))

				return
			}

			b, err := enc.Marshal(f)
			if err != nil {
				r.Inconclusive("cross-kind: marshal: " + err.Error())

				return
			}

			own := f.(hint.Hinter).Hint().String() //nolint:forcetypeassert //...

			for _, h := range factHints {
				if h == own {
					continue
				}

				evaluated++

				nb := setAt(b, []any{"_hint"}, h)

				var other base.Fact

				res := "not-a-valid-fact-of-that-kind"

				func() {
					defer func() {
						if e := recover(); e != nil {
							res = "panic:" + vlib.PanicSite(string(debug.Stack()))
						}
					}()

					y, err := enc.Decode(nb)
					if err != nil {
						return
					}

					of, ok := y.(base.Fact)
					if !ok || of.IsValid(g.NetworkID) != nil {
						return
					}

					other = of
					res = "valid-other-kind:different-hash"

					if of.Hash() != nil && of.Hash().Equal(f.Hash()) {
						res = "valid-other-kind:SAME-HASH"
					}
				}()

				r.Case(strings.Join([]string{"crosskind-json", gens[gi].Name, strings.SplitN(h, "-v", 2)[0], res}, "|"))

				if res == "valid-other-kind:SAME-HASH" {
					report(f, other, "same encoding, only _hint differs", map[string]any{"fact": string(b), "other": string(nb)})
				}
			}
		}
	}

	// constructor pairs with identical arguments
	for i := 0; i < per; i++ {
		g := objrig.NewG(r.Rand(3, i))

		check := func(a, b base.Fact, args string) {
			evaluated++

			va, vb := a.IsValid(g.NetworkID), b.IsValid(g.NetworkID)
			same := a.Hash().Equal(b.Hash())

			r.Case(fmt.Sprintf("crosskind-ctor|%s|%s|valid=%v,%v|same=%v", factType(a), factType(b), va == nil, vb == nil, same))

			if va == nil && vb == nil && same {
				ja, _ := enc.Marshal(a)
				jb, _ := enc.Marshal(b)
				report(a, b, "constructors given identical arguments "+args, map[string]any{"fact": string(ja), "other": string(jb)})
			}
		}

		token, addr, height := g.Token(), g.Address(), g.Height()
		check(
			isaacoperation.NewSuffrageJoinFact(token, addr, height),
			isaacoperation.NewSuffrageDisjoinFact(token, addr, height),
			"(token, address, height)")

		point, prev, pr := g.Point(), g.Hash(), g.Hash()
		ef := []util.Hash{g.Hash()}
		check(
			isaac.NewINITBallotFact(point, prev, pr, ef),
			isaac.NewSuffrageConfirmBallotFact(point, prev, pr, append([]util.Hash{}, ef...)),
			"(point, previous block, proposal, expel facts)")

		policy := g.NetworkPolicy()
		gf := isaacoperation.NewGenesisNetworkPolicyFact(policy)
		check(gf, isaacoperation.NewNetworkPolicyFact(gf.Token(), policy), "(token, policy)")

		// different shapes: must differ
		check(
			isaac.NewINITBallotFact(point, prev, pr, nil),
			isaac.NewACCEPTBallotFact(point, prev, pr, nil),
			"(point, hash, hash)")
		check(
			isaacoperation.NewSuffrageJoinFact(token, addr, height),
			isaac.NewSuffrageExpelFact(addr, height, height, "r"),
			"(address, height)")
	}

	// crafted: fact hashes concatenate their fields without kind, length or
	// separator, so the free-form token of one kind can absorb the fields of
	// another: expel(node N, start S, end S) hashes N|S|S|N|S|S (its token is
	// N|S|S); join(token N|S|S|N[:k], candidate N[k:]|bytes(S), start S) hashes
	// the same bytes when bytes(S) spell an address tail ending in "sas".
	for i := 0; i < r.N(3, 30); i++ {
		g := objrig.NewG(r.Rand(4, i))

		head, tail := "n"+g.Str(4), g.Str(3)
		node := base.NewStringAddress(head + tail) // head+tail+"sas"
		sbytes := []byte(g.Str(5) + "sas")         // 8 bytes: the height, and the end of the candidate address

		var s int64
		for _, c := range sbytes {
			s = s<<8 | int64(c)
		}

		expel := isaac.NewSuffrageExpelFact(node, base.Height(s), base.Height(s), "reason")

		token := append(append([]byte{}, expel.Token()...), []byte(head)...)
		cand, err := base.ParseStringAddress(tail + "sas" + string(sbytes))
		if err != nil {
			r.Inconclusive("crafted cross-kind case: " + err.Error())

			break
		}

		join := isaacoperation.NewSuffrageJoinFact(token, cand, base.Height(s))
		disjoin := isaacoperation.NewSuffrageDisjoinFact(token, cand, base.Height(s))

		for _, other := range []base.Fact{join, disjoin} {
			evaluated++

			va, vb := expel.IsValid(g.NetworkID), other.IsValid(g.NetworkID)
			same := expel.Hash().Equal(other.Hash())
			r.Case(fmt.Sprintf("crosskind-crafted|%s|valid=%v,%v|same=%v", factType(other), va == nil, vb == nil, same))

			if va == nil && vb == nil && same {
				ja, _ := enc.Marshal(expel)
				jb, _ := enc.Marshal(other)
				report(expel, other, "crafted: the other fact's token absorbs the expel fact's fields (no kind/length/separator in the hash input)",
					map[string]any{"fact": string(ja), "other": string(jb)})
			}
		}
	}

	keys := make([]string, 0, len(pairs))
	for k, n := range pairs {
		keys = append(keys, fmt.Sprintf("%s (x%d)", k, n))
	}

	sort.Strings(keys)
	r.Set("crosskind_pairs_evaluated", evaluated)
	r.Set("crosskind_collisions", keys)
}
