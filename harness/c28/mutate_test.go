package c28

import (
	"bytes"
	"encoding/base64"
	"encoding/json"
	"fmt"
	"math/rand"
	"regexp"
	"strconv"
	"strings"
	"time"
)

// node of the generic JSON tree addressed by a concrete path
// (string keys, int indices).
type site struct {
	Path []any  // concrete
	Norm string // indices replaced by *
	Val  any    // leaf value or []any for list sites
	List bool
}

func normPath(p []any) string {
	parts := make([]string, len(p))
	for i := range p {
		switch t := p[i].(type) {
		case string:
			parts[i] = t
		default:
			parts[i] = "*"
		}
	}

	return strings.Join(parts, ".")
}

// sites lists every leaf (string, number, bool, null) and every list.
func sites(v any, path []any, out *[]site) {
	cp := func(extra any) []any {
		n := make([]any, len(path)+1)
		copy(n, path)
		n[len(path)] = extra

		return n
	}

	switch t := v.(type) {
	case map[string]any:
		keys := make([]string, 0, len(t))
		for k := range t {
			keys = append(keys, k)
		}

		sortStrings(keys)

		for _, k := range keys {
			sites(t[k], cp(k), out)
		}
	case []any:
		*out = append(*out, site{Path: path, Norm: normPath(path), Val: t, List: true})

		for i := range t {
			sites(t[i], cp(i), out)
		}
	default:
		*out = append(*out, site{Path: path, Norm: normPath(path), Val: v})
	}
}

func sortStrings(s []string) {
	for i := 1; i < len(s); i++ {
		for j := i; j > 0 && s[j] < s[j-1]; j-- {
			s[j], s[j-1] = s[j-1], s[j]
		}
	}
}

func parse(b []byte) any {
	d := json.NewDecoder(bytes.NewReader(b))
	d.UseNumber()

	var v any
	if err := d.Decode(&v); err != nil {
		panic(err)
	}

	return v
}

// edit applies f to the parent container of path in a fresh parse of b and
// returns the re-encoded JSON.
func edit(b []byte, path []any, f func(parent any, last any) any) []byte {
	root := parse(b)

	if len(path) == 0 {
		panic("edit of root")
	}

	// navigate to parent, keeping the chain to write back replaced slices
	type step struct {
		container any
		key       any
	}

	var chain []step

	cur := root
	for _, p := range path[:len(path)-1] {
		chain = append(chain, step{cur, p})

		switch k := p.(type) {
		case string:
			cur = cur.(map[string]any)[k] //nolint:forcetypeassert //...
		case int:
			cur = cur.([]any)[k] //nolint:forcetypeassert //...
		}
	}

	repl := f(cur, path[len(path)-1])

	// write the (possibly new) container back into its parent
	if repl != nil {
		if len(chain) == 0 {
			root = repl
		} else {
			last := chain[len(chain)-1]

			switch k := last.key.(type) {
			case string:
				last.container.(map[string]any)[k] = repl //nolint:forcetypeassert //...
			case int:
				last.container.([]any)[k] = repl //nolint:forcetypeassert //...
			}
		}
	}

	out, err := json.Marshal(root)
	if err != nil {
		panic(err)
	}

	return out
}

func setAt(b []byte, path []any, v any) []byte {
	return edit(b, path, func(parent, last any) any {
		switch k := last.(type) {
		case string:
			parent.(map[string]any)[k] = v //nolint:forcetypeassert //...
		case int:
			parent.([]any)[k] = v //nolint:forcetypeassert //...
		}

		return nil
	})
}

func deleteAt(b []byte, path []any) []byte {
	return edit(b, path, func(parent, last any) any {
		switch k := last.(type) {
		case string:
			delete(parent.(map[string]any), k) //nolint:forcetypeassert //...

			return nil
		case int:
			l := parent.([]any) //nolint:forcetypeassert //...
			n := append(append([]any{}, l[:k]...), l[k+1:]...)

			return n
		}

		return nil
	})
}

// mutation of one site
type mutation struct {
	Kind string // canonical kind (part of violation signatures)
	Desc string
	JSON []byte
}

var (
	reHex  = regexp.MustCompile(`^[0-9a-f]+$`)
	reTime = regexp.MustCompile(`^\d{4}-\d\d-\d\dT\d\d:\d\d:\d\d`)
)

func classify(key string, s string) string {
	switch {
	case key == "_hint":
		return "hint"
	case key == "token":
		return "base64"
	case reTime.MatchString(s):
		return "time"
	case len(s) >= 16 && len(s)%2 == 0 && reHex.MatchString(s):
		return "hex"
	case len(s) > 3+16 && strings.HasSuffix(s, "mpu") && reHex.MatchString(s[:len(s)-3]):
		return "publickey"
	case len(s) > 3 && strings.HasSuffix(s, "sas"):
		return "address"
	default:
		return "string"
	}
}

const hexdigits = "0123456789abcdef"

func otherHexDigit(rng *rand.Rand, c byte) byte {
	for {
		d := hexdigits[rng.Intn(16)]
		if d != c {
			return d
		}
	}
}

func otherAlnum(rng *rand.Rand, c byte) byte {
	const al = "abcdefghijklmnopqrstuvwxyz0123456789"

	for {
		d := al[rng.Intn(len(al))]
		if d != c {
			return d
		}
	}
}

// leafMutations makes the single-leaf changes of one leaf site. factHints is
// used only for the key fact._hint (given by the caller via hintTargets).
func leafMutations(rng *rand.Rand, b []byte, st site, hintTargets []string) []mutation {
	var ms []mutation

	add := func(kind, desc string, v any) {
		ms = append(ms, mutation{Kind: kind, Desc: desc, JSON: setAt(b, st.Path, v)})
	}

	key, _ := st.Path[len(st.Path)-1].(string)

	switch v := st.Val.(type) {
	case string:
		switch classify(key, v) {
		case "hint":
			for _, h := range hintTargets {
				if h != v {
					add("kind->"+strings.SplitN(h, "-v", 2)[0], fmt.Sprintf("%q -> %q", v, h), h)
				}
			}
		case "time":
			t, err := time.Parse(time.RFC3339Nano, v)
			if err != nil {
				break
			}

			for _, d := range []time.Duration{time.Millisecond, -time.Millisecond, time.Second, -time.Hour} {
				n := t.Add(d).Format(time.RFC3339Nano)
				add("time"+signed(d), fmt.Sprintf("%s -> %s", v, n), n)
			}
		case "hex":
			for _, at := range []int{0, len(v) - 1, rng.Intn(len(v))} {
				n := []byte(v)
				n[at] = otherHexDigit(rng, n[at])
				add("hex-digit", fmt.Sprintf("digit %d of %s", at, v), string(n))
			}
		case "publickey":
			body := len(v) - 3
			for _, at := range []int{2 + rng.Intn(body-2), body - 1} {
				n := []byte(v)
				n[at] = otherHexDigit(rng, n[at])
				add("key-digit", fmt.Sprintf("digit %d of %s", at, v), string(n))
			}
		case "address":
			body := len(v) - 3
			at := rng.Intn(body)
			n := []byte(v)
			n[at] = otherAlnum(rng, n[at])
			add("address-char", fmt.Sprintf("char %d of %s", at, v), string(n))
		case "base64":
			raw, err := base64.StdEncoding.DecodeString(v)
			if err != nil || len(raw) == 0 {
				break
			}

			n := append([]byte{}, raw...)
			n[rng.Intn(len(n))] ^= byte(1 << uint(rng.Intn(8)))
			add("bytes-bit", fmt.Sprintf("one bit of %x", raw), base64.StdEncoding.EncodeToString(n))
			add("bytes-append", fmt.Sprintf("append a byte to %x", raw), base64.StdEncoding.EncodeToString(append(append([]byte{}, raw...), 0x41)))
		default:
			if len(v) > 0 {
				n := []byte(v)
				at := rng.Intn(len(n))
				n[at] = otherAlnum(rng, n[at])
				add("string-char", fmt.Sprintf("char %d of %q", at, v), string(n))
			}

			add("string-append", fmt.Sprintf("append to %q", v), v+"x")
		}
	case json.Number:
		if i, err := strconv.ParseInt(v.String(), 10, 64); err == nil {
			add("number+1", fmt.Sprintf("%d -> %d", i, i+1), json.Number(strconv.FormatInt(i+1, 10)))
			add("number-1", fmt.Sprintf("%d -> %d", i, i-1), json.Number(strconv.FormatInt(i-1, 10)))
		} else if u, err := strconv.ParseUint(v.String(), 10, 64); err == nil {
			add("number-1", fmt.Sprintf("%d -> %d", u, u-1), json.Number(strconv.FormatUint(u-1, 10)))
		} else if f, err := strconv.ParseFloat(v.String(), 64); err == nil {
			add("number+1", fmt.Sprintf("%v -> %v", f, f+1), json.Number(strconv.FormatFloat(f+1, 'f', -1, 64)))
		}
	case bool:
		add("bool-flip", fmt.Sprintf("%v -> %v", v, !v), !v)
	case nil:
		n := make([]byte, 64)
		for k := range n {
			n[k] = hexdigits[rng.Intn(16)]
		}

		add("null->hash", "null -> "+string(n), string(n))
	}

	// removing the leaf (the key, or the list element) is a change too
	ms = append(ms, mutation{Kind: "removed", Desc: "leaf removed", JSON: deleteAt(b, st.Path)})

	return ms
}

func signed(d time.Duration) string {
	if d < 0 {
		return d.String()
	}

	return "+" + d.String()
}

// listMutations: element removed / duplicated / (hash lists) a new element added.
func listMutations(rng *rand.Rand, b []byte, st site) []mutation {
	l := st.Val.([]any) //nolint:forcetypeassert //...

	var ms []mutation

	if len(l) > 0 {
		i := rng.Intn(len(l))
		ms = append(ms, mutation{
			Kind: "element-removed", Desc: fmt.Sprintf("element %d of %d removed", i, len(l)),
			JSON: deleteAt(b, append(append([]any{}, st.Path...), i)),
		})

		j := rng.Intn(len(l))
		ms = append(ms, mutation{
			Kind: "element-duplicated", Desc: fmt.Sprintf("element %d of %d appended again", j, len(l)),
			JSON: edit(b, append(append([]any{}, st.Path...), 0), func(parent, _ any) any {
				p := parent.([]any) //nolint:forcetypeassert //...

				return append(append([]any{}, p...), p[j])
			}),
		})

		if len(l) > 1 {
			ms = append(ms, mutation{
				Kind: "elements-swapped", Desc: "first and last element swapped",
				JSON: edit(b, append(append([]any{}, st.Path...), 0), func(parent, _ any) any {
					p := append([]any{}, parent.([]any)...) //nolint:forcetypeassert //...
					p[0], p[len(p)-1] = p[len(p)-1], p[0]

					return p
				}),
			})
		}

		if s, ok := l[0].(string); ok && classify("", s) == "hex" {
			n := make([]byte, len(s))
			for k := range n {
				n[k] = hexdigits[rng.Intn(16)]
			}

			ms = append(ms, mutation{
				Kind: "element-added", Desc: "a new hash appended",
				JSON: edit(b, append(append([]any{}, st.Path...), 0), func(parent, _ any) any {
					return append(append([]any{}, parent.([]any)...), string(n)) //nolint:forcetypeassert //...
				}),
			})
		}
	}

	return ms
}
