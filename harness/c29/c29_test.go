package c29

import (
	"bytes"
	"encoding/binary"
	"fmt"
	"hash/fnv"
	"io"
	"math"
	"math/rand"
	"testing"
	"time"

	"github.com/spikeekips/mitum/util"
	"verifharness/vlib"
)

// reader limits of util/bytes.go (documented there as maxLengthBytes / maxLengthedBytes)
const (
	readerMaxCount = math.MaxInt16
	readerMaxItem  = math.MaxInt32
)

// ---------------------------------------------------------------- reference codec

func refEncodeList(m [][]byte) []byte {
	var b []byte
	b = binary.BigEndian.AppendUint64(b, uint64(len(m)))
	for _, it := range m {
		b = binary.BigEndian.AppendUint64(b, uint64(len(it)))
		b = append(b, it...)
	}
	return b
}

// refDecodeList: strict decoding of count + items from the head of b.
func refDecodeList(b []byte) (items [][]byte, consumed int, ok bool) {
	if len(b) < 8 {
		return nil, 0, false
	}
	cnt := binary.BigEndian.Uint64(b)
	pos := 8
	if cnt > uint64(len(b)-8)/8 { // every item needs its 8 length bytes
		return nil, 0, false
	}
	items = make([][]byte, 0, cnt)
	for i := uint64(0); i < cnt; i++ {
		it, n, ok := refDecodeItem(b[pos:])
		if !ok {
			return nil, 0, false
		}
		items = append(items, it)
		pos += n
	}
	return items, pos, true
}

func refDecodeItem(b []byte) (item []byte, consumed int, ok bool) {
	if len(b) < 8 {
		return nil, 0, false
	}
	l := binary.BigEndian.Uint64(b)
	if l > uint64(len(b)-8) {
		return nil, 0, false
	}
	return b[8 : 8+l], 8 + int(l), true
}

func sameList(a, b [][]byte) bool {
	if len(a) != len(b) {
		return false
	}
	for i := range a {
		if !bytes.Equal(a[i], b[i]) {
			return false
		}
	}
	return true
}

// ---------------------------------------------------------------- chunking reader

type chunking struct {
	Size    int  // 0 = whatever the caller asks, -1 = random 1..13, -2 = random 1..4096
	EOFData bool // last bytes are returned together with io.EOF
	Zero    bool // sometimes (0, nil), never twice in a row
}

func (c chunking) String() string {
	s := fmt.Sprintf("c%d", c.Size)
	switch c.Size {
	case 0:
		s = "whole"
	case -1:
		s = "rnd13"
	case -2:
		s = "rnd4096"
	}
	if c.EOFData {
		s += "+eofdata"
	}
	if c.Zero {
		s += "+zero"
	}
	return s
}

type chunkReader struct {
	data     []byte
	pos      int
	c        chunking
	rng      *rand.Rand
	lastZero bool
}

func (r *chunkReader) Read(p []byte) (int, error) {
	if len(p) == 0 {
		return 0, nil
	}
	if r.pos >= len(r.data) {
		return 0, io.EOF
	}
	if r.c.Zero && !r.lastZero && r.rng.Intn(3) == 0 {
		r.lastZero = true
		return 0, nil
	}
	r.lastZero = false
	n := len(p)
	switch {
	case r.c.Size > 0:
		n = r.c.Size
	case r.c.Size == -1:
		n = 1 + r.rng.Intn(13)
	case r.c.Size == -2:
		n = 1 + r.rng.Intn(4096)
	}
	if n > len(p) {
		n = len(p)
	}
	if n > len(r.data)-r.pos {
		n = len(r.data) - r.pos
	}
	copy(p, r.data[r.pos:r.pos+n])
	r.pos += n
	if r.c.EOFData && r.pos == len(r.data) {
		return n, io.EOF
	}
	return n, nil
}

var allChunkings = []chunking{
	{Size: 0}, {Size: 1}, {Size: 2}, {Size: 7}, {Size: -1}, {Size: -2},
	{Size: 0, EOFData: true}, {Size: 1, EOFData: true}, {Size: 7, Zero: true},
	{Size: -1, EOFData: true, Zero: true}, {Size: 0, Zero: true},
}

// for big inputs: no 1/2-byte chunking (one goroutine per Read inside EnsureRead)
var bigChunkings = []chunking{
	{Size: 0}, {Size: 1021}, {Size: -2}, {Size: 0, EOFData: true}, {Size: -2, EOFData: true, Zero: true},
}

var wholeChunkings = []chunking{{Size: 0}, {Size: 0, EOFData: true}, {Size: 0, Zero: true}}

// claimed: the largest item length the stream reader will be asked to
// allocate for input (it allocates the claimed size, and EnsureRead allocates
// the remaining size again for every Read).
func claimed(input []byte) uint64 {
	if len(input) < 8 {
		return 0
	}
	cnt := binary.BigEndian.Uint64(input)
	if cnt > readerMaxCount {
		return 0
	}
	pos := 8
	var max uint64
	for i := uint64(0); i < cnt && len(input)-pos >= 8; i++ {
		l := binary.BigEndian.Uint64(input[pos:])
		pos += 8
		if l > readerMaxItem {
			return max
		}
		if l > max {
			max = l
		}
		if l > uint64(len(input)-pos) {
			return max
		}
		pos += int(l)
	}
	return max
}

// pickChunking keeps the harness cost bounded: inputs that make the reader
// allocate much are delivered in whole reads, medium ones not byte by byte.
func pickChunking(rng *rand.Rand, set []chunking, input []byte) chunking {
	c := set[rng.Intn(len(set))]
	switch cl := claimed(input); {
	case cl > 128<<10:
		return wholeChunkings[rng.Intn(len(wholeChunkings))]
	case (cl > 8<<10 && c.Size > 0 && c.Size < 512) || (cl > 8<<10 && c.Size == -1) || (len(input) > 4000 && c.Size > 0 && c.Size < 7):
		return chunking{Size: -2, EOFData: c.EOFData, Zero: c.Zero}
	}
	return c
}

// ---------------------------------------------------------------- monitor

type mon struct {
	r *vlib.Run
}

type caseInfo struct {
	Via      string `json:"via"`
	Count    int    `json:"count"`
	Lens     []int  `json:"item_lengths,omitempty"` // first 12
	Total    int    `json:"encoded_bytes"`
	Chunking string `json:"chunking,omitempty"`
	Cut      int    `json:"cut,omitempty"`
	Mutation string `json:"mutation,omitempty"`
	Head     string `json:"input_head_hex,omitempty"` // first 64 bytes of the input given to the reader
	Got      string `json:"got,omitempty"`
	Want     string `json:"want,omitempty"`
}

func info(via string, m [][]byte, enc []byte) caseInfo {
	ci := caseInfo{Via: via, Count: len(m), Total: len(enc)}
	for i := 0; i < len(m) && i < 12; i++ {
		ci.Lens = append(ci.Lens, len(m[i]))
	}
	return ci
}

func head(b []byte) string {
	if len(b) > 64 {
		return fmt.Sprintf("%x...(%d bytes)", b[:64], len(b))
	}
	return fmt.Sprintf("%x", b)
}

func shape(m [][]byte) string {
	h := fnv.New64a()
	for _, it := range m {
		var l [8]byte
		binary.BigEndian.PutUint64(l[:], uint64(len(it)))
		h.Write(l[:])
	}
	return fmt.Sprintf("n=%d/%x", len(m), h.Sum64())
}

func descList(m [][]byte, err error) string {
	if err != nil {
		return "error: " + err.Error()
	}
	s := fmt.Sprintf("%d items", len(m))
	if len(m) > 0 && len(m) <= 6 {
		s += " ["
		for _, it := range m {
			if len(it) > 16 {
				s += fmt.Sprintf(" %x..(%d)", it[:16], len(it))
			} else {
				s += fmt.Sprintf(" %x", it)
			}
		}
		s += " ]"
	}
	return s
}

func countClass(n uint64) string {
	if n > readerMaxCount {
		return "count>32767"
	}
	return "count<=32767"
}

// judgeList: verdict for one read of (possibly hostile) bytes against the
// reference decoding of exactly those bytes.
//   - reference malformed            -> the reader must return an error
//   - reference well-formed list L   -> the reader returns L (and the right rest) or,
//     only if L is beyond the reader's documented limits, an error
func (m *mon) judgeList(fn string, ci caseInfo, input []byte, pristine bool, got [][]byte, gotLeft []byte, checkLeft bool, err error) {
	r := m.r
	want, consumed, ok := refDecodeList(input)
	var cnt uint64
	if len(input) >= 8 {
		cnt = binary.BigEndian.Uint64(input)
	}
	ci.Head = head(input)
	ci.Got = descList(got, err)
	switch {
	case !ok && err == nil:
		ci.Want = "error (input is malformed or truncated)"
		r.Violation(fmt.Sprintf("%s:success-on-malformed-input:%s", fn, countClass(cnt)),
			fmt.Sprintf("%s returned %s without error for malformed/truncated input (count prefix %d, %d bytes)", fn, ci.Got, cnt, len(input)), ci)
	case !ok:
		r.Count("malformed_rejected", 1)
	case err != nil:
		if !pristine && cnt > readerMaxCount {
			r.Count("wellformed_beyond_reader_limit_rejected", 1)
			return
		}
		ci.Want = descList(want, nil)
		r.Violation(fmt.Sprintf("%s:error-on-well-formed-list:%s", fn, countClass(cnt)),
			fmt.Sprintf("%s failed (%v) on the well-formed encoding of %d items", fn, err, len(want)), ci)
	default:
		if !sameList(got, want) {
			ci.Want = descList(want, nil)
			r.Violation(fmt.Sprintf("%s:success-with-different-list:%s", fn, countClass(cnt)),
				fmt.Sprintf("%s returned %s, the bytes encode %s", fn, ci.Got, ci.Want), ci)
			return
		}
		if checkLeft && !bytes.Equal(gotLeft, input[consumed:]) {
			r.Violation(fn+":wrong-rest", fmt.Sprintf("%s returned %d rest bytes, %d follow the list", fn, len(gotLeft), len(input)-consumed), ci)
			return
		}
		r.Count("wellformed_read_back", 1)
	}
}

func (m *mon) readBuf(ci caseInfo, input []byte, pristine bool) {
	m.r.Count("ReadLengthedBytesSlice_calls", 1)
	m.r.Guard("ReadLengthedBytesSlice", ci, func() {
		got, left, err := util.ReadLengthedBytesSlice(input)
		m.judgeList("ReadLengthedBytesSlice", ci, input, pristine, got, left, true, err)
	})
}

func (m *mon) readStream(ci caseInfo, input []byte, pristine bool, c chunking, rng *rand.Rand) {
	ci.Chunking = c.String()
	m.r.Count("ReadLengthedSlice_calls", 1)
	m.r.SetAdd("chunkings_used", c.String())
	m.r.Guard("ReadLengthedSlice", ci, func() {
		cr := &chunkReader{data: input, c: c, rng: rng}
		_, got, err := util.ReadLengthedSlice(cr)
		m.judgeList("ReadLengthedSlice", ci, input, pristine, got, nil, false, err)
	})
}

// ---- frames

type frame struct {
	Header [][]byte
	Items  [][]byte // written with Lengthed
	Body   []byte   // raw, only in round trips
}

func refEncodeFrame(f frame) []byte {
	b := []byte{0, 0}
	b = append(b, refEncodeList(f.Header)...)
	for _, it := range f.Items {
		b = binary.BigEndian.AppendUint64(b, uint64(len(it)))
		b = append(b, it...)
	}
	return append(b, f.Body...)
}

// readFrame drives BytesFrameReader over input. With nItems >= 0 it reads that
// many Lengthed items and then Body (round trip); with nItems < 0 it reads
// Lengthed items until the first error (hostile input without raw body).
func (m *mon) readFrame(ci caseInfo, input []byte, c chunking, rng *rand.Rand, nItems int, pristine *frame) {
	r := m.r
	ci.Chunking = c.String()
	ci.Head = head(input)
	r.Count("BytesFrameReader_runs", 1)
	r.SetAdd("chunkings_used", c.String())
	cls := "stream"
	if c.Size == 0 && !c.Zero {
		cls = "wholereads"
	}
	r.Guard("BytesFrameReader", ci, func() {
		var fr *util.BytesFrameReader
		var err error
		if c.Size == 0 && !c.EOFData && !c.Zero {
			fr, _, err = util.NewBufferBytesFrameReader(append([]byte{}, input...))
		} else {
			fr, err = util.NewBytesFrameReader(&chunkReader{data: input, c: c, rng: rng})
		}
		// reference
		var refHdr [][]byte
		refOK := false
		pos := 2
		if len(input) >= 2 {
			var n int
			refHdr, n, refOK = refDecodeList(input[2:])
			pos += n
		}
		var cnt uint64
		if len(input) >= 10 {
			cnt = binary.BigEndian.Uint64(input[2:])
		}
		if err != nil {
			if pristine != nil {
				r.Violation("BytesFrameReader:error-on-written-frame:new:"+cls, fmt.Sprintf("NewBytesFrameReader failed on a written frame: %v", err), ci)
			}
			return
		}
		if len(input) >= 2 && fr.Version() != [2]byte{input[0], input[1]} {
			ci.Got = fmt.Sprintf("version %x", fr.Version())
			ci.Want = fmt.Sprintf("version %x", input[:2])
			r.Violation("BytesFrameReader:version-differs-from-stream:"+cls, fmt.Sprintf("version %x read from a stream starting %x (chunking %s)", fr.Version(), input[:2], c), ci)
			// keep going: the header read shows the consequence
		}
		hdr, herr := fr.Header()
		ci.Got = "header " + descList(hdr, herr)
		switch {
		case !refOK && herr == nil:
			ci.Want = "error (header malformed or truncated)"
			r.Violation(fmt.Sprintf("BytesFrameReader.Header:success-on-malformed-input:%s:%s", countClass(cnt), cls),
				fmt.Sprintf("Header() returned %s for a malformed/truncated header (chunking %s)", descList(hdr, nil), c), ci)
			return
		case !refOK:
			r.Count("malformed_rejected", 1)
			return
		case herr != nil:
			if pristine == nil && cnt > readerMaxCount {
				r.Count("wellformed_beyond_reader_limit_rejected", 1)
				return
			}
			ci.Want = "header " + descList(refHdr, nil)
			r.Violation(fmt.Sprintf("BytesFrameReader.Header:error-on-well-formed-list:%s:%s", countClass(cnt), cls),
				fmt.Sprintf("Header() failed (%v) on a well-formed header of %d items (chunking %s)", herr, len(refHdr), c), ci)
			return
		case !sameList(hdr, refHdr):
			ci.Want = "header " + descList(refHdr, nil)
			r.Violation(fmt.Sprintf("BytesFrameReader.Header:success-with-different-list:%s:%s", countClass(cnt), cls),
				fmt.Sprintf("Header() returned %s, the stream holds %s (chunking %s)", descList(hdr, nil), descList(refHdr, nil), c), ci)
			return
		}
		r.Count("wellformed_read_back", 1)

		// Lengthed items
		limit := nItems
		if limit < 0 {
			limit = 1 << 30
		}
		for k := 0; k < limit; k++ {
			refItem, n, iok := refDecodeItem(input[pos:])
			var got []byte
			called := false
			lerr := fr.Lengthed(func(b []byte) error {
				called = true
				got = b
				return nil
			})
			switch {
			case lerr != nil && !iok:
				r.Count("malformed_rejected", 1)
				return // end of what can be read (also the clean end of the stream)
			case lerr != nil:
				ci.Got = "Lengthed error: " + lerr.Error()
				r.Violation("BytesFrameReader.Lengthed:error-on-complete-item:"+cls, fmt.Sprintf("Lengthed() #%d failed (%v), a complete item of %d bytes is in the stream", k, lerr, len(refItem)), ci)
				return
			case !iok && (called || len(input[pos:]) > 0):
				ci.Got = fmt.Sprintf("Lengthed #%d ok, called=%v, %d bytes", k, called, len(got))
				r.Violation("BytesFrameReader.Lengthed:success-on-truncated-item:"+cls, fmt.Sprintf("Lengthed() #%d succeeded with %d bytes, only a truncated item (%d bytes left) is in the stream", k, len(got), len(input[pos:])), ci)
				return
			case !iok:
				return // clean end reported as nil without callback
			case !called || !bytes.Equal(got, refItem):
				ci.Got = fmt.Sprintf("Lengthed #%d called=%v %d bytes", k, called, len(got))
				ci.Want = fmt.Sprintf("%d bytes", len(refItem))
				r.Violation("BytesFrameReader.Lengthed:success-with-different-item:"+cls, fmt.Sprintf("Lengthed() #%d gave %d bytes (callback called=%v), the stream holds %d bytes", k, len(got), called, len(refItem)), ci)
				return
			}
			pos += n
			r.Count("lengthed_items_read_back", 1)
		}
		if nItems >= 0 {
			body, berr := fr.Body()
			if berr != nil || !bytes.Equal(body, input[pos:]) {
				ci.Got = fmt.Sprintf("body %d bytes err=%v", len(body), berr)
				ci.Want = fmt.Sprintf("body %d bytes", len(input)-pos)
				r.Violation("BytesFrameReader.Body:differs-from-stream:"+cls, fmt.Sprintf("Body() gave %d bytes (err %v), %d bytes follow the items", len(body), berr, len(input)-pos), ci)
				return
			}
			r.Count("bodies_read_back", 1)
		}
	})
}

// ---------------------------------------------------------------- generators

func genItem(rng *rand.Rand, max int) []byte {
	if max <= 0 {
		return nil
	}
	var l int
	switch rng.Intn(6) {
	case 0:
		l = 0
	case 1:
		l = 1 + rng.Intn(8)
	case 2:
		l = []int{7, 8, 9, 15, 16, 17, 255, 256, 257}[rng.Intn(9)]
	default:
		l = rng.Intn(max + 1)
	}
	if l > max {
		l = max
	}
	if l == 0 {
		if rng.Intn(2) == 0 {
			return nil
		}
		return []byte{}
	}
	b := make([]byte, l)
	switch rng.Intn(3) {
	case 0: // zeros and 0xff: look like length prefixes
		for i := range b {
			if rng.Intn(2) == 0 {
				b[i] = 0xff
			}
		}
	default:
		rng.Read(b)
	}
	return b
}

func genList(rng *rand.Rand, kind int) [][]byte {
	var n, max int
	switch kind {
	case 0: // small: every truncation is tried
		n, max = rng.Intn(6), 24
	case 1:
		n, max = rng.Intn(40), 300
	case 2: // few large items up to 64KiB
		n, max = 1+rng.Intn(4), 64<<10
	default: // many tiny items
		n, max = 100+rng.Intn(3000), 3
	}
	m := make([][]byte, n)
	for i := range m {
		m[i] = genItem(rng, max)
	}
	if kind == 2 {
		m[rng.Intn(n)] = make([]byte, []int{64 << 10, 64<<10 - 1, 32 << 10}[rng.Intn(3)])
	}
	return m
}

// ---------------------------------------------------------------- the check of one list

func (m *mon) checkList(idx int, via string, list [][]byte, light bool) {
	r := m.r
	rng := r.Rand(29, idx)
	fp := shape(list)

	// write with the real writers
	var enc []byte
	var werr error
	if r.Guard("NewLengthedBytesSlice", info(via, list, nil), func() {
		enc, werr = util.NewLengthedBytesSlice(list)
	}) {
		return
	}
	r.Count("lists_written", 1)
	if werr != nil {
		// a refused write is not a round-trip failure; nothing was written
		r.Count("writes_refused", 1)
		r.SetAdd("writes_refused_counts", fmt.Sprint(len(list)))
		r.Eval(1)
		var sink bytes.Buffer
		if err := util.WriteLengthedSlice(&sink, list); err == nil {
			r.Violation("WriteLengthedSlice:accepts-what-NewLengthedBytesSlice-refuses", fmt.Sprintf("%d items: NewLengthedBytesSlice: %v, WriteLengthedSlice: nil", len(list), werr), info(via, list, nil))
		}
		return
	}
	returned := enc                 // what the caller got: must stay what it is
	enc = append([]byte{}, enc...) // private copy taken immediately after the call
	ci := info(via, list, enc)
	defer func() {
		// after all the later writes and reads of this and the other workers
		r.Count("returned_encodings_rechecked", 1)
		if !bytes.Equal(returned, enc) {
			cc := ci
			cc.Got, cc.Want = head(returned), head(enc)
			r.Violation("NewLengthedBytesSlice:returned-encoding-changed-after-later-calls",
				fmt.Sprintf("the slice NewLengthedBytesSlice returned for %s no longer holds what it held right after the call", fp), cc)
		}
	}()
	if !bytes.Equal(enc, refEncodeList(list)) {
		// the format model was validated serially before (selfCheckModel): either the
		// model is wrong for this list, or the bytes handed out are not this list's encoding
		got, _, rerr := util.ReadLengthedBytesSlice(enc)
		if rerr == nil && sameList(got, list) {
			r.Inconclusive(fmt.Sprintf("reference encoding differs from NewLengthedBytesSlice for %s although it reads back; the monitor's model of the format is wrong", fp))
			return
		}
		cc := ci
		cc.Got, cc.Want = descList(got, rerr), descList(list, nil)
		cc.Head = head(enc)
		r.Violation("NewLengthedBytesSlice:returned-encoding-does-not-read-back",
			fmt.Sprintf("the bytes NewLengthedBytesSlice returned for %s (copied right after the call, other writers running) read back as %s", fp, cc.Got), cc)
		return
	}
	var wbuf bytes.Buffer
	if err := util.WriteLengthedSlice(&wbuf, list); err != nil || !bytes.Equal(wbuf.Bytes(), enc) {
		r.Violation("WriteLengthedSlice:differs-from-NewLengthedBytesSlice", fmt.Sprintf("err=%v", err), ci)
		return
	}
	if len(list) > 0 {
		r.Case("rt/" + fp)
	} else {
		r.Eval(1)
	}

	// EnsureRead allocates a buffer of the remaining item size for every Read:
	// big items are not read in 1- and 2-byte chunks
	chunkings := allChunkings
	if len(enc) > 200<<10 {
		chunkings = bigChunkings
	}
	for _, it := range list {
		if len(it) > 8<<10 {
			chunkings = bigChunkings
		}
	}

	// 1. round trip: buffer (with and without a tail), stream in every chunking
	m.readBuf(ci, enc, true)
	tail := make([]byte, 1+rng.Intn(20))
	rng.Read(tail)
	m.readBuf(ci, append(append([]byte{}, enc...), tail...), true)
	for ci2, c := range chunkings {
		m.readStream(ci, enc, true, c, r.Rand(29, idx, 1, ci2))
	}

	// 2. frame round trip: header = list, Lengthed items, raw body
	fr := frame{Header: list}
	if !light {
		for k := rng.Intn(4); k > 0; k-- {
			fr.Items = append(fr.Items, genItem(rng, 2000))
		}
		fr.Body = genItem(rng, 3000)
	} else {
		fr.Items = [][]byte{{1, 2, 3}}
		fr.Body = []byte("body")
	}
	var fenc []byte
	var fwerr error
	if r.Guard("BytesFrameWriter", ci, func() {
		fw, buf := util.NewBufferBytesFrameWriter()
		if fwerr = fw.Header(fr.Header...); fwerr != nil {
			return
		}
		for _, it := range fr.Items {
			if fwerr = fw.Lengthed(it); fwerr != nil {
				return
			}
		}
		if len(fr.Body) > 0 {
			if _, fwerr = fw.Writer().Write(fr.Body); fwerr != nil {
				return
			}
		}
		fenc = append([]byte{}, buf.Bytes()...)
	}) {
		return
	}
	r.Count("frames_written", 1)
	if fwerr != nil {
		r.Count("writes_refused", 1)
		r.SetAdd("writes_refused_counts", fmt.Sprint(len(list)))
	} else {
		if !bytes.Equal(fenc, refEncodeFrame(fr)) {
			r.Inconclusive("reference frame encoding differs from BytesFrameWriter; the monitor's model of the format is wrong")
			return
		}
		if len(list) > 0 {
			r.Case("frt/" + fp)
		}
		for ci2, c := range chunkings {
			f := fr
			m.readFrame(ci, fenc, c, r.Rand(29, idx, 2, ci2), len(fr.Items), &f)
		}
	}
	if light {
		return
	}

	// 3. truncations: every strict prefix of small encodings, sampled for large
	var cuts []int
	if len(enc) <= 300 {
		for p := 0; p < len(enc); p++ {
			cuts = append(cuts, p)
		}
	} else {
		seen := map[int]bool{}
		add := func(p int) {
			if p >= 0 && p < len(enc) && !seen[p] {
				seen[p] = true
				cuts = append(cuts, p)
			}
		}
		// around every boundary of the first items and the end
		pos := 8
		add(0)
		add(7)
		add(8)
		for i := 0; i < len(list) && i < 6; i++ {
			for d := -1; d <= 9; d++ {
				add(pos + d)
			}
			pos += 8 + len(list[i])
		}
		for d := 1; d <= 10; d++ {
			add(len(enc) - d)
		}
		nc := r.N(60, 1000)
		for len(cuts) < nc && len(cuts) < len(enc) {
			add(rng.Intn(len(enc)))
		}
	}
	for _, p := range cuts {
		cci := ci
		cci.Cut = p
		cci.Mutation = "truncate"
		r.Case(fmt.Sprintf("cut/%s/%d", fp, p))
		m.readBuf(cci, enc[:p], false)
		c := pickChunking(rng, chunkings, enc[:p])
		m.readStream(cci, enc[:p], false, c, r.Rand(29, idx, 3, p))
	}
	r.Count("truncations", len(cuts))

	// frame truncations (frame without raw body)
	if fwerr == nil {
		fr2 := frame{Header: fr.Header, Items: fr.Items}
		f2 := refEncodeFrame(fr2)
		var fcuts []int
		if len(f2) <= 300 {
			for p := 0; p < len(f2); p++ {
				fcuts = append(fcuts, p)
			}
		} else {
			for d := 1; d <= 40 && d <= len(f2); d++ {
				fcuts = append(fcuts, len(f2)-d)
			}
			for i := 0; i < 20; i++ {
				fcuts = append(fcuts, rng.Intn(len(f2)))
			}
		}
		for _, p := range fcuts {
			cci := ci
			cci.Cut = p
			cci.Mutation = "truncate-frame"
			r.Case(fmt.Sprintf("fcut/%s/%d", fp, p))
			c := pickChunking(rng, chunkings, f2[:p])
			m.readFrame(cci, f2[:p], c, r.Rand(29, idx, 4, p), -1, nil)
		}
		r.Count("frame_truncations", len(fcuts))
	}

	// 4. byte flips and hostile length prefixes
	nflip := 24
	if len(enc) > 4000 {
		nflip = 8
	}
	// offsets of the length prefixes
	var prefixes []int
	prefixes = append(prefixes, 0)
	pos := 8
	for i := 0; i < len(list) && i < 50; i++ {
		prefixes = append(prefixes, pos)
		pos += 8 + len(list[i])
	}
	for k := 0; k < nflip; k++ {
		mut := append([]byte{}, enc...)
		var what string
		switch rng.Intn(4) {
		case 0: // any byte
			p := rng.Intn(len(mut))
			mut[p] ^= byte(1 + rng.Intn(255))
			what = fmt.Sprintf("flip@%d", p)
		case 1: // a byte of a length prefix
			p := prefixes[rng.Intn(len(prefixes))] + rng.Intn(8)
			mut[p] ^= byte(1 << uint(rng.Intn(8)))
			what = fmt.Sprintf("prefixbit@%d", p)
		default: // whole prefix replaced (no value that makes the stream reader allocate > 64MiB)
			pi := rng.Intn(len(prefixes))
			p := prefixes[pi]
			old := binary.BigEndian.Uint64(mut[p:])
			vals := []uint64{old + 1, old - 1, old + 2, 0, 1, readerMaxCount - 1, readerMaxCount, readerMaxCount + 1, 40000, 1<<16 + 1,
				1 << 31, 1<<31 + 1, 1 << 32, 1 << 63, 1<<63 + 1, math.MaxUint64, math.MaxUint64 - 7, math.MaxUint64 - 8}
			v := vals[rng.Intn(len(vals))]
			if v == old {
				v = old + 3
			}
			binary.BigEndian.PutUint64(mut[p:], v)
			what = fmt.Sprintf("prefix#%d=%d", pi, v)
		}
		cci := ci
		cci.Mutation = what
		r.Case(fmt.Sprintf("mut/%s/%s", fp, what))
		m.readBuf(cci, mut, false)
		// the stream readers allocate what the prefix claims, once more for every
		// Read: big claims are left to the serial directed cases below
		if claimed(mut) > 128<<10 {
			r.Count("mutations_buffer_reader_only_large_claim", 1)
			continue
		}
		c := pickChunking(rng, chunkings, mut)
		m.readStream(cci, mut, false, c, r.Rand(29, idx, 5, k))
		if fwerr == nil && k%3 == 0 {
			fm := append([]byte{0, 0}, mut...)
			if rng.Intn(4) == 0 {
				fm[rng.Intn(2)] = byte(rng.Intn(256))
			}
			m.readFrame(cci, fm, c, r.Rand(29, idx, 6, k), -1, nil)
		}
	}
	r.Count("mutations", nflip)
}

// selfCheckModel: serial, nothing else running; the private copy is taken
// immediately after each write call. A difference here can only be the
// monitor's model of the format (or a writer that is wrong on its own).
func (m *mon) selfCheckModel() bool {
	r := m.r
	lists := [][][]byte{nil, {[]byte("a")}, {nil, {1, 2, 3}, {}}, {bytes.Repeat([]byte{0xff}, 300), []byte("xyz")}}
	for i, l := range lists {
		ret, err := util.NewLengthedBytesSlice(l)
		snap := append([]byte{}, ret...)
		var wb bytes.Buffer
		err2 := util.WriteLengthedSlice(&wb, l)
		fw, fb := util.NewBufferBytesFrameWriter()
		err3 := fw.Header(l...)
		if err3 == nil {
			err3 = fw.Lengthed([]byte("it"))
		}
		fsnap := append([]byte{}, fb.Bytes()...)
		ref := refEncodeList(l)
		fref := refEncodeFrame(frame{Header: l, Items: [][]byte{[]byte("it")}})
		if err != nil || err2 != nil || err3 != nil || !bytes.Equal(snap, ref) || !bytes.Equal(wb.Bytes(), ref) || !bytes.Equal(fsnap, fref) {
			r.Inconclusive(fmt.Sprintf("serial self-check #%d: reference encoding differs from the real writers right after the call (errs %v %v %v); the monitor's model of the format is wrong", i, err, err2, err3))
			return false
		}
	}
	r.Count("model_selfchecks", len(lists))
	return true
}

type written struct {
	list     [][]byte
	ret      []byte // slice handed out by the writer
	snap     []byte // private copy taken right after the call
	via      string // which writer
	frame    bool
	lengthed []byte
}

func deepCopy(m [][]byte) [][]byte {
	c := make([][]byte, len(m))
	for i := range m {
		c[i] = append([]byte{}, m[i]...)
	}
	return c
}

// stabilityRound: several writes in a row before anything is read back; then
// every handed-out slice must still be what it was and read back to its own
// list through every reader; what the readers handed out must not change by
// later reads either.
func (m *mon) stabilityRound(round int, phase string) {
	r := m.r
	rng := r.Rand(29, 5000, round)
	k := 2 + rng.Intn(4)
	var ws []written
	size := rng.Intn(3)
	kind0 := rng.Intn(2)
	for i := 0; i < k; i++ {
		var list [][]byte
		switch size {
		case 0: // same shape every time: a reused buffer fits exactly
			list = genList(r.Rand(29, 5001, round), kind0)
			for j := range list {
				if len(list[j]) > 0 {
					list[j] = append([]byte{}, list[j]...)
					list[j][0] = byte(i)
				}
			}
			if len(list) == 0 {
				list = [][]byte{{byte(i)}}
			}
		default:
			list = genList(rng, rng.Intn(2))
			if len(list) == 0 {
				list = [][]byte{{byte(i), 7}}
			}
		}
		switch rng.Intn(3) {
		case 0, 1:
			ret, err := util.NewLengthedBytesSlice(list)
			if err != nil {
				continue
			}
			ws = append(ws, written{list: list, ret: ret, snap: append([]byte{}, ret...), via: "NewLengthedBytesSlice"})
			if rng.Intn(2) == 0 {
				var wb bytes.Buffer
				if err := util.WriteLengthedSlice(&wb, list); err == nil {
					ws = append(ws, written{list: list, ret: wb.Bytes(), snap: append([]byte{}, wb.Bytes()...), via: "WriteLengthedSlice"})
				}
			}
		default:
			fw, fb := util.NewBufferBytesFrameWriter()
			it := genItem(rng, 40)
			if err := fw.Header(list...); err != nil {
				continue
			}
			if err := fw.Lengthed(it); err != nil {
				continue
			}
			ws = append(ws, written{list: list, ret: fb.Bytes(), snap: append([]byte{}, fb.Bytes()...), via: "BytesFrameWriter", frame: true, lengthed: it})
		}
	}
	if len(ws) < 2 {
		r.Eval(1)
		return
	}
	r.Case(fmt.Sprintf("stab/%s/%d/%d", phase, round, len(ws)))
	r.Count("interleaved_writes_"+phase, len(ws))

	type held struct {
		fn   string
		got  [][]byte
		copy [][]byte
		w    int
	}
	var helds []held
	for wi, w := range ws {
		ci := info("interleaved-"+phase+"-"+w.via, w.list, w.snap)
		ci.Mutation = fmt.Sprintf("write #%d of %d in a row, read back after all of them", wi+1, len(ws))
		var ref []byte
		if w.frame {
			ref = refEncodeFrame(frame{Header: w.list, Items: [][]byte{w.lengthed}})
		} else {
			ref = refEncodeList(w.list)
		}
		if !bytes.Equal(w.snap, ref) {
			ci.Head = head(w.snap)
			r.Violation(w.via+":returned-encoding-is-not-the-list-written", fmt.Sprintf("%s: the bytes copied right after the call are not the encoding of the list written (format model validated serially before)", w.via), ci)
			continue
		}
		if !bytes.Equal(w.ret, w.snap) {
			ci.Got, ci.Want = head(w.ret), head(w.snap)
			r.Violation(w.via+":returned-encoding-changed-after-later-calls",
				fmt.Sprintf("%s: the slice handed out for write #%d of %d no longer holds what it held right after the call", w.via, wi+1, len(ws)), ci)
			// keep going: the read back shows the consequence
		}
		// read the handed-out slice itself, as its owner would
		bad := func(fn string, got [][]byte, err error) {
			ci.Got, ci.Want = descList(got, err), descList(w.list, nil)
			ci.Head = head(w.ret)
			r.Violation(fn+":earlier-written-list-reads-back-different-after-later-writes",
				fmt.Sprintf("%s of the list written by %s as #%d of %d writes in a row: %s, written %s", fn, w.via, wi+1, len(ws), ci.Got, ci.Want), ci)
		}
		r.Guard("stability-readback", ci, func() {
			if !w.frame {
				got, _, err := util.ReadLengthedBytesSlice(w.ret)
				if err != nil || !sameList(got, w.list) {
					bad("ReadLengthedBytesSlice", got, err)
					return
				}
				helds = append(helds, held{"ReadLengthedBytesSlice", got, deepCopy(got), wi})
				c := allChunkings[rng.Intn(len(allChunkings))]
				_, got2, err := util.ReadLengthedSlice(&chunkReader{data: w.ret, c: c, rng: rng})
				if err != nil || !sameList(got2, w.list) {
					bad("ReadLengthedSlice", got2, err)
					return
				}
				helds = append(helds, held{"ReadLengthedSlice", got2, deepCopy(got2), wi})
			} else {
				c := allChunkings[rng.Intn(len(allChunkings))]
				fr, err := util.NewBytesFrameReader(&chunkReader{data: w.ret, c: c, rng: rng})
				if err != nil {
					bad("NewBytesFrameReader", nil, err)
					return
				}
				hdr, err := fr.Header()
				if err != nil || !sameList(hdr, w.list) {
					bad("BytesFrameReader.Header", hdr, err)
					return
				}
				var item []byte
				err = fr.Lengthed(func(b []byte) error { item = b; return nil })
				if err != nil || !bytes.Equal(item, w.lengthed) {
					bad("BytesFrameReader.Lengthed", [][]byte{item}, err)
					return
				}
				hdr = append(hdr, item)
				helds = append(helds, held{"BytesFrameReader", hdr, deepCopy(hdr), wi})
			}
			r.Count("interleaved_read_back_ok", 1)
		})
	}
	// what the readers handed out must have survived the later reads
	for _, h := range helds {
		r.Count("reader_results_rechecked", 1)
		if !sameList(h.got, h.copy) {
			ci := info("interleaved-"+phase, ws[h.w].list, ws[h.w].snap)
			ci.Got, ci.Want = descList(h.got, nil), descList(h.copy, nil)
			r.Violation(h.fn+":returned-items-changed-after-later-reads", fmt.Sprintf("items returned by %s changed while other inputs were read", h.fn), ci)
		}
	}
}

func TestC29(t *testing.T) {
	r := vlib.Start(t, "C29", vlib.LevelExploration)
	defer r.Finish()
	r.SetRule("case = one PRNG list of byte strings written by the real NewLengthedBytesSlice/WriteLengthedSlice/BytesFrameWriter and read back by ReadLengthedBytesSlice (buffer, with and without tail), ReadLengthedSlice and BytesFrameReader (Header, Lengthed, Body) over 11 chunkings (whole, 1, 2, 7, random, (n,EOF) together, (0,nil) reads); plus every strict prefix (<=300 bytes; sampled above), byte flips and replaced length prefixes (0, +-1, 32767, 32768, 2^31, 2^63, 2^64-1 ...) judged against an independent strict decoder of exactly the bytes given. plus rounds of 2..5 writes in a row (serial and from 2..4 goroutines) whose handed-out slices are re-compared and read back only afterwards. distinct = (item count, hash of item lengths[, cut position | mutation]) or (phase, round); non-trivial = list not empty")
	r.Assume("a read error is accepted for well-formed hostile input only beyond the readers' documented limits (count > 32767, item > 2^31-1); for lists the real writer produced no error is accepted")
	r.Assume("a write that returns an error wrote nothing that must read back")
	r.Assume("the byte slice a writer hands out belongs to the caller: it must still hold the list after any number of later writes and reads, also from other goroutines; the format model is compared with the real writers serially, on a copy taken right after the call, before anything else runs")
	r.Assume("raw Body bytes are not length-prefixed: truncation inside them is not detectable and is not demanded")
	m := &mon{r: r}

	if !m.selfCheckModel() {
		return
	}
	// several writes in a row before any read back: serial, then from 2..4 goroutines
	nStab := r.N(400, 6000)
	for i := 0; i < nStab; i++ {
		m.stabilityRound(i, "serial")
	}
	for _, workers := range []int{2, 3, 4} {
		w := workers
		vlib.Parallel(nStab/2, w, func(i int) {
			r.Guard("stabilityRound", i, func() { m.stabilityRound(100000*w+i, fmt.Sprintf("goroutines%d", w)) })
		})
	}

	type job struct {
		idx   int
		via   string
		list  [][]byte
		light bool
	}
	var jobs []job
	add := func(via string, l [][]byte, light bool) { jobs = append(jobs, job{len(jobs), via, l, light}) }

	// directed
	add("directed-empty", nil, false)
	add("directed-empty-items", [][]byte{nil, {}, nil}, false)
	add("directed-one", [][]byte{[]byte("a")}, false)
	add("directed-prefix-like-items", [][]byte{{0, 0, 0, 0, 0, 0, 0, 1}, {0xff, 0xff, 0xff, 0xff, 0xff, 0xff, 0xff, 0xff}, {0, 0, 0, 0, 0, 0, 0, 0}}, false)

	n0, n1, n2, n3 := r.N(120, 1500), r.N(80, 800), r.N(12, 100), r.N(8, 40)
	for i := 0; i < n0+n1+n2+n3; i++ {
		kind := 0
		switch {
		case i < n0:
		case i < n0+n1:
			kind = 1
		case i < n0+n1+n2:
			kind = 2
		default:
			kind = 3
		}
		add(fmt.Sprintf("random-kind%d", kind), genList(r.Rand(29, 1000, i), kind), false)
	}
	// item counts around the readers' limit
	for _, n := range []int{32766, 32767, 32768, 40000} {
		rng := r.Rand(29, 2000, n)
		l := make([][]byte, n)
		for i := range l {
			l[i] = genItem(rng, 3)
		}
		add(fmt.Sprintf("directed-count-%d", n), l, true)
	}
	r.Set("lists", len(jobs))

	done := r.WithWatchdog(20*time.Minute, "list cases", func() {
		vlib.Parallel(len(jobs), 16, func(i int) {
			j := jobs[i]
			r.Guard("checkList", info(j.via, j.list, nil), func() { m.checkList(j.idx, j.via, j.list, j.light) })
		})
	})
	if !done {
		return
	}
	for _, i := range []int{2, 3, 10, n0 + 5, n0 + n1 + 1, len(jobs) - 1} {
		if i < len(jobs) {
			j := jobs[i]
			r.Sample(info(j.via, j.list, refEncodeList(j.list)))
		}
	}

	// hostile huge prefixes on tiny inputs, run serially (the stream reader allocates the claimed item size)
	r.WithWatchdog(10*time.Minute, "huge prefixes", func() {
		k := 0
		for _, cnt := range []uint64{0, 1, 2, readerMaxCount, readerMaxCount + 1, 1 << 31, 1 << 63, math.MaxUint64} {
			for _, il := range []uint64{0, 5, 6, 1 << 20, readerMaxItem + 1, 1 << 63, math.MaxUint64, math.MaxUint64 - 7} {
				var b []byte
				b = binary.BigEndian.AppendUint64(b, cnt)
				b = binary.BigEndian.AppendUint64(b, il)
				b = append(b, "hello"...)
				ci := caseInfo{Via: "directed-huge-prefix", Mutation: fmt.Sprintf("count=%d item=%d + 5 bytes", cnt, il), Total: len(b)}
				r.Case(fmt.Sprintf("huge/%d/%d", cnt, il))
				m.readBuf(ci, b, false)
				m.readStream(ci, b, false, chunking{Size: []int{0, 1, 7}[k%3]}, r.Rand(29, 3000, k))
				m.readFrame(ci, append([]byte{0, 0}, b...), chunking{Size: []int{0, 7, -1}[k%3]}, r.Rand(29, 3001, k), -1, nil)
				k++
			}
		}
		// a large item length (thorough: the largest the stream reader accepts) claimed by a 21 byte input
		{
			claim := uint64(1 << 26)
			if r.Thorough() {
				claim = readerMaxItem
			}
			var b []byte
			b = binary.BigEndian.AppendUint64(b, 1)
			b = binary.BigEndian.AppendUint64(b, claim)
			b = append(b, "hello"...)
			ci := caseInfo{Via: "directed-huge-prefix", Mutation: fmt.Sprintf("count=1 item=%d + 5 bytes", claim), Total: len(b)}
			r.Case(fmt.Sprintf("huge/1/%d", claim))
			m.readBuf(ci, b, false)
			m.readStream(ci, b, false, chunking{Size: 0}, r.Rand(29, 3002))
			m.readFrame(ci, append([]byte{0, 0}, b...), chunking{Size: 0, EOFData: true}, r.Rand(29, 3003), -1, nil)
			k++
		}
		r.Set("huge_prefix_inputs", k)
	})

	if r.Counter("wellformed_read_back") == 0 || r.Counter("malformed_rejected") == 0 {
		r.Inconclusive("no round trip or no rejection observed")
	}
}
