package c30

import (
	"bytes"
	"context"
	"encoding/hex"
	"encoding/json"
	"errors"
	"fmt"
	"hash/fnv"
	"io"
	"math/rand"
	"os"
	"os/exec"
	"path/filepath"
	"runtime/debug"
	"sort"
	"strconv"
	"strings"
	"sync"
	"testing"
	"time"

	quicstreamheader "github.com/spikeekips/mitum/network/quicstream/header"
	"github.com/spikeekips/mitum/util"
	"github.com/spikeekips/mitum/util/hint"
	"verifharness/vlib"
)

// C30: stream header protocol round-trips for every body kind under any
// chunking; hostile bytes give a well-formed message or an error, never a
// panic.
//
// Part 1 (round trip, in this process): a ClientBroker and a HandlerBroker
// talk over two in-memory one-way pipes whose read side hands the bytes out
// in PRNG-chosen chunks. Part 2 (fuzz): mutated streams are fed to every Read*
// entry point, in child processes (re-exec of this test binary) because
// util.EnsureRead, used by every broker read, runs the reads in helper
// goroutines: a panic there cannot be recovered and would kill the process.
// State between reads: all brokers of a child share one long-lived set of
// encoders (as all connections of a node do); every hostile stream is
// presented 2-4 times in a row to freshly made brokers, and honest exchanges
// must still round trip through the same objects afterwards (the round-trip
// oracle of part 1, run inside the child).

const envChild = "C30_CHILD"

var errWouldBlock = errors.New("c30: reader wants bytes the peer never wrote (a real stream would block here)")

type pipe struct {
	buf    []byte
	closed bool
}

type pipeW struct{ p *pipe }

func (w pipeW) Write(b []byte) (int, error) {
	if w.p.closed {
		return 0, io.ErrClosedPipe
	}
	w.p.buf = append(w.p.buf, b...)
	return len(b), nil
}

func (w pipeW) Close() error { w.p.closed = true; return nil }

// only a Writer (the handler side may be given a plain io.Writer)
type pipeWOnly struct{ p *pipe }

func (w pipeWOnly) Write(b []byte) (int, error) { return pipeW(w).Write(b) }

const (
	chunkOne = iota
	chunkSmall
	chunkEightish
	chunkRand
	chunkBig
	chunkAll
	nChunkModes
)

var chunkNames = []string{"1", "1-3", "7-9", "1-64", "1-8192", "all"}

type chunkReader struct {
	p           *pipe
	pos         int
	rng         *rand.Rand
	mode        int
	eofWithData bool // the last chunk arrives together with io.EOF (allowed by io.Reader; quic streams do it)
	overread    bool
	reads       int
	maxAsk      int // largest buffer the reader asked to fill
}

func (c *chunkReader) Read(b []byte) (int, error) {
	if len(b) == 0 {
		return 0, nil
	}
	c.maxAsk = max(c.maxAsk, len(b))
	avail := len(c.p.buf) - c.pos
	if avail == 0 {
		if c.p.closed {
			return 0, io.EOF
		}
		c.overread = true
		return 0, errWouldBlock
	}
	var n int
	switch c.mode {
	case chunkOne:
		n = 1
	case chunkSmall:
		n = 1 + c.rng.Intn(3)
	case chunkEightish:
		n = 7 + c.rng.Intn(3)
	case chunkRand:
		n = 1 + c.rng.Intn(64)
	case chunkBig:
		n = 1 + c.rng.Intn(8192)
	default:
		n = avail
	}
	n = min(n, len(b), avail)
	copy(b, c.p.buf[c.pos:c.pos+n])
	c.pos += n
	c.reads++
	if c.eofWithData && c.p.closed && c.pos == len(c.p.buf) {
		return n, io.EOF
	}
	return n, nil
}

type bodySpec struct {
	Kind string // empty | fixed | stream
	Data []byte
	Nil  bool // hand a nil reader to WriteBody (legal for empty, and for fixed with length 0)
}

func (b bodySpec) bodyType() quicstreamheader.BodyType {
	switch b.Kind {
	case "empty":
		return quicstreamheader.EmptyBodyType
	case "fixed":
		return quicstreamheader.FixedLengthBodyType
	default:
		return quicstreamheader.StreamBodyType
	}
}

func (b bodySpec) String() string { return fmt.Sprintf("%s(%d)", b.Kind, len(b.Data)) }

func genBodies(rng *rand.Rand, small bool) []bodySpec {
	n := rng.Intn(3)
	var out []bodySpec
	for i := 0; i < n; i++ {
		var k string
		switch x := rng.Intn(10); {
		case x < 2:
			k = "empty"
		case x < 7:
			k = "fixed"
		default:
			k = "stream"
		}
		b := bodySpec{Kind: k}
		if k != "empty" {
			var l int
			sizes := []int{0, 1, 2, 7, 8, 9, 100, 4095, 4096, 65536}
			if small {
				sizes = []int{0, 1, 2, 7, 8, 9, 33, 100}
			}
			if rng.Intn(3) == 0 {
				l = rng.Intn(300)
			} else {
				l = sizes[rng.Intn(len(sizes))]
			}
			b.Data = make([]byte, l)
			rng.Read(b.Data)
		}
		if (k == "empty" || (k == "fixed" && len(b.Data) == 0)) && rng.Intn(2) == 0 {
			b.Nil = true
		}
		out = append(out, b)
		if k == "stream" { // a stream body ends the stream
			break
		}
	}
	return out
}

func writeBodies(broker interface {
	WriteBody(context.Context, quicstreamheader.BodyType, uint64, io.Reader) error
}, bodies []bodySpec,
) error {
	for _, b := range bodies {
		var rd io.Reader
		if !b.Nil {
			rd = bytes.NewReader(b.Data)
		}
		if err := broker.WriteBody(context.Background(), b.bodyType(), uint64(len(b.Data)), rd); err != nil {
			return fmt.Errorf("WriteBody %s: %w", b, err)
		}
	}
	return nil
}

func headerHint(h any) string {
	if hr, ok := h.(hint.Hinter); ok {
		return hr.Hint().String()
	}
	return "?"
}

// ---------------------------------------------------------------- round trip

type rtCase struct {
	Idx        int      `json:"idx"`
	Request    string   `json:"request_header"`
	ReqJSON    string   `json:"request_json"`
	ReqBodies  []string `json:"request_bodies"`
	Response   string   `json:"response_header"`
	ResBodies  []string `json:"response_bodies"`
	ErrInstead bool     `json:"error_head_instead_of_body"`
	ChunkA     string   `json:"chunking_request_stream"`
	ChunkB     string   `json:"chunking_response_stream"`
	EOFData    bool     `json:"last_chunk_with_eof"`
	WriterOnly bool     `json:"handler_writer_not_closer"`
}

// reporter is what a round trip needs from its surroundings: *vlib.Run in the
// parent process, childReporter inside a fuzz child (round trips that follow
// hostile streams through the same long-lived encoders).
type reporter interface {
	Case(fp string)
	Count(k string, n int)
	Sample(v any)
	Violation(sig, what string, witness any)
	Inconclusive(reason string)
	Guard(sigPrefix string, witness any, f func()) bool
}

type rtEnv struct {
	rep      reporter
	prefix   string // signature prefix: "roundtrip" | "roundtrip-after-hostile"
	counters string // counter prefix
	small    bool   // small bodies only
	minChunk int    // smallest chunk mode
	rng      *rand.Rand
	rngA     *rand.Rand // chunking of the request stream
	rngB     *rand.Rand // chunking of the response stream
	after    any        // what came before through the same encoders (witness only)
}

func roundTrip(r *vlib.Run, g *rig, idx int) {
	roundTripWith(rtEnv{
		rep: r, prefix: "roundtrip", counters: "roundtrip_",
		rng: r.Rand(30, 1, idx), rngA: r.Rand(30, 11, idx), rngB: r.Rand(30, 12, idx),
	}, g, idx)
}

func roundTripWith(e rtEnv, g *rig, idx int) {
	r := e.rep
	rng := e.rng
	ctx := context.Background()
	rb := g.req[idx%len(g.req)]
	req, err := rb.f(rng)
	if err != nil {
		r.Inconclusive("build " + rb.name + ": " + err.Error())
		return
	}
	sb := g.res[rng.Intn(len(g.res))]
	res := sb.f(rng)
	reqBodies := genBodies(rng, e.small)
	resBodies := genBodies(rng, e.small)
	errInstead := rng.Intn(6) == 0
	var errHead quicstreamheader.ResponseHeader
	if errInstead {
		errHead = quicstreamheader.NewDefaultResponseHeader(false, errors.New("no body for you"))
		// the error head replaces a body: only possible when the stream is still open
		for len(resBodies) > 0 && resBodies[len(resBodies)-1].Kind == "stream" {
			resBodies = resBodies[:len(resBodies)-1]
		}
	}
	c := rtCase{
		Idx: idx, Request: rb.name, Response: sb.name, ErrInstead: errInstead,
		EOFData: rng.Intn(2) == 0, WriterOnly: rng.Intn(4) == 0,
	}
	ma, mb := e.minChunk+rng.Intn(nChunkModes-e.minChunk), e.minChunk+rng.Intn(nChunkModes-e.minChunk)
	c.ChunkA, c.ChunkB = chunkNames[ma], chunkNames[mb]
	for _, b := range reqBodies {
		c.ReqBodies = append(c.ReqBodies, b.String())
	}
	for _, b := range resBodies {
		c.ResBodies = append(c.ResBodies, b.String())
	}
	reqJSON, err := g.enc.Marshal(req)
	if err != nil {
		r.Inconclusive("marshal " + rb.name + ": " + err.Error())
		return
	}
	c.ReqJSON = string(reqJSON)
	if ierr := req.IsValid(nil); ierr != nil {
		r.Inconclusive("generated header not valid: " + rb.name + ": " + ierr.Error())
		return
	}

	shape := fmt.Sprintf("%s|%v|%s|%v|%v|%s|%s|%v", rb.name, c.ReqBodies, sb.name, c.ResBodies, errInstead, c.ChunkA, c.ChunkB, c.EOFData)
	r.Case(shape)
	r.Count(e.counters+"header_"+rb.name, 1)
	if idx < 3 {
		r.Sample(c)
	}
	var witness any = c
	if e.after != nil {
		witness = map[string]any{"round_trip": c, "read_before_through_the_same_encoders": e.after}
	}
	fail := func(step, kind, what string) {
		r.Violation(fmt.Sprintf("%s:%s:%s:eof-with-data=%v", e.prefix, step, kind, c.EOFData), fmt.Sprintf("round trip %d (%s): %s: %s", idx, rb.name, step, what), witness)
	}

	A, B := &pipe{}, &pipe{}
	ra := &chunkReader{p: A, rng: e.rngA, mode: ma, eofWithData: c.EOFData}
	rbd := &chunkReader{p: B, rng: e.rngB, mode: mb, eofWithData: c.EOFData}

	r.Guard(e.prefix, witness, func() {
		client := quicstreamheader.NewClientBroker(g.encs, g.enc, rbd, pipeW{A})
		var handler *quicstreamheader.HandlerBroker
		if c.WriterOnly {
			handler = quicstreamheader.NewHandlerBroker(g.encs, nil, ra, pipeWOnly{B})
		} else {
			handler = quicstreamheader.NewHandlerBroker(g.encs, nil, ra, pipeW{B})
		}

		// client: request head + bodies
		if err := client.WriteRequestHead(ctx, req); err != nil {
			fail("WriteRequestHead", "error", err.Error())
			return
		}
		if err := writeBodies(client, reqBodies); err != nil {
			fail("WriteBody(request)", "error", err.Error())
			return
		}
		lastStream := len(reqBodies) > 0 && reqBodies[len(reqBodies)-1].Kind == "stream"
		if lastStream != A.closed {
			fail("WriteBody(request)", "stream-body-close", fmt.Sprintf("writer closed=%v after bodies %v", A.closed, c.ReqBodies))
			return
		}
		if !A.closed {
			// the client is done writing once it starts to read (half close)
			if rng.Intn(2) == 0 {
				_ = client.Close()
			}
		}

		// server: prefix (done by quicstream before the header handler), head, bodies
		prefix := make([]byte, len(req.Handler()))
		if _, err := io.ReadFull(ra, prefix); err != nil && !(errors.Is(err, io.EOF)) {
			fail("read-prefix", "error", err.Error())
			return
		}
		if want := req.Handler(); !bytes.Equal(prefix, want[:]) {
			fail("read-prefix", "differs", fmt.Sprintf("got %x want %x", prefix, want[:]))
			return
		}
		got, err := handler.ReadRequestHead(ctx)
		if err != nil {
			fail("ReadRequestHead", "error", err.Error())
			return
		}
		if got == nil {
			fail("ReadRequestHead", "nil-header", "no error and nil header")
			return
		}
		gotJSON, err := g.enc.Marshal(got)
		if err != nil {
			fail("ReadRequestHead", "remarshal-error", err.Error())
			return
		}
		if headerHint(got) != headerHint(req) || !bytes.Equal(gotJSON, reqJSON) {
			fail("ReadRequestHead", "header-differs", fmt.Sprintf("sent %s %s, read %s %s", headerHint(req), reqJSON, headerHint(got), gotJSON))
			return
		}
		r.Count(e.counters+"request_heads", 1)
		if !readBodies(r, e.counters, "request", handler, reqBodies, fail) {
			return
		}
		if ra.overread {
			fail("handler-reads", "over-read", "handler side asked for more bytes than the client wrote")
			return
		}
		if ra.pos != len(A.buf) {
			fail("handler-reads", "under-read", fmt.Sprintf("%d of %d request stream bytes consumed", ra.pos, len(A.buf)))
			return
		}

		// server: response head (+ bodies, or an error head in place of a body)
		if err := handler.WriteResponseHead(ctx, res); err != nil {
			fail("WriteResponseHead", "error", err.Error())
			return
		}
		if err := writeBodies(handler, resBodies); err != nil {
			fail("WriteBody(response)", "error", err.Error())
			return
		}
		if errInstead {
			if err := handler.WriteResponseHead(ctx, errHead); err != nil {
				fail("WriteResponseHead(second)", "error", err.Error())
				return
			}
		}
		lastStream = len(resBodies) > 0 && resBodies[len(resBodies)-1].Kind == "stream"
		if !c.WriterOnly && lastStream != B.closed {
			fail("WriteBody(response)", "stream-body-close", fmt.Sprintf("writer closed=%v after bodies %v", B.closed, c.ResBodies))
			return
		}
		if !B.closed {
			// the handler returns: quicstream closes the stream
			_ = handler.Close()
			B.closed = true
		}

		// client: response head, bodies
		renc, gres, err := client.ReadResponseHead(ctx)
		if err != nil {
			fail("ReadResponseHead", "error", err.Error())
			return
		}
		if gres == nil || renc == nil {
			fail("ReadResponseHead", "nil-header", "no error and nil header or encoder")
			return
		}
		if msg := sameResponse(g, res, gres); msg != "" {
			fail("ReadResponseHead", "header-differs", msg)
			return
		}
		r.Count(e.counters+"response_heads", 1)
		if !readBodies(r, e.counters, "response", client, resBodies, fail) {
			return
		}
		if errInstead {
			bt, bl, body, enc2, res2, err := client.ReadBody(ctx)
			switch {
			case err != nil:
				fail("ReadBody(error-head)", "error", err.Error())
				return
			case res2 == nil || enc2 == nil:
				fail("ReadBody(error-head)", "no-response-header", fmt.Sprintf("bodyType=%v len=%d body=%v", bt, bl, body))
				return
			}
			if msg := sameResponse(g, errHead, res2); msg != "" {
				fail("ReadBody(error-head)", "header-differs", msg)
				return
			}
			r.Count(e.counters+"error_head_in_place_of_body", 1)
		}
		if rbd.overread {
			fail("client-reads", "over-read", "client side asked for more bytes than the handler wrote")
			return
		}
		if rbd.pos != len(B.buf) {
			fail("client-reads", "under-read", fmt.Sprintf("%d of %d response stream bytes consumed", rbd.pos, len(B.buf)))
			return
		}
		r.Count(e.counters+"stream_bytes", len(A.buf)+len(B.buf))
		r.Count(e.counters+"reader_chunks", ra.reads+rbd.reads)
	})
}

func sameResponse(g *rig, want, got quicstreamheader.ResponseHeader) string {
	wj, err := g.enc.Marshal(want)
	if err != nil {
		return "marshal sent: " + err.Error()
	}
	gj, err := g.enc.Marshal(got)
	if err != nil {
		return "marshal read: " + err.Error()
	}
	es := func(e error) string {
		if e == nil {
			return "<nil>"
		}
		return e.Error()
	}
	if headerHint(want) != headerHint(got) || !bytes.Equal(wj, gj) || want.OK() != got.OK() || es(want.Err()) != es(got.Err()) {
		return fmt.Sprintf("sent %s %s ok=%v err=%s; read %s %s ok=%v err=%s", headerHint(want), wj, want.OK(), es(want.Err()), headerHint(got), gj, got.OK(), es(got.Err()))
	}
	return ""
}

func readBodies(r reporter, counters, side string, broker quicstreamheader.ReadBodyBroker, bodies []bodySpec, fail func(step, kind, what string)) bool {
	for i, b := range bodies {
		step := fmt.Sprintf("ReadBody(%s,%s)", side, b.Kind)
		bt, bl, body, _, res, err := broker.ReadBody(context.Background())
		switch {
		case err != nil:
			fail(step, "error", fmt.Sprintf("body #%d %s: %v", i, b, err))
			return false
		case res != nil:
			fail(step, "unexpected-response-header", fmt.Sprintf("body #%d %s", i, b))
			return false
		case bt != b.bodyType():
			fail(step, "body-type-differs", fmt.Sprintf("body #%d %s: got type %v", i, b, bt))
			return false
		}
		var data []byte
		if body != nil {
			var rerr error
			data, rerr = io.ReadAll(body)
			if rerr != nil {
				fail(step, "body-read-error", fmt.Sprintf("body #%d %s: %v", i, b, rerr))
				return false
			}
		}
		switch b.Kind {
		case "empty":
			if bl != 0 || len(data) != 0 {
				fail(step, "empty-body-not-empty", fmt.Sprintf("length=%d read %d bytes", bl, len(data)))
				return false
			}
		case "fixed":
			if bl != uint64(len(b.Data)) {
				fail(step, "length-differs", fmt.Sprintf("sent %d got %d", len(b.Data), bl))
				return false
			}
			fallthrough
		default:
			if body == nil {
				fail(step, "nil-body-reader", b.String())
				return false
			}
			if !bytes.Equal(data, b.Data) {
				fail(step, "content-differs", fmt.Sprintf("sent %d bytes, read %d bytes, first difference at %d", len(b.Data), len(data), firstDiff(data, b.Data)))
				return false
			}
		}
		r.Count(counters+"bodies_"+b.Kind, 1)
	}
	return true
}

func firstDiff(a, b []byte) int {
	for i := 0; i < len(a) && i < len(b); i++ {
		if a[i] != b[i] {
			return i
		}
	}
	return min(len(a), len(b))
}

// ---------------------------------------------------------------------- fuzz

type part struct {
	Kind string
	B    []byte
}

func headParts(dt quicstreamheader.DataType, encHint, js []byte) []part {
	return []part{
		{"datatype", []byte{dt[0]}},
		{"enchint-len", util.Uint64ToBytes(uint64(len(encHint)))},
		{"enchint", encHint},
		{"header-len", util.Uint64ToBytes(uint64(len(js)))},
		{"header", js},
	}
}

func bodyParts(b bodySpec) []part {
	ps := []part{{"datatype", []byte{quicstreamheader.BodyDataType[0]}}, {"bodytype", []byte{b.bodyType()[0]}}}
	if b.Kind == "fixed" {
		ps = append(ps, part{"bodylen", util.Uint64ToBytes(uint64(len(b.Data)))})
	}
	if b.Kind != "empty" {
		ps = append(ps, part{"body", b.Data})
	}
	return ps
}

func join(ps []part) []byte {
	var o []byte
	for _, p := range ps {
		o = append(o, p.B...)
	}
	return o
}

var mutKinds = []string{
	"none", "datatype", "bodytype", "length", "truncate", "truncate-open", "enchint", "header-json", "json-field",
	"registered-hint", "bitflip", "garbage", "insert", "swap-side", "deep-json",
	"enchint-key", "hint-key",
}

type fuzzCase struct {
	Idx      int    `json:"idx"`
	Side     string `json:"stream"` // request | response
	Header   string `json:"header"`
	Bodies   string `json:"bodies"`
	Mutation string `json:"mutation"`
	Detail   string `json:"detail"`
	Reader   string `json:"read_calls"`
	Chunk    string `json:"chunking"`
	EOFData  bool   `json:"last_chunk_with_eof"`
	Closed   bool   `json:"peer_closed"`
	Len      int    `json:"stream_len"`
	Head     string `json:"stream_hex_head"`

	Key     *keyChoice `json:"lookup_key_variant,omitempty"`
	KeyAt   string     `json:"lookup_key_at,omitempty"`
	Present int        `json:"presentations"`       // how often the stream is read, each time by a fresh broker over the same encoders
	Orders  []string   `json:"presentation_orders"` // read calls of each presentation
	Honest  bool       `json:"honest_round_trip_follows"`
	Redrawn int        `json:"redrawn_because_of_huge_announced_length,omitempty"`

	stream   []byte
	variant  int
	variants []int // per presentation
	mode     int
	bodies   []bodySpec
	valid    bool
	costly   bool // announces a huge length or a very deep document: presented once

	// state of the presentations (child only)
	maxAsk        int // largest read buffer the broker asked the stream to fill
	pres          int
	step          int             // guarded calls of this presentation so far
	lastCall      string          // key (function@step) of the guarded call entered last
	reachedNow    map[string]bool // guarded calls of this presentation
	reachedBefore map[string]bool // guarded calls of the earlier presentations of these bytes
	dirty         map[string]bool // call:failure reported without the repeat mark
}

var specialLens = []uint64{0, 1, 2, 7, 8, 1 << 16, 1 << 20, 1 << 31, 1 << 32, 1<<63 - 1, 1 << 63, 1<<64 - 1}

func genFuzz(r *vlib.Run, g *rig, idx int) (*fuzzCase, error) {
	rng := r.Rand(30, 2, idx)
	fc := &fuzzCase{Idx: idx, Closed: true}
	side := idx % 2
	mut := mutKinds[(idx/2)%len(mutKinds)]
	fc.Mutation = mut
	var ps []part
	bodies := genBodies(rng, true)
	var js []byte
	var otherJS []byte
	rb := g.req[(idx/2/len(mutKinds))%len(g.req)]
	req, err := rb.f(rng)
	if err != nil {
		return nil, err
	}
	reqJS, err := g.enc.Marshal(req)
	if err != nil {
		return nil, err
	}
	sb := g.res[rng.Intn(len(g.res))]
	resJS, err := g.enc.Marshal(sb.f(rng))
	if err != nil {
		return nil, err
	}
	if side == 0 {
		fc.Side, fc.Header, js, otherJS = "request", rb.name, reqJS, resJS
		ps = headParts(quicstreamheader.RequestHeaderDataType, g.enc.Hint().Bytes(), js)
	} else {
		fc.Side, fc.Header, js, otherJS = "response", sb.name, resJS, reqJS
		ps = headParts(quicstreamheader.ResponseHeaderDataType, g.enc.Hint().Bytes(), js)
	}
	for _, b := range bodies {
		ps = append(ps, bodyParts(b)...)
	}
	fc.bodies = bodies
	var bs []string
	for _, b := range bodies {
		bs = append(bs, b.String())
	}
	fc.Bodies = strings.Join(bs, ",")

	pick := func(kinds ...string) int { // index of a random part of one of the kinds, -1 if none
		var c []int
		for i, p := range ps {
			for _, k := range kinds {
				if p.Kind == k {
					c = append(c, i)
				}
			}
		}
		if len(c) == 0 {
			return -1
		}
		return c[rng.Intn(len(c))]
	}
	setHeader := func(b []byte, fixLen bool) {
		ps[4].B = b
		if fixLen {
			ps[3].B = util.Uint64ToBytes(uint64(len(b)))
		}
	}

	fc.valid = false
	bigLen := false
	switch mut {
	case "none":
		fc.valid = true
	case "datatype":
		i := pick("datatype")
		v := []byte{0x00, 0x01, 0x02, 0x03, 0x04, 0x7f, 0xff}[rng.Intn(7)]
		fc.Detail = fmt.Sprintf("part %d datatype %#x -> %#x", i, ps[i].B[0], v)
		ps[i].B = []byte{v}
	case "bodytype":
		i := pick("bodytype")
		if i < 0 {
			b := bodySpec{Kind: "fixed", Data: []byte("abc")}
			ps = append(ps, bodyParts(b)...)
			i = pick("bodytype")
		}
		v := []byte{0x00, 0x01, 0x02, 0x03, 0x04, 0x7f, 0xff}[rng.Intn(7)]
		fc.Detail = fmt.Sprintf("part %d bodytype %#x -> %#x", i, ps[i].B[0], v)
		ps[i].B = []byte{v}
	case "length":
		i := pick("enchint-len", "header-len", "bodylen")
		old, _ := util.BytesToUint64(ps[i].B)
		var v uint64
		switch x := rng.Intn(10); {
		case x < 2:
			v = old - 1
		case x < 4:
			v = old + 1
		case x < 5:
			v = old + uint64(rng.Intn(200))
		default:
			v = specialLens[rng.Intn(len(specialLens))]
		}
		if idx%1999 == (2*3)%1999 && ps[i].Kind != "bodylen" { // a few cases at the largest accepted size (2 GiB buffers)
			v = 1<<31 - 1
		}
		fc.Detail = fmt.Sprintf("part %d %s %d -> %d", i, ps[i].Kind, old, v)
		bigLen = v > 1<<16
		ps[i].B = util.Uint64ToBytes(v)
	case "truncate", "truncate-open":
		all := join(ps)
		cut := rng.Intn(len(all))
		if rng.Intn(3) == 0 { // at a part boundary
			k := rng.Intn(len(ps))
			cut = len(join(ps[:k]))
		}
		fc.Detail = fmt.Sprintf("cut at %d of %d", cut, len(all))
		ps = []part{{"raw", all[:cut]}}
		fc.Closed = mut == "truncate"
	case "enchint":
		full := g.enc.Hint().String()
		opts := [][]byte{
			[]byte(full[:rng.Intn(len(full))]), []byte("json-v9.9.9"), []byte("json"), []byte("json-v"), []byte("bson-v2.0.0"),
			{}, []byte(strings.Repeat("j", 1+rng.Intn(5000))), {0x00, 0xff, 0xfe}, []byte("json-v2.0.1"), []byte("json-v0.0.1"), []byte(" " + full), []byte(full + "\x00"),
		}
		v := opts[rng.Intn(len(opts))]
		fc.Detail = fmt.Sprintf("encoder hint %q", trunc(string(v), 60))
		ps[2].B = v
		ps[1].B = util.Uint64ToBytes(uint64(len(v)))
	case "header-json":
		opts := [][]byte{
			[]byte("null"), []byte("{}"), []byte("[]"), []byte(`""`), []byte("0"), []byte(" "), {}, otherJS,
			[]byte(`{"_hint":"no-such-type-v0.0.1"}`), []byte(`{"_hint":17}`), []byte(`{"_hint":null}`), []byte(`{"_hint":"` + headerHintFromJSON(js) + `"}`),
			js[:rng.Intn(len(js))], append(append([]byte{}, js...), []byte("garbage")...), []byte(`{"_hint":"` + strings.Repeat("a", 3000) + `-v0.0.1"}`),
			[]byte(`{"_hint":"-v0.0.1"}`), []byte(`{"_hint":"a-v1"}`), []byte("true"), []byte(`{"_hint":"sas-v2","address":"x"}`),
		}
		k := rng.Intn(len(opts))
		fc.Detail = fmt.Sprintf("header bytes #%d %q", k, trunc(string(opts[k]), 100))
		setHeader(opts[k], true)
	case "json-field":
		var m map[string]json.RawMessage
		if err := json.Unmarshal(js, &m); err != nil {
			return nil, err
		}
		keys := make([]string, 0, len(m))
		for k := range m {
			keys = append(keys, k)
		}
		sort.Strings(keys)
		k := keys[rng.Intn(len(keys))]
		repl := []string{"", "null", "0", "-1", `""`, `"x"`, "[]", "{}", "true", `"` + strings.Repeat("z", 6000) + `"`, "1e400", `[null]`, `{"a":null}`, "18446744073709551616"}
		v := repl[rng.Intn(len(repl))]
		if v == "" {
			delete(m, k)
			fc.Detail = "drop field " + k
		} else {
			m[k] = json.RawMessage(v)
			fc.Detail = fmt.Sprintf("field %s := %s", k, trunc(v, 40))
		}
		nb, err := json.Marshal(m)
		if err != nil {
			return nil, err
		}
		setHeader(nb, true)
	case "registered-hint":
		hs := hinters
		h := hs[(idx/2/len(mutKinds))%len(hs)].Hint.String()
		bodiesJS := []string{`{"_hint":"` + h + `"}`, `{"_hint":"` + h + `","ok":true,"error":"e","hash":"x","height":-5,"node":null,"signs":[null],"fact":{},"manifest":null,"item":{},"items":{"a":null}}`}
		v := bodiesJS[rng.Intn(len(bodiesJS))]
		fc.Detail = "header bytes of registered type " + h + " form " + strconv.Itoa(len(v))
		setHeader([]byte(v), true)
	case "bitflip":
		all := join(ps)
		// offsets of the byte of each length field that holds bits 24..31: a flip
		// there announces up to 2 GiB, which only costs allocation time here (the
		// "length" mutation covers such values with a bounded number of cases)
		costly := map[int]bool{}
		off := 0
		for _, p := range ps {
			if strings.HasSuffix(p.Kind, "-len") {
				costly[off+4] = true
			}
			off += len(p.B)
		}
		n := 1 + rng.Intn(3)
		var d []string
		for i := 0; i < n; i++ {
			p, bit := rng.Intn(len(all)), rng.Intn(8)
			if costly[p] {
				p++
			}
			all[p] ^= 1 << bit
			d = append(d, fmt.Sprintf("%d.%d", p, bit))
		}
		fc.Detail = "flip " + strings.Join(d, ",")
		ps = []part{{"raw", all}}
	case "garbage":
		n := rng.Intn(200)
		b := make([]byte, n)
		rng.Read(b)
		if n > 0 && rng.Intn(2) == 0 {
			b[0] = byte(1 + rng.Intn(3)) // a valid data type first
		}
		fc.Detail = fmt.Sprintf("%d random bytes", n)
		ps = []part{{"raw", b}}
		fc.Closed = rng.Intn(4) > 0
	case "insert":
		orig := join(ps)
		var all []byte
		for try := 0; ; try++ {
			p := rng.Intn(len(orig) + 1)
			ins := make([]byte, 1+rng.Intn(9))
			rng.Read(ins)
			fc.Detail = fmt.Sprintf("insert %d bytes at %d", len(ins), p)
			all = append(orig[:p:p], append(ins, orig[p:]...)...)
			// bytes pushed into a length field can announce up to 2 GiB, which the
			// reader allocates (more than once): that only costs time, and the
			// "length" mutation covers such sizes with a bounded number of cases.
			// The quick tier draws again.
			if !r.Quick() || try >= 8 || !announcesHugeHead(all) {
				break
			}
			fc.Redrawn++
		}
		ps = []part{{"raw", all}}
	case "swap-side":
		fc.Detail = "stream of the other direction"
		if side == 0 {
			ps = headParts(quicstreamheader.ResponseHeaderDataType, g.enc.Hint().Bytes(), resJS)
		} else {
			ps = headParts(quicstreamheader.RequestHeaderDataType, g.enc.Hint().Bytes(), reqJS)
		}
	case "deep-json":
		depth := []int{100, 2000, 10000}[rng.Intn(3)]
		if (idx/(2*len(mutKinds)))%100 == 3 { // expensive to parse: a few only
			depth = 200000
		}
		open, cl := "[", "]"
		if rng.Intn(2) == 0 {
			open, cl = `{"_hint":`, "}"
		}
		v := strings.Repeat(open, depth)
		if rng.Intn(2) == 0 {
			v += "0" + strings.Repeat(cl, depth)
		}
		fc.Detail = fmt.Sprintf("nesting %q x %d", open, depth)
		fc.costly = depth > 10000
		setHeader([]byte(v), true)
	case "enchint-key":
		// the same key is sent in the request stream (case 2m) and in the response stream (case 2m+1)
		kc := keyVariant(r.Rand(30, 6, idx/2), g.enc.Hint().String(), registeredTypes())
		fc.Key, fc.KeyAt = &kc, "encoder-hint"
		fc.Detail = fmt.Sprintf("encoder hint %q (%s)", trunc(kc.Key, 80), kc.label())
		ps[2].B = []byte(kc.Key)
		ps[1].B = util.Uint64ToBytes(uint64(len(kc.Key)))
	case "hint-key":
		nb, kc, where, err := mutateJSONKey(rng, js, registeredTypes())
		if err != nil {
			return nil, err
		}
		fc.Key, fc.KeyAt = &kc, "header"+where
		fc.Detail = fmt.Sprintf("header%s := %q (%s)", where, trunc(kc.Key, 80), kc.label())
		setHeader(nb, true)
	}
	fc.costly = fc.costly || bigLen

	fc.stream = join(ps)
	fc.Len = len(fc.stream)
	fc.Head = hex.EncodeToString(fc.stream[:min(len(fc.stream), 96)])
	fc.mode = rng.Intn(nChunkModes)
	if fc.Len > 20000 && fc.mode < chunkBig {
		fc.mode = chunkBig
	}
	// util.EnsureRead allocates a buffer of the whole announced length for
	// every chunk it receives: where the mutation can announce a huge length,
	// small chunks only make the case slow (allocation), they reach no other code
	if bigLen || mut == "bitflip" || mut == "garbage" || mut == "insert" {
		fc.mode = chunkBig + rng.Intn(2)
	}
	fc.Chunk = chunkNames[fc.mode]
	fc.EOFData = rng.Intn(2) == 0
	if fc.valid {
		fc.variant = 0
	} else {
		fc.variant = rng.Intn(4)
	}
	fc.Reader = readOrders[side][fc.variant]
	// presentations: the same bytes are read 2-4 times, each time by a freshly
	// made broker that shares the long-lived encoders with all the others; the
	// second repeats the first exactly, later ones may use another call order
	prng := r.Rand(30, 7, idx)
	fc.Present = 2 + prng.Intn(3)
	if fc.costly {
		fc.Present = 1
	}
	for p := 0; p < fc.Present; p++ {
		v := fc.variant
		switch {
		case fc.valid:
		case p == 2:
			v = (fc.variant + 1 + prng.Intn(3)) % 4
		case p == 3:
			v = fc.variants[2]
		}
		fc.variants = append(fc.variants, v)
		fc.Orders = append(fc.Orders, readOrders[side][v])
	}
	fc.Honest = prng.Intn(2) == 0
	return fc, nil
}

var readOrders = [2][]string{
	{"ReadRequestHead,ReadBody*", "ReadRequestHead,ReadBody*", "ReadBody*", "ReadRequestHead,ReadBodyErr*"},
	{"ReadResponseHead,ReadBody*", "ReadBody*", "ReadBodyErr*", "ReadResponseHead,ReadBodyErr*"},
}

var (
	registeredTypesOnce sync.Once
	registeredTypesList []string
)

func registeredTypes() []string {
	registeredTypesOnce.Do(func() {
		for i := range hinters {
			registeredTypesList = append(registeredTypesList, hinters[i].Hint.Type().String())
		}
	})
	return registeredTypesList
}

// announcesHugeHead: would reading b as a head make the reader allocate more
// than 16 MiB for the encoder hint or the header bytes?
func announcesHugeHead(b []byte) bool {
	off := uint64(1)
	for i := 0; i < 2; i++ {
		if uint64(len(b)) < off+8 {
			return false
		}
		l, err := util.BytesToUint64(b[off : off+8])
		switch {
		case err != nil, l > 1<<31-1: // over the limit: refused before any allocation
			return false
		case l > 1<<24:
			return true
		}
		off += 8 + l
	}
	return false
}

func headerHintFromJSON(js []byte) string {
	var h struct {
		H string `json:"_hint"`
	}
	_ = json.Unmarshal(js, &h)
	return h.H
}

func trunc(s string, n int) string {
	if len(s) > n {
		return s[:n] + "…"
	}
	return s
}

type childViolation struct {
	Sig     string `json:"sig"`
	What    string `json:"what"`
	Witness any    `json:"witness"`
}

type childResult struct {
	Lo, Hi     int
	Counters   map[string]int
	Distinct   []string
	Violations []childViolation
	Problems   []string // harness problems => inconclusive
	Samples    []any

	last []string
}

const repeatMark = "repeat-read-same-encoders"

// A failure in a repeated presentation gets its own signature when an earlier
// presentation of the same bytes went through the same call (same function,
// same position in the sequence of calls) clean: then it is what an earlier
// read left behind in the shared objects that broke this one. A call that sees
// these bytes for the first time (another call order) or that failed before
// in the same way keeps the plain signature.
func (cr *childResult) enter(fc *fuzzCase, fn string) string {
	fc.step++
	k := fn + "@" + strconv.Itoa(fc.step)
	if fc.reachedNow == nil {
		fc.reachedNow = map[string]bool{}
	}
	fc.reachedNow[k] = true
	fc.lastCall = k
	return k
}

// call: key of the guarded call; failure: what went wrong in it
func (cr *childResult) repeatOnly(fc *fuzzCase, call, failure string) bool {
	if fc.dirty == nil {
		fc.dirty = map[string]bool{}
	}
	k := call + ":" + failure
	mark := fc.pres > 0 && fc.reachedBefore[call] && !fc.dirty[k]
	if !mark {
		fc.dirty[k] = true
	}
	return mark
}

// startPresentation p of fc
func (fc *fuzzCase) startPresentation(p int) {
	if fc.reachedBefore == nil {
		fc.reachedBefore = map[string]bool{}
	}
	for k := range fc.reachedNow {
		fc.reachedBefore[k] = true
	}
	fc.reachedNow, fc.step, fc.pres = nil, 0, p
}

func presWhat(fc *fuzzCase) string {
	if fc.pres == 0 {
		return ""
	}
	return fmt.Sprintf("presentation #%d of %d of the same bytes to a fresh broker over the same encoders (calls %s): ", fc.pres+1, fc.Present, fc.Orders[fc.pres])
}

func (cr *childResult) witness(fc *fuzzCase, more map[string]any) map[string]any {
	w := map[string]any{"case": fc, "presentation": fc.pres + 1, "read_before_through_the_same_encoders": cr.recent()}
	for k, v := range more {
		w[k] = v
	}
	return w
}

// the last hostile cases this process read through the same encoders
func (cr *childResult) recent() []string {
	return append([]string{}, cr.last...)
}

func (cr *childResult) remember(fc *fuzzCase) {
	cr.last = append(cr.last, fmt.Sprintf("case %d x%d %s stream, %s: %s", fc.Idx, fc.Present, fc.Side, fc.Mutation, trunc(fc.Detail, 120)))
	if len(cr.last) > 6 {
		cr.last = cr.last[len(cr.last)-6:]
	}
}

// guarded call of code under test inside the child
func (cr *childResult) guard(fc *fuzzCase, fn string, f func()) (panicked bool) {
	key := cr.enter(fc, fn)
	defer func() {
		if e := recover(); e != nil {
			panicked = true
			st := string(debug.Stack())
			mark := ""
			if cr.repeatOnly(fc, key, "panic") {
				mark = repeatMark + ":"
			}
			cr.Violations = append(cr.Violations, childViolation{
				Sig:     "fuzz:" + fn + ":panic:" + mark + vlib.PanicSite(st),
				What:    fmt.Sprintf("fuzz case %d (%s stream, mutation %s: %s): %s%s panicked: %v", fc.Idx, fc.Side, fc.Mutation, fc.Detail, presWhat(fc), fn, e),
				Witness: cr.witness(fc, map[string]any{"stack": trunc(st, 3000)}),
			})
		}
	}()
	f()
	return false
}

func (cr *childResult) viol(fc *fuzzCase, sig, what string) {
	if cr.repeatOnly(fc, fc.lastCall, sig) { // inside the guarded call entered last
		sig += ":" + repeatMark
	}
	cr.Violations = append(cr.Violations, childViolation{Sig: sig, What: fmt.Sprintf("fuzz case %d (%s stream, mutation %s: %s): %s%s", fc.Idx, fc.Side, fc.Mutation, fc.Detail, presWhat(fc), what), Witness: cr.witness(fc, nil)})
}

// runFuzz: one presentation (fc.pres) of the bytes of fc to a freshly made
// broker; returns the outcome of the calls.
func runFuzz(g *rig, cr *childResult, fc *fuzzCase, rng *rand.Rand) string {
	ctx := context.Background()
	P := &pipe{buf: fc.stream, closed: fc.Closed}
	mode := fc.mode
	if fc.pres > 0 {
		// every chunk costs the reader a goroutine and a buffer of the whole
		// announced length; chunking was exercised by the first presentation
		// and has no part in what the reads leave behind: re-read in big chunks
		mode = max(mode, chunkBig)
	}
	rd := &chunkReader{p: P, rng: rng, mode: mode, eofWithData: fc.EOFData}
	defer func() { fc.maxAsk = max(fc.maxAsk, rd.maxAsk) }()
	out := &pipe{}
	variant := fc.variants[fc.pres]
	pfx := "fuzz_"
	if fc.pres > 0 {
		pfx = "fuzz_repeat_"
	}
	var outcome []string
	note := func(fn string, err error) {
		s := "ok"
		if err != nil {
			s = "err"
		}
		cr.Counters[pfx+fn+"_"+s]++
		outcome = append(outcome, fn+":"+s)
	}

	drain := func(fn string, body io.Reader) {
		if body == nil {
			return
		}
		cr.guard(fc, fn+":body.Read", func() {
			n, _ := io.Copy(io.Discard, io.LimitReader(body, 4<<20))
			cr.Counters[pfx+"body_bytes_drained"] += int(n)
		})
	}

	// ReadBody / ReadBodyErr until error (at most 4)
	readBodies := func(b interface {
		quicstreamheader.ReadBodyBroker
		ReadBodyErr(context.Context) (quicstreamheader.BodyType, uint64, io.Reader, error)
	}, useErr bool,
	) {
		for i := 0; i < 4; i++ {
			stop := false
			fn := "ReadBody"
			if useErr {
				fn = "ReadBodyErr"
			}
			if cr.guard(fc, fn, func() {
				var bt quicstreamheader.BodyType
				var bl uint64
				var body io.Reader
				var res quicstreamheader.ResponseHeader
				var err error
				if useErr {
					bt, bl, body, err = b.ReadBodyErr(ctx)
				} else {
					bt, bl, body, _, res, err = b.ReadBody(ctx)
				}
				note(fn, err)
				if err != nil {
					stop = true
					if fc.valid && i < len(fc.bodies) {
						cr.viol(fc, "fuzz:valid-stream-rejected:"+fn, fmt.Sprintf("body #%d of an unmodified stream: %v", i, err))
					}
					return
				}
				if res != nil {
					cr.Counters[pfx+"ReadBody_gave_response_header"]++
					cr.guard(fc, fn+":res.accessors", func() { _ = res.OK(); _ = res.Err(); _ = res.IsValid(nil) })
					return
				}
				if bt.IsValid(nil) != nil {
					cr.viol(fc, "fuzz:"+fn+":ok-with-invalid-body-type", fmt.Sprintf("no error, body type %v", bt))
					stop = true
					return
				}
				if bt != quicstreamheader.EmptyBodyType && body == nil {
					cr.viol(fc, "fuzz:"+fn+":ok-with-nil-body-reader", fmt.Sprintf("no error, body type %v length %d, nil reader", bt, bl))
					stop = true
					return
				}
				cr.Counters[pfx+"bodies_delivered_type_"+strconv.Itoa(int(bt[0]))]++
				drain(fn, body)
				if bt == quicstreamheader.StreamBodyType {
					stop = true
				}
			}) || stop {
				return
			}
		}
	}

	if fc.Side == "request" {
		hb := quicstreamheader.NewHandlerBroker(g.encs, nil, rd, pipeW{out})
		headOK := true
		if variant != 2 {
			cr.guard(fc, "ReadRequestHead", func() {
				h, err := hb.ReadRequestHead(ctx)
				note("ReadRequestHead", err)
				if err != nil {
					headOK = false
					if fc.valid {
						cr.viol(fc, "fuzz:valid-stream-rejected:ReadRequestHead", err.Error())
					}
					return
				}
				if h == nil {
					cr.viol(fc, "fuzz:ReadRequestHead:ok-with-nil-header", "no error and nil header")
					headOK = false
					return
				}
				// what quicstreamheader.NewHandler does next with the header
				cr.guard(fc, "ReadRequestHead:header.IsValid", func() {
					if err := h.IsValid(nil); err != nil {
						cr.Counters[pfx+"request_header_delivered_invalid"]++
					} else {
						cr.Counters[pfx+"request_header_delivered_valid"]++
					}
					_ = h.Handler()
				})
			})
		}
		if headOK {
			readBodies(hb, variant == 3)
			// and the handler answers: must not panic either
			cr.guard(fc, "WriteResponseHeadOK", func() { _ = hb.WriteResponseHeadOK(ctx, false, errors.New("bad request")) })
		}
	} else {
		cb := quicstreamheader.NewClientBroker(g.encs, g.enc, rd, pipeW{out})
		headOK := true
		if variant == 0 || variant == 3 {
			cr.guard(fc, "ReadResponseHead", func() {
				enc, res, err := cb.ReadResponseHead(ctx)
				note("ReadResponseHead", err)
				if err != nil {
					headOK = false
					if fc.valid {
						cr.viol(fc, "fuzz:valid-stream-rejected:ReadResponseHead", err.Error())
					}
					return
				}
				if res == nil || enc == nil {
					cr.viol(fc, "fuzz:ReadResponseHead:ok-with-nil-header", "no error and nil header/encoder")
					headOK = false
					return
				}
				cr.guard(fc, "ReadResponseHead:header.accessors", func() {
					_ = res.OK()
					_ = res.Err()
					if err := res.IsValid(nil); err != nil {
						cr.Counters[pfx+"response_header_delivered_invalid"]++
					} else {
						cr.Counters[pfx+"response_header_delivered_valid"]++
					}
				})
			})
		}
		if headOK {
			readBodies(cb, variant >= 2)
		}
	}
	o := strings.Join(outcome, ",")
	if fc.pres == 0 {
		cr.Counters["fuzz_mutation_"+fc.Mutation]++
		cr.Counters["fuzz_outcome_"+fc.Side+"_"+o]++
		if fc.Key != nil {
			cr.Counters["fuzz_key_at_"+strings.SplitN(fc.KeyAt, ".", 2)[0]]++
			cr.Counters["fuzz_key_type_"+fc.Key.Type]++
			cr.Counters["fuzz_key_version_"+fc.Key.Version]++
			cr.Counters["fuzz_key_padding_"+fc.Key.Pad]++
			if strings.HasSuffix(o, ":ok") || strings.Contains(o, "Head:ok") {
				cr.Counters["fuzz_key_variant_accepted"]++
			} else {
				cr.Counters["fuzz_key_variant_rejected"]++
			}
		}
	}
	return o
}

func fuzzFingerprint(fc *fuzzCase) string {
	h := fnv.New64a()
	h.Write(fc.stream)
	fmt.Fprintf(h, "|%s|%v|%d|%v|%v|%v", fc.Side, fc.variants, fc.mode, fc.EOFData, fc.Closed, fc.Honest)
	return fmt.Sprintf("%016x", h.Sum64())
}

func idxFile(dir string, id string) string { return filepath.Join(dir, "c30-batch-"+id+".idx") }
func resFile(dir string, id string) string { return filepath.Join(dir, "c30-batch-"+id+".json") }
func ckFile(dir string, id string) string {
	return filepath.Join(dir, "c30-batch-"+id+".checkpoint.json")
}

// childReporter: the round-trip oracle reporting into the child's result.
type childReporter struct{ cr *childResult }

func (c childReporter) Case(fp string) {
	c.cr.Distinct = append(c.cr.Distinct, "after-hostile:"+fp)
	c.cr.Counters["after_hostile_roundtrips"]++
}
func (c childReporter) Count(k string, n int) { c.cr.Counters[k] += n }
func (c childReporter) Sample(any)            {}
func (c childReporter) Violation(sig, what string, witness any) {
	c.cr.Violations = append(c.cr.Violations, childViolation{Sig: sig, What: what, Witness: witness})
}
func (c childReporter) Inconclusive(reason string) { c.cr.Problems = append(c.cr.Problems, reason) }
func (c childReporter) Guard(sigPrefix string, witness any, f func()) (panicked bool) {
	defer func() {
		if e := recover(); e != nil {
			panicked = true
			st := string(debug.Stack())
			c.Violation(sigPrefix+":panic:"+vlib.PanicSite(st), fmt.Sprintf("panic: %v", e), map[string]any{"input": witness, "stack": trunc(st, 3000)})
		}
	}()
	f()
	return false
}

const phaseHonest = 9 // index log: presentation number, or this for the round trip that follows

// child process: run fuzz cases [lo,hi) one after the other through ONE rig
// (one encoder.Encoders, one json encoder with its decoder set, the process
// wide hint cache), as all brokers of a node share theirs: every case is
// presented fc.Present times, then (fc.Honest) an honest exchange must round
// trip through the same objects. The case index and the phase are logged
// before each step.
func childMain(t *testing.T, spec string) {
	f := strings.Split(spec, ":")
	if len(f) != 4 {
		t.Fatalf("bad %s=%q", envChild, spec)
	}
	lo, _ := strconv.Atoi(f[0])
	hi, _ := strconv.Atoi(f[1])
	id := f[2]
	pool := f[3] == "pool"
	r := vlib.Start(t, "C30", vlib.LevelExploration) // PRNG and work dir only; never Finish()ed here
	dir := r.WorkDir()
	g, err := newRig()
	cr := &childResult{Lo: lo, Hi: hi, Counters: map[string]int{}}
	if err != nil {
		cr.Problems = append(cr.Problems, "rig: "+err.Error())
	} else {
		if pool {
			// the encoder's optional cache of decoded typed strings
			_ = g.enc.SetPool(util.NewLRUGCache[string, any](1 << 10))
			cr.Counters["fuzz_children_with_encoder_pool"]++
		}
		lf, err := os.OpenFile(idxFile(dir, id), os.O_CREATE|os.O_WRONLY|os.O_TRUNC, 0o644)
		if err != nil {
			t.Fatal(err)
		}
		logPhase := func(i, phase int) {
			if _, err := lf.WriteAt([]byte(fmt.Sprintf("%012d %02d\n", i, phase)), 0); err != nil {
				t.Fatal(err)
			}
		}
		for i := lo; i < hi; i++ {
			fc, err := genFuzz(r, g, i)
			if err != nil {
				cr.Problems = append(cr.Problems, fmt.Sprintf("gen %d: %v", i, err))
				continue
			}
			t0 := time.Now()
			costly := fc.costly
			outcomes := make([]string, fc.Present)
			for p := 0; p < fc.Present; p++ {
				if p >= 1 && fc.maxAsk > 1<<20 {
					// a read made the broker allocate what the stream announced (up to
					// 2 GiB, again for every chunk): not read again, it only costs time
					cr.Counters["fuzz_cases_not_repeated_read_buffer_over_1MiB"]++
					fc.Present, fc.variants, fc.Orders, outcomes = p, fc.variants[:p], fc.Orders[:p], outcomes[:p]
					costly = true
					break
				}
				fc.startPresentation(p)
				logPhase(i, p)
				outcomes[p] = runFuzz(g, cr, fc, r.Rand(30, 3, i, p))
				cr.Counters["fuzz_presentations"]++
				if p > 0 {
					cr.Counters["fuzz_repeat_presentations"]++
					if fc.variants[p] != fc.variants[p-1] {
						cr.Counters["fuzz_repeat_presentations_other_call_order"]++
					} else if outcomes[p] == outcomes[p-1] {
						cr.Counters["fuzz_repeat_outcome_same_as_before"]++
					} else {
						cr.Counters["fuzz_repeat_outcome_differs"]++ // not demanded by the property; evidence only
						fmt.Fprintf(os.Stderr, "outcome differs case %d presentation %d: %s then %s (%s %s %s)\n", i, p, outcomes[p-1], outcomes[p], fc.Side, fc.Mutation, fc.Detail)
					}
				}
			}
			cr.Distinct = append(cr.Distinct, fuzzFingerprint(fc))
			cr.Counters["fuzz_cases"]++
			cr.Counters["fuzz_cases_presented_"+strconv.Itoa(fc.Present)+"_times"]++
			cr.Counters["fuzz_insert_redrawn_announcing_over_16MiB"] += fc.Redrawn
			cr.remember(fc)
			if d := time.Since(t0); d > time.Second {
				cr.Counters["fuzz_cases_slower_than_1s"]++
				fmt.Fprintf(os.Stderr, "slow case %d: %v %s %s %s len=%d chunk=%s\n", i, d, fc.Side, fc.Mutation, fc.Detail, fc.Len, fc.Chunk)
			}
			if fc.Honest {
				logPhase(i, phaseHonest)
				roundTripWith(rtEnv{
					rep: childReporter{cr}, prefix: "roundtrip-after-hostile", counters: "after_hostile_roundtrip_", small: true, minChunk: chunkEightish,
					rng: r.Rand(30, 8, i), rngA: r.Rand(30, 81, i), rngB: r.Rand(30, 82, i), after: cr.recent(),
				}, g, i)
			}
			// checkpoint: should a later case kill this process, what was seen up to
			// here is kept and only the cases after it are run again
			if (i+1-lo)%25 == 0 || costly {
				cr.Hi = i + 1
				cr.save(t, ckFile(dir, id))
			}
		}
		lf.Close()
	}
	cr.Hi = hi
	cr.save(t, resFile(dir, id))
}

func (cr *childResult) save(t *testing.T, path string) {
	b, err := json.Marshal(cr)
	if err != nil {
		t.Fatal(err)
	}
	tmp := path + ".tmp"
	if err := os.WriteFile(tmp, b, 0o644); err != nil {
		t.Fatal(err)
	}
	if err := os.Rename(tmp, path); err != nil {
		t.Fatal(err)
	}
}

type batcher struct {
	r      *vlib.Run
	g      *rig
	dir    string
	exe    string
	mu     sync.Mutex
	seq    int
	childs int
	crash  int
}

func (b *batcher) nextID() string {
	b.mu.Lock()
	defer b.mu.Unlock()
	b.seq++
	b.childs++
	return strconv.Itoa(b.seq)
}

func (b *batcher) merge(rb []byte) (cr childResult, ok bool) {
	r := b.r
	if err := json.Unmarshal(rb, &cr); err != nil {
		r.Inconclusive("child result unreadable: " + err.Error())
		return cr, false
	}
	for _, p := range cr.Problems {
		r.Inconclusive("fuzz child: " + p)
	}
	for k, v := range cr.Counters {
		r.Count(k, v)
	}
	r.Eval(cr.Counters["fuzz_cases"] + cr.Counters["after_hostile_roundtrips"])
	for _, d := range cr.Distinct {
		r.Distinct("fuzz:" + d)
	}
	for _, v := range cr.Violations {
		r.Violation(v.Sig, v.What, v.Witness)
	}
	return cr, true
}

// run [lo,hi) in a child; on a crash attribute it to the logged case, keep
// what the child had checkpointed and go on with the rest.
func (b *batcher) run(lo, hi int, pool string, depth int) {
	if lo >= hi {
		return
	}
	r := b.r
	id := b.nextID()
	errFile := filepath.Join(b.dir, "c30-batch-"+id+".stderr")
	ef, err := os.Create(errFile)
	if err != nil {
		r.Inconclusive("create stderr file: " + err.Error())
		return
	}
	cmd := exec.Command(b.exe, "-test.run=^TestC30$", "-test.count=1", "-test.timeout=0")
	cmd.Env = append(os.Environ(), fmt.Sprintf("%s=%d:%d:%s:%s", envChild, lo, hi, id, pool), "VERIF_RESULT_FILE=", "GOTRACEBACK=all", "GOGC=50", "GOMEMLIMIT=6GiB", "GOMAXPROCS=2")
	cmd.Stdout = ef
	cmd.Stderr = ef
	if err := cmd.Start(); err != nil {
		ef.Close()
		r.Inconclusive("start child: " + err.Error())
		return
	}
	var waitErr error
	finished := r.WithWatchdog(20*time.Minute, fmt.Sprintf("fuzz child batch [%d,%d)", lo, hi), func() { waitErr = cmd.Wait() })
	ef.Close()
	if !finished {
		_ = cmd.Process.Kill()
		return
	}
	if rb, err := os.ReadFile(resFile(b.dir, id)); err == nil {
		b.merge(rb)
		return
	}
	// no result: the child died. Which case?
	b.mu.Lock()
	b.crash++
	b.mu.Unlock()
	stderr, _ := os.ReadFile(errFile)
	ib, err := os.ReadFile(idxFile(b.dir, id))
	if err != nil || len(bytes.TrimSpace(ib)) == 0 {
		r.Inconclusive(fmt.Sprintf("fuzz child [%d,%d) died before its first case: %s", lo, hi, trunc(string(stderr), 1500)))
		return
	}
	var c, phase int
	if n, err := fmt.Sscanf(strings.TrimSpace(string(ib)), "%d %d", &c, &phase); err != nil || n != 2 || c < lo || c >= hi {
		r.Inconclusive("fuzz child index log unreadable: " + string(ib))
		return
	}
	fc, _ := genFuzz(r, b.g, c)
	st := string(stderr)
	// keep the part from the panic on
	if i := strings.Index(st, "panic:"); i >= 0 {
		st = st[i:]
	} else if i := strings.Index(st, "fatal error:"); i >= 0 {
		st = st[i:]
	}
	goReport := strings.HasPrefix(st, "panic:") || strings.HasPrefix(st, "fatal error:")
	first := strings.SplitN(st, "\n", 2)[0]
	kind := "crash"
	if strings.Contains(first, "stack overflow") || strings.Contains(st[:min(len(st), 400)], "stack overflow") {
		kind = "stack-overflow"
	} else if strings.Contains(first, "out of memory") {
		kind = "out-of-memory"
	}
	// the earlier presentations of these bytes (and everything before them in
	// this child) went through the same encoders without killing the process
	sig, when := "fuzz:process-"+kind+":", "its first presentation"
	switch {
	case phase == phaseHonest:
		sig, when = "roundtrip-after-hostile:process-"+kind+":", "the honest round trip that followed its presentations"
	case phase > 0 && fc != nil && phase < len(fc.variants):
		when = fmt.Sprintf("presentation #%d of %d", phase+1, fc.Present)
		for p := 0; p < phase; p++ {
			if fc.variants[p] == fc.variants[phase] {
				sig += repeatMark + ":"
				when += " (a fresh broker over the same encoders reading the same bytes in the same call order as before)"
				break
			}
		}
	}
	if !goReport {
		// ended from outside (the kernel's out-of-memory killer on a machine shared
		// with other work, a signal) or by the harness itself: nothing the code
		// under test reported, so no verdict on this case
		r.Inconclusive(fmt.Sprintf("fuzz child [%d,%d) ended (%v) at case %d phase %d without a result and without a Go panic / fatal error report: %s", lo, hi, waitErr, c, phase, trunc(st, 600)))
	} else {
		r.Violation(sig+vlib.PanicSite(st),
			fmt.Sprintf("fuzz case %d, %s, killed the process (not recoverable by the caller): %s", c, when, trunc(first, 300)),
			map[string]any{"case": fc, "phase": phase, "batch": []int{lo, hi}, "encoder_pool": pool, "stderr": trunc(st, 4000)})
		r.Eval(1)
	}
	if depth > 200 {
		r.Inconclusive("too many crashing fuzz cases in one batch; rest of the batch skipped")
		return
	}
	done := lo // cases [lo,done) are in the child's last checkpoint
	if rb, err := os.ReadFile(ckFile(b.dir, id)); err == nil {
		if cr, ok := b.merge(rb); ok && cr.Lo == lo && cr.Hi > lo && cr.Hi <= c {
			done = cr.Hi
		} else if ok {
			r.Inconclusive(fmt.Sprintf("fuzz child checkpoint [%d,%d) does not fit the crash at %d of [%d,%d)", cr.Lo, cr.Hi, c, lo, hi))
			return
		}
	}
	b.run(done, c, pool, depth+1)
	b.run(c+1, hi, pool, depth+1)
}

func TestC30(t *testing.T) {
	if spec := os.Getenv(envChild); spec != "" {
		childMain(t, spec)
		return
	}
	r := vlib.Start(t, "C30", vlib.LevelExploration)
	defer r.Finish()
	r.SetRule("round trip: case i uses request header type i mod 27 (every request header type of isaac/network and quicmemberlist that launch/hinters.go registers, built by its constructor with PRNG field values), a PRNG response header (Default ok/not-ok/err, AskHandoverResponse, BlockItemResponse), 0-2 request and 0-2 response bodies (Empty, FixedLength 0/1/2/7/8/9/100/4095/4096/65536/random, Stream; nil reader where legal), optionally an error head in place of a body, over two one-way in-memory pipes read in chunks of 1 | 1-3 | 7-9 | 1-64 | 1-8192 | all bytes, last chunk with or without io.EOF; distinct = (header type, body list, response type, chunk modes, eof mode). " +
		"fuzz: case j = valid stream (request or response side, header type cycling) with one mutation of kind (j/2 mod 17) from {none, datatype, bodytype, length (incl. 2^31-1, 2^31, 2^63, 2^64-1), truncate, truncate-open, enchint, header-json (null, {}, wrong type, unknown/huge/odd hint, truncated), json-field (drop/null/wrong type/huge), registered-hint (every registered non-header type), bitflip, garbage, insert (quick tier: drawn again when it makes a head announce 16 MiB - 2 GiB), swap-side, deep-json, " +
		"enchint-key, hint-key}; the two -key kinds send a non-canonical or unknown variant of a string the receiver uses as a lookup key - the encoder hint of the head (the same variant in the request case 2m and the response case 2m+1), a _hint anywhere in the header json, or the type suffix of a typed string - varied in type (other case, one more/less letter, unknown, another registered type, inner space) x version (patch/minor/major higher or lower, short vN / vN.N of the same or another major, V, prerelease, build, leading zero, overflowing number, 4 numbers, none) x padding (spaces, NULs, tab, newline, nbsp; behind, in front, both), each dimension changed with probability 1/2; " +
		"fed to ReadRequestHead/ReadResponseHead/ReadBody/ReadBodyErr in 4 call orders. State between reads: all cases of a child process (700 quick / 2500 thorough, in index order) are read by freshly made brokers over ONE long-lived set of objects (one encoder.Encoders, one json encoder and its decoder set, the process-wide hint cache; every second child also sets the encoder's pool of decoded typed strings), and every case is PRESENTED 2-4 times in a row (the 2nd presentation repeats the 1st exactly, the 3rd takes another call order, the 4th repeats the 3rd - unmodified streams keep the full call order and must be accepted every time; re-read in chunks of 1-8192 or all bytes; streams that announce > 64 KiB, are nested > 10000 deep or made the broker ask for a read buffer > 1 MiB once only); after the presentations of a case, with probability 1/2, an honest exchange (request header type j mod 27, PRNG response header, small bodies, optional error head, chunks of 7-9 | 1-64 | 1-8192 | all bytes) must round trip through the same objects under the round-trip oracle above (signatures roundtrip-after-hostile:*). A failure of a repeated presentation whose first presentation in that call order was clean is reported with the marker " + repeatMark + ". distinct = hash(stream bytes, call orders of all presentations, chunking, honest-follows) for fuzz cases, the round-trip fingerprint for the honest exchanges")
	r.Assume("the 32-byte handler prefix in front of a request is consumed by quicstream before the header broker sees the stream")
	r.Assume("a writer hands WriteBody a reader holding exactly bodyLength bytes for FixedLength bodies")
	r.Assume("re-reading the same hostile bytes need not give the same answer as before (the statement does not say so): differing outcomes are counted (fuzz_repeat_outcome_differs), only panics, crashes, ill-formed results and rejected honest streams are violations")
	r.Assume("a fuzz result counts as well-formed when: no error => non-nil header (request: of RequestHeader type; IsValid/Handler callable), valid body type, non-nil reader for FixedLength/Stream, and reading the body to its end does not panic")

	g, err := newRig()
	if err != nil {
		r.Inconclusive("rig: " + err.Error())
		return
	}
	r.Set("request_header_types", len(g.req))
	r.Set("response_header_builders", len(g.res))
	r.Set("registered_hinted_types", len(hinters))

	// sanity: my picture of the wire format equals what the broker writes
	{
		rng := r.Rand(30, 0)
		req, _ := g.req[0].f(rng)
		js, _ := g.enc.Marshal(req)
		A := &pipe{}
		cb := quicstreamheader.NewClientBroker(g.encs, g.enc, &chunkReader{p: &pipe{closed: true}}, pipeW{A})
		b := bodySpec{Kind: "fixed", Data: []byte("hello")}
		if err := cb.WriteRequestHead(context.Background(), req); err != nil {
			r.Inconclusive("sanity write: " + err.Error())
			return
		}
		_ = writeBodies(cb, []bodySpec{b})
		want := append(join(headParts(quicstreamheader.RequestHeaderDataType, g.enc.Hint().Bytes(), js)), join(bodyParts(b))...)
		pl := len(req.Handler())
		if len(A.buf) < pl || !bytes.Equal(A.buf[pl:], want) {
			r.Inconclusive("harness wire-format picture differs from what the broker writes")
			return
		}
	}

	nrt := r.N(6000, 120000)
	t0 := time.Now()
	vlib.Parallel(nrt, 16, func(i int) { roundTrip(r, g, i) })
	r.Set("roundtrip_wall_s", time.Since(t0).Seconds())
	t0 = time.Now()

	nf := r.N(700*len(mutKinds), 300000)
	exe, err := os.Executable()
	if err != nil {
		r.Inconclusive("os.Executable: " + err.Error())
		return
	}
	b := &batcher{r: r, g: g, dir: r.WorkDir(), exe: exe}
	batch := r.N(700, 2500)
	nb := (nf + batch - 1) / batch
	vlib.Parallel(nb, 12, func(k int) {
		pool := "nopool"
		if k%2 == 1 {
			pool = "pool"
		}
		b.run(k*batch, min((k+1)*batch, nf), pool, 0)
	})
	r.Set("fuzz_wall_s", time.Since(t0).Seconds())
	r.Set("fuzz_child_processes", b.childs)
	r.Set("fuzz_child_crashes", b.crash)
	r.Set("fuzz_mutation_kinds", len(mutKinds))
	r.Set("fuzz_key_variant_space", map[string]int{"type": len(keyTypeDims) + 1, "version": len(keyVerDims) + 1, "padding": len(keyPadDims) + 1, "typed_string_suffix": len(keySuffixDims)})
	types := 0
	for _, rb := range g.req {
		if r.Counter("after_hostile_roundtrip_header_"+rb.name) > 0 {
			types++
		}
	}
	r.Set("after_hostile_request_header_types_roundtripped", types)
	ek, hk := 2*(len(mutKinds)-2), 2*(len(mutKinds)-1) // first enchint-key / hint-key case
	for _, j := range []int{2*len(mutKinds)*7 + 2, ek + 1, hk + 2*len(mutKinds)*3} {
		if fc, err := genFuzz(r, g, j); err == nil {
			r.Sample(fc)
		}
	}
	if r.Counter("fuzz_cases") == 0 {
		r.Inconclusive("no fuzz case ran")
	}
	if b.crash == 0 && (r.Counter("fuzz_repeat_presentations") == 0 || r.Counter("after_hostile_roundtrips") == 0 || r.Counter("fuzz_mutation_enchint-key") == 0 || r.Counter("fuzz_mutation_hint-key") == 0) {
		r.Inconclusive("no repeated presentation / no honest round trip after hostile streams / no lookup-key variant ran")
	}
}
