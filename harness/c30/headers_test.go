package c30

import (
	"errors"
	"fmt"
	"math/rand"
	"net"
	"net/url"

	"github.com/spikeekips/mitum/base"
	isaacnetwork "github.com/spikeekips/mitum/isaac/network"
	"github.com/spikeekips/mitum/network/quicmemberlist"
	"github.com/spikeekips/mitum/network/quicstream"
	quicstreamheader "github.com/spikeekips/mitum/network/quicstream/header"
	"github.com/spikeekips/mitum/util"
	"github.com/spikeekips/mitum/util/encoder"
	jsonenc "github.com/spikeekips/mitum/util/encoder/json"
	"github.com/spikeekips/mitum/util/valuehash"
)

// rig holds the real encoders with everything launch registers, and factories
// for every registered request / response header type.
type rig struct {
	enc  *jsonenc.Encoder
	encs *encoder.Encoders
	keys []*base.MPrivatekey
	req  []reqBuilder
	res  []resBuilder
}

type reqBuilder struct {
	name string
	f    func(*rand.Rand) (quicstreamheader.RequestHeader, error)
}

type resBuilder struct {
	name string
	f    func(*rand.Rand) quicstreamheader.ResponseHeader
}

func newRig() (*rig, error) {
	g := &rig{enc: jsonenc.NewEncoder()}
	g.encs = encoder.NewEncoders(g.enc, g.enc)
	for i := range hinters {
		if err := g.encs.AddDetail(hinters[i]); err != nil {
			return nil, err
		}
	}
	for i := 0; i < 8; i++ {
		k, err := base.NewMPrivatekeyFromSeed(fmt.Sprintf("c30-deterministic-privatekey-seed-%04d-0123456789", i))
		if err != nil {
			return nil, err
		}
		g.keys = append(g.keys, k)
	}

	hash := func(rng *rand.Rand) util.Hash {
		b := make([]byte, 32)
		rng.Read(b)
		return valuehash.NewSHA256(b)
	}
	addr := func(rng *rand.Rand) base.Address {
		return base.NewStringAddress(fmt.Sprintf("node-%06d", rng.Intn(1000000)))
	}
	pub := func(rng *rand.Rand) base.Publickey { return g.keys[rng.Intn(len(g.keys))].Publickey() }
	height := func(rng *rand.Rand) base.Height { return base.Height(rng.Int63n(1 << 40)) }
	ci := func(rng *rand.Rand) quicstream.ConnInfo {
		return quicstream.MustConnInfo(&net.UDPAddr{IP: net.IPv4(10, byte(rng.Intn(256)), byte(rng.Intn(256)), byte(1+rng.Intn(250))), Port: 1024 + rng.Intn(60000)}, rng.Intn(2) == 0)
	}
	str := func(rng *rand.Rand) string {
		const al = "abcdefghijklmnopqrstuvwxyz0123456789-_/\"\\ é世"
		rs := []rune(al)
		n := 1 + rng.Intn(24)
		o := make([]rune, n)
		for i := range o {
			o[i] = rs[rng.Intn(len(rs))]
		}
		return string(o)
	}
	cid := func(rng *rand.Rand, h interface{ SetClientID(string) }) {
		if rng.Intn(2) == 0 {
			h.SetClientID(str(rng))
		}
	}
	items := []base.BlockItemType{base.BlockItemMap, base.BlockItemProposal, base.BlockItemOperations, base.BlockItemOperationsTree, base.BlockItemStates, base.BlockItemStatesTree, base.BlockItemVoteproofs}

	R := func(name string, f func(*rand.Rand) (quicstreamheader.RequestHeader, error)) {
		g.req = append(g.req, reqBuilder{name: name, f: f})
	}
	R("OperationRequestHeader", func(rng *rand.Rand) (quicstreamheader.RequestHeader, error) {
		h := isaacnetwork.NewOperationRequestHeader(hash(rng))
		cid(rng, &h)
		return h, nil
	})
	R("SendOperationRequestHeader", func(rng *rand.Rand) (quicstreamheader.RequestHeader, error) {
		h := isaacnetwork.NewSendOperationRequestHeader()
		cid(rng, &h)
		return h, nil
	})
	R("RequestProposalRequestHeader", func(rng *rand.Rand) (quicstreamheader.RequestHeader, error) {
		h := isaacnetwork.NewRequestProposalRequestHeader(base.NewPoint(height(rng), base.Round(rng.Intn(100))), addr(rng), hash(rng))
		cid(rng, &h)
		return h, nil
	})
	R("ProposalRequestHeader", func(rng *rand.Rand) (quicstreamheader.RequestHeader, error) {
		h := isaacnetwork.NewProposalRequestHeader(hash(rng))
		cid(rng, &h)
		return h, nil
	})
	R("LastSuffrageProofRequestHeader", func(rng *rand.Rand) (quicstreamheader.RequestHeader, error) {
		var st util.Hash
		if rng.Intn(2) == 0 {
			st = hash(rng)
		}
		h := isaacnetwork.NewLastSuffrageProofRequestHeader(st)
		cid(rng, &h)
		return h, nil
	})
	R("SuffrageProofRequestHeader", func(rng *rand.Rand) (quicstreamheader.RequestHeader, error) {
		h := isaacnetwork.NewSuffrageProofRequestHeader(height(rng))
		cid(rng, &h)
		return h, nil
	})
	R("LastBlockMapRequestHeader", func(rng *rand.Rand) (quicstreamheader.RequestHeader, error) {
		var m util.Hash
		if rng.Intn(2) == 0 {
			m = hash(rng)
		}
		h := isaacnetwork.NewLastBlockMapRequestHeader(m)
		cid(rng, &h)
		return h, nil
	})
	R("BlockMapRequestHeader", func(rng *rand.Rand) (quicstreamheader.RequestHeader, error) {
		h := isaacnetwork.NewBlockMapRequestHeader(height(rng))
		cid(rng, &h)
		return h, nil
	})
	R("BlockItemRequestHeader", func(rng *rand.Rand) (quicstreamheader.RequestHeader, error) {
		h := isaacnetwork.NewBlockItemRequestHeader(height(rng), items[rng.Intn(len(items))])
		cid(rng, &h)
		return h, nil
	})
	R("BlockItemFilesRequestHeader", func(rng *rand.Rand) (quicstreamheader.RequestHeader, error) {
		h := isaacnetwork.NewBlockItemFilesRequestHeader(height(rng), pub(rng))
		cid(rng, &h)
		return h, nil
	})
	R("NodeChallengeRequestHeader", func(rng *rand.Rand) (quicstreamheader.RequestHeader, error) {
		in := make([]byte, 1+rng.Intn(40))
		rng.Read(in)
		var h isaacnetwork.NodeChallengeRequestHeader
		if rng.Intn(2) == 0 {
			h = isaacnetwork.NewNodeChallengeRequestHeader(in, addr(rng), pub(rng))
		} else {
			h = isaacnetwork.NewNodeChallengeRequestHeader(in, nil, nil)
		}
		cid(rng, &h)
		return h, nil
	})
	R("SuffrageNodeConnInfoRequestHeader", func(rng *rand.Rand) (quicstreamheader.RequestHeader, error) {
		h := isaacnetwork.NewSuffrageNodeConnInfoRequestHeader()
		cid(rng, &h)
		return h, nil
	})
	R("SyncSourceConnInfoRequestHeader", func(rng *rand.Rand) (quicstreamheader.RequestHeader, error) {
		h := isaacnetwork.NewSyncSourceConnInfoRequestHeader()
		cid(rng, &h)
		return h, nil
	})
	R("StateRequestHeader", func(rng *rand.Rand) (quicstreamheader.RequestHeader, error) {
		var st util.Hash
		if rng.Intn(2) == 0 {
			st = hash(rng)
		}
		h := isaacnetwork.NewStateRequestHeader(str(rng), st)
		cid(rng, &h)
		return h, nil
	})
	R("ExistsInStateOperationRequestHeader", func(rng *rand.Rand) (quicstreamheader.RequestHeader, error) {
		h := isaacnetwork.NewExistsInStateOperationRequestHeader(hash(rng))
		cid(rng, &h)
		return h, nil
	})
	R("NodeInfoRequestHeader", func(rng *rand.Rand) (quicstreamheader.RequestHeader, error) {
		h := isaacnetwork.NewNodeInfoRequestHeader()
		cid(rng, &h)
		return h, nil
	})
	R("SendBallotsHeader", func(rng *rand.Rand) (quicstreamheader.RequestHeader, error) {
		h := isaacnetwork.NewSendBallotsHeader()
		cid(rng, &h)
		return h, nil
	})
	R("SetAllowConsensusHeader", func(rng *rand.Rand) (quicstreamheader.RequestHeader, error) {
		h := isaacnetwork.NewSetAllowConsensusHeader(rng.Intn(2) == 0)
		cid(rng, &h)
		return h, nil
	})
	R("StreamOperationsHeader", func(rng *rand.Rand) (quicstreamheader.RequestHeader, error) {
		var off []byte
		if rng.Intn(3) > 0 {
			off = make([]byte, 1+rng.Intn(40))
			rng.Read(off)
		}
		h := isaacnetwork.NewStreamOperationsHeader(off)
		cid(rng, &h)
		return h, nil
	})
	R("StartHandoverHeader", func(rng *rand.Rand) (quicstreamheader.RequestHeader, error) {
		h := isaacnetwork.NewStartHandoverHeader(ci(rng), addr(rng), pub(rng))
		cid(rng, &h)
		return h, nil
	})
	R("CheckHandoverHeader", func(rng *rand.Rand) (quicstreamheader.RequestHeader, error) {
		h := isaacnetwork.NewCheckHandoverHeader(ci(rng), addr(rng), pub(rng))
		cid(rng, &h)
		return h, nil
	})
	R("AskHandoverHeader", func(rng *rand.Rand) (quicstreamheader.RequestHeader, error) {
		h := isaacnetwork.NewAskHandoverHeader(ci(rng), addr(rng))
		cid(rng, &h)
		return h, nil
	})
	R("CancelHandoverHeader", func(rng *rand.Rand) (quicstreamheader.RequestHeader, error) {
		h := isaacnetwork.NewCancelHandoverHeader(pub(rng))
		cid(rng, &h)
		return h, nil
	})
	R("HandoverMessageHeader", func(rng *rand.Rand) (quicstreamheader.RequestHeader, error) {
		h := isaacnetwork.NewHandoverMessageHeader()
		cid(rng, &h)
		return h, nil
	})
	R("CheckHandoverXHeader", func(rng *rand.Rand) (quicstreamheader.RequestHeader, error) {
		h := isaacnetwork.NewCheckHandoverXHeader(addr(rng))
		cid(rng, &h)
		return h, nil
	})
	R("quicmemberlist.CallbackBroadcastMessageHeader", func(rng *rand.Rand) (quicstreamheader.RequestHeader, error) {
		return quicmemberlist.NewCallbackBroadcastMessageHeader(str(rng), quicstream.HashPrefix(quicstream.HandlerName(str(rng)))), nil
	})
	R("quicmemberlist.EnsureBroadcastMessageHeader", func(rng *rand.Rand) (quicstreamheader.RequestHeader, error) {
		return quicmemberlist.NewEnsureBroadcastMessageHeader(str(rng), quicstream.HashPrefix(quicstream.HandlerName(str(rng))),
			addr(rng), g.keys[rng.Intn(len(g.keys))], base.NetworkID([]byte("c30 network")))
	})

	S := func(name string, f func(*rand.Rand) quicstreamheader.ResponseHeader) {
		g.res = append(g.res, resBuilder{name: name, f: f})
	}
	S("DefaultResponseHeader/ok", func(*rand.Rand) quicstreamheader.ResponseHeader {
		return quicstreamheader.NewDefaultResponseHeader(true, nil)
	})
	S("DefaultResponseHeader/not-ok", func(*rand.Rand) quicstreamheader.ResponseHeader {
		return quicstreamheader.NewDefaultResponseHeader(false, nil)
	})
	S("DefaultResponseHeader/err", func(rng *rand.Rand) quicstreamheader.ResponseHeader {
		return quicstreamheader.NewDefaultResponseHeader(false, errors.New(str(rng)))
	})
	S("AskHandoverResponseHeader", func(rng *rand.Rand) quicstreamheader.ResponseHeader {
		if rng.Intn(2) == 0 {
			return isaacnetwork.NewAskHandoverResponseHeader(true, nil, str(rng))
		}
		return isaacnetwork.NewAskHandoverResponseHeader(false, errors.New(str(rng)), str(rng))
	})
	S("BlockItemResponseHeader", func(rng *rand.Rand) quicstreamheader.ResponseHeader {
		u := url.URL{Scheme: "https", Host: fmt.Sprintf("h%d.example.com", rng.Intn(100)), Path: "/" + fmt.Sprint(rng.Intn(1000))}
		if rng.Intn(2) == 0 {
			return isaacnetwork.NewBlockItemResponseHeader(true, nil, u, []string{"", "gz", "bz"}[rng.Intn(3)])
		}
		return isaacnetwork.NewBlockItemResponseHeader(false, errors.New(str(rng)), url.URL{}, "")
	})

	return g, nil
}
