package c30

import (
	"bytes"
	"encoding/json"
	"fmt"
	"math/rand"
	"regexp"
	"sort"
	"strings"
	"unicode"
)

// Lookup keys. The receiving side uses strings sent by the peer as keys into
// long-lived tables: the encoder hint of a head (encoder.Encoders), every
// "_hint" inside the header bytes (the encoder's decoder set) and the type
// suffix of typed strings (addresses, keys). keyVariant derives from a
// canonical hint "type-vMAJOR.MINOR.PATCH" a string that still looks like a
// hint but differs in one or more of three dimensions: the type (unknown,
// other case, neighbouring spelling, another registered type), the version
// (higher/lower patch, minor, major; short; decorated) and padding (spaces,
// NULs, other white space in front or behind).

var reCanonHint = regexp.MustCompile(`^(.+)-v(\d+)\.(\d+)\.(\d+)$`)

type keyDim struct {
	name string
	f    func(rng *rand.Rand, t string, others []string) string
}

func swapCaseAt(s string, i int) string {
	rs := []rune(s)
	if i < 0 || i >= len(rs) {
		return s
	}
	if unicode.IsUpper(rs[i]) {
		rs[i] = unicode.ToLower(rs[i])
	} else {
		rs[i] = unicode.ToUpper(rs[i])
	}
	return string(rs)
}

var keyTypeDims = []keyDim{
	{"upper", func(_ *rand.Rand, t string, _ []string) string { return strings.ToUpper(t) }},
	{"one-letter-case", func(rng *rand.Rand, t string, _ []string) string { return swapCaseAt(t, rng.Intn(len(t))) }},
	{"first-letter-case", func(_ *rand.Rand, t string, _ []string) string { return swapCaseAt(t, 0) }},
	{"suffixed", func(_ *rand.Rand, t string, _ []string) string { return t + "x" }},
	{"prefixed", func(_ *rand.Rand, t string, _ []string) string { return "x" + t }},
	{"shortened", func(_ *rand.Rand, t string, _ []string) string { return t[:len(t)-1] }},
	{"dash-to-underscore", func(_ *rand.Rand, t string, _ []string) string { return strings.ReplaceAll(t, "-", "_") }},
	{"unknown", func(rng *rand.Rand, _ string, _ []string) string {
		return []string{"no-such-type", "bson-encoder", "msgpack-encoder", "zz", "no-such-response-header", "a-v1"}[rng.Intn(6)]
	}},
	{"other-registered", func(rng *rand.Rand, t string, others []string) string {
		if len(others) == 0 {
			return t + "-other"
		}
		return others[rng.Intn(len(others))]
	}},
	{"inner-space", func(rng *rand.Rand, t string, _ []string) string {
		if len(t) < 2 {
			return t + " x"
		}
		i := 1 + rng.Intn(len(t)-1)
		return t[:i] + " " + t[i:]
	}},
}

type keyVerDim struct {
	name string
	f    func(rng *rand.Rand, ma, mi, pa uint64) string
}

func vs(ma, mi, pa uint64) string { return fmt.Sprintf("v%d.%d.%d", ma, mi, pa) }

var keyVerDims = []keyVerDim{
	{"patch-higher", func(rng *rand.Rand, ma, mi, pa uint64) string { return vs(ma, mi, pa+1+uint64(rng.Intn(9))) }},
	{"patch-lower-or-zero", func(_ *rand.Rand, ma, mi, pa uint64) string {
		if pa > 0 {
			return vs(ma, mi, pa-1)
		}
		return vs(ma, mi, 0)
	}},
	{"minor-higher", func(rng *rand.Rand, ma, mi, pa uint64) string { return vs(ma, mi+1+uint64(rng.Intn(9)), pa) }},
	{"minor-lower-or-zero", func(_ *rand.Rand, ma, mi, pa uint64) string {
		if mi > 0 {
			return vs(ma, mi-1, pa)
		}
		return vs(ma, 0, 0)
	}},
	{"major-higher", func(rng *rand.Rand, ma, mi, pa uint64) string { return vs(ma+1+uint64(rng.Intn(9)), mi, pa) }},
	{"major-lower-or-other", func(_ *rand.Rand, ma, mi, pa uint64) string {
		if ma > 0 {
			return vs(ma-1, mi, pa)
		}
		return vs(7, mi, pa)
	}},
	{"short-major", func(_ *rand.Rand, ma, _, _ uint64) string { return fmt.Sprintf("v%d", ma) }},
	{"short-major-minor", func(_ *rand.Rand, ma, mi, _ uint64) string { return fmt.Sprintf("v%d.%d", ma, mi) }},
	{"short-other-major", func(rng *rand.Rand, ma, _, _ uint64) string { return fmt.Sprintf("v%d", ma+1+uint64(rng.Intn(9))) }},
	{"short-other-major-minor", func(rng *rand.Rand, ma, mi, _ uint64) string {
		return fmt.Sprintf("v%d.%d", ma+1+uint64(rng.Intn(9)), mi)
	}},
	{"upper-v", func(_ *rand.Rand, ma, mi, pa uint64) string { return "V" + vs(ma, mi, pa)[1:] }},
	{"prerelease", func(_ *rand.Rand, ma, mi, pa uint64) string { return vs(ma, mi, pa) + "-rc1" }},
	{"build-meta", func(_ *rand.Rand, ma, mi, pa uint64) string { return vs(ma, mi, pa) + "+b7" }},
	{"leading-zero", func(_ *rand.Rand, ma, mi, pa uint64) string { return fmt.Sprintf("v0%d.%d.%d", ma, mi, pa) }},
	{"huge-number", func(_ *rand.Rand, _, mi, pa uint64) string { return fmt.Sprintf("v99999999999999999999.%d.%d", mi, pa) }},
	{"four-numbers", func(_ *rand.Rand, ma, mi, pa uint64) string { return vs(ma, mi, pa) + ".0" }},
	{"twice", func(_ *rand.Rand, ma, mi, pa uint64) string { return vs(ma, mi, pa) + "-" + vs(ma, mi, pa) }},
	{"none", func(_ *rand.Rand, _, _, _ uint64) string { return "" }},
}

type keyPadDim struct {
	name       string
	pre, after string
}

var keyPadDims = []keyPadDim{
	{"space-after", "", " "},
	{"spaces-after", "", "   "},
	{"nul-after", "", "\x00"},
	{"nuls-after", "", "\x00\x00\x00"},
	{"space-nul-after", "", " \x00"},
	{"nul-space-after", "", "\x00 "},
	{"tab-after", "", "\t"},
	{"newline-after", "", "\n"},
	{"crlf-after", "", "\r\n"},
	{"space-before", " ", ""},
	{"nul-before", "\x00", ""},
	{"space-both", " ", " "},
	{"nbsp-after", "", " "},
	{"many-nuls-after", "", strings.Repeat("\x00", 64)},
}

type keyChoice struct {
	Type    string `json:"type"`
	Version string `json:"version"`
	Pad     string `json:"padding"`
	Key     string `json:"key"`
}

func (k keyChoice) label() string {
	return "type=" + k.Type + ",version=" + k.Version + ",pad=" + k.Pad
}

// keyVariant: each dimension is changed with probability 1/2, at least one is.
func keyVariant(rng *rand.Rand, canon string, others []string) keyChoice {
	m := reCanonHint.FindStringSubmatch(canon)
	if m == nil {
		return keyChoice{Type: "same", Version: "same", Pad: "space-after", Key: canon + " "}
	}
	t := m[1]
	var ma, mi, pa uint64
	fmt.Sscan(m[2], &ma)
	fmt.Sscan(m[3], &mi)
	fmt.Sscan(m[4], &pa)
	ct, cv, cp := rng.Intn(2) == 0, rng.Intn(2) == 0, rng.Intn(2) == 0
	if !ct && !cv && !cp {
		switch rng.Intn(3) {
		case 0:
			ct = true
		case 1:
			cv = true
		default:
			cp = true
		}
	}
	k := keyChoice{Type: "same", Version: "same", Pad: "none"}
	ver := vs(ma, mi, pa)
	pre, after := "", ""
	if ct {
		d := keyTypeDims[rng.Intn(len(keyTypeDims))]
		if nt := d.f(rng, t, others); nt != t {
			t, k.Type = nt, d.name
		}
	}
	if cv {
		d := keyVerDims[rng.Intn(len(keyVerDims))]
		if nv := d.f(rng, ma, mi, pa); nv != ver {
			ver, k.Version = nv, d.name
		}
	}
	if cp || (k.Type == "same" && k.Version == "same") {
		d := keyPadDims[rng.Intn(len(keyPadDims))]
		pre, after, k.Pad = d.pre, d.after, d.name
	}
	if ver == "" {
		k.Key = pre + t + after
	} else {
		k.Key = pre + t + "-" + ver + after
	}
	return k
}

// typed strings ("<body><3 letter type>"): variants of the type suffix
var keySuffixDims = []struct {
	name string
	f    func(rng *rand.Rand, s string) string
}{
	{"suffix-upper", func(_ *rand.Rand, s string) string {
		n := min(3, len(s))
		return s[:len(s)-n] + strings.ToUpper(s[len(s)-n:])
	}},
	{"suffix-unknown", func(_ *rand.Rand, s string) string { return s[:len(s)-min(3, len(s))] + "zzq" }},
	{"suffix-other-known", func(rng *rand.Rand, s string) string {
		return s[:len(s)-min(3, len(s))] + []string{"sas", "mpu", "mpr"}[rng.Intn(3)]
	}},
	{"suffix-space-after", func(_ *rand.Rand, s string) string { return s + " " }},
	{"suffix-nul-after", func(_ *rand.Rand, s string) string { return s + "\x00" }},
	{"suffix-cut", func(_ *rand.Rand, s string) string { return s[:len(s)-min(1, len(s))] }},
	{"suffix-only", func(_ *rand.Rand, s string) string { return s[len(s)-min(3, len(s)):] }},
	{"suffix-versioned", func(_ *rand.Rand, s string) string { return s + "-v0.0.1" }},
}

type jsonKeySite struct {
	path   string
	isHint bool
	get    func() string
	set    func(string)
}

func collectKeySites(v any, path, key string, set func(any), out *[]jsonKeySite) {
	switch t := v.(type) {
	case map[string]any:
		keys := make([]string, 0, len(t))
		for k := range t {
			keys = append(keys, k)
		}
		sort.Strings(keys)
		for _, k := range keys {
			k := k
			collectKeySites(t[k], path+"."+k, k, func(n any) { t[k] = n }, out)
		}
	case []any:
		for i := range t {
			i := i
			collectKeySites(t[i], fmt.Sprintf("%s[%d]", path, i), "", func(n any) { t[i] = n }, out)
		}
	case string:
		*out = append(*out, jsonKeySite{path: path, isHint: key == "_hint", get: func() string { return t }, set: func(s string) { set(s) }})
	}
}

// mutateJSONKey replaces one lookup key inside header bytes: a "_hint" value
// (the top level one half of the time) by a keyVariant of itself, or the
// type suffix of another string value.
func mutateJSONKey(rng *rand.Rand, js []byte, others []string) ([]byte, keyChoice, string, error) {
	dec := json.NewDecoder(bytes.NewReader(js))
	dec.UseNumber()
	var root any
	if err := dec.Decode(&root); err != nil {
		return nil, keyChoice{}, "", err
	}
	var sites []jsonKeySite
	collectKeySites(root, "", "", func(n any) { root = n }, &sites)
	var hints, strs []jsonKeySite
	for _, s := range sites {
		switch {
		case s.isHint:
			hints = append(hints, s)
		case len(s.get()) > 0:
			strs = append(strs, s)
		}
	}
	if len(hints) == 0 && len(strs) == 0 {
		return nil, keyChoice{}, "", fmt.Errorf("no string in header json")
	}
	var kc keyChoice
	var where string
	switch x := rng.Intn(10); {
	case len(strs) == 0 || (len(hints) > 0 && x < 5):
		st := hints[0] // keys are walked in sorted order: "._hint" of the top level object comes first
		for _, h := range hints {
			if h.path == "._hint" {
				st = h
			}
		}
		kc = keyVariant(rng, st.get(), others)
		st.set(kc.Key)
		where = st.path
	case len(hints) > 0 && x < 7:
		st := hints[rng.Intn(len(hints))]
		kc = keyVariant(rng, st.get(), others)
		st.set(kc.Key)
		where = st.path
	default:
		st := strs[rng.Intn(len(strs))]
		d := keySuffixDims[rng.Intn(len(keySuffixDims))]
		kc = keyChoice{Type: d.name, Version: "n/a", Pad: "n/a", Key: d.f(rng, st.get())}
		st.set(kc.Key)
		where = st.path
	}
	b, err := json.Marshal(root)
	if err != nil {
		return nil, keyChoice{}, "", err
	}
	return b, kc, where, nil
}
