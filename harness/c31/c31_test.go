package c31

import (
	"bytes"
	"fmt"
	"hash/fnv"
	"math/rand"
	"regexp"
	"strings"
	"testing"

	"github.com/spikeekips/mitum/util"
	"github.com/spikeekips/mitum/util/hint"
	"verifharness/vlib"
)

// ---------------------------------------------------------------- part A: hint strings

type hintCase struct {
	Type    string `json:"type"`
	Version string `json:"version"`
	Printed string `json:"printed,omitempty"`
	Via     string `json:"via,omitempty"`
	Parsed  string `json:"parsed,omitempty"`
	PType   string `json:"parsed_type,omitempty"`
	PVer    string `json:"parsed_version,omitempty"`
	Err     string `json:"err,omitempty"`
	VClass  string `json:"version_class,omitempty"`
	Input   string `json:"noisy_input,omitempty"`
}

var reHyphenVDigit = regexp.MustCompile(`-v\d`)

func typeClass(t string) string {
	if reHyphenVDigit.MatchString(t) {
		return "type-contains-hyphen-v-digit"
	}
	return "type-without-hyphen-v-digit"
}

type mon struct {
	r *vlib.Run

	versionClasses nameSet // printed versions by class
	inputForms     nameSet // shapes of the constructor input
	refusedForms   nameSet // shapes the constructors / IsValid refuse
	entryPoints    nameSet
	noiseKinds     nameSet
	noiseOutcomes  nameSet
	inconsistent   nameSet // pairs of versions on which Version.Compare is not an order
	nRichSamples   int
}

// sameHint: exactly the same type and version; the printed form byte for byte
// and the repository's own Version.Compare / Hint.Equal.
func sameHint(p hint.Hint, t hint.Type, v util.Version, s string) bool {
	pv := p.Version()
	return p.Type() == t &&
		pv.String() == v.String() &&
		pv.Compare(v) == 0 && v.Compare(pv) == 0 &&
		pv.Major() == v.Major() && pv.Minor() == v.Minor() && pv.Patch() == v.Patch() &&
		pv.Prerelease() == v.Prerelease() &&
		p.String() == s && bytes.Equal(p.Bytes(), []byte(s)) &&
		p.Equal(hint.NewHint(t, v))
}

// checkHint: one (type, version) already known to be valid. rich: also the
// registry entry points with this single hint registered, and noisy inputs.
func (m *mon) checkHint(t hint.Type, v util.Version, via string, rich bool) {
	r := m.r
	hc := hintCase{Type: string(t), Version: v.String(), Via: via}
	r.Guard("NewHint/ParseHint", hc, func() {
		h := hint.NewHint(t, v)
		if err := h.IsValid(nil); err != nil {
			// not "a hint made from a valid type and version" in the sense of Hint.IsValid (e.g. version longer than 20)
			r.Count("skipped_hint_invalid_by_IsValid", 1)
			m.refusedForms.add("Hint.IsValid:version-longer-than-MaxVersionLength")
			return
		}
		s := h.String()
		hc.Printed = s
		tclass, vclass := typeClass(string(t)), versionClass(v)
		hc.VClass = vclass
		r.Case("h/" + s)
		r.Count("hints_printed_and_parsed", 1)
		r.SetAdd("type_classes", tclass)
		r.Count("hints_"+tclass, 1)
		m.versionClasses.add(vclass)
		if v.Prerelease() != "" {
			r.Count("hints_with_prerelease", 1)
		}
		if strings.IndexByte(v.String(), '+') >= 0 {
			r.Count("hints_with_build_metadata", 1)
		}
		if strings.ToLower(v.String()) != v.String() {
			r.Count("hints_with_upper_case_letter_in_version", 1)
		}
		if rich && m.nRichSamples < 2 && strings.ToLower(v.String()) != v.String() && v.Prerelease() != "" && (m.nRichSamples == 0 || via != "directed-version") {
			m.nRichSamples++
			r.Sample(hc)
		}

		judge := func(fn string, p hint.Hint, err error) {
			c := hc
			m.entryPoints.add(fn)
			if err != nil {
				c.Err = err.Error()
				r.Violation(fmt.Sprintf("%s:error-on-printed-hint:%s:version-class=%s", fn, tclass, vclass),
					fmt.Sprintf("%s(%q) failed: %v; printed from type %q version %q", fn, s, err, t, v), c)
				return
			}
			if sameHint(p, t, v, s) {
				r.Count("parsed_back_identical", 1)
				return
			}
			c.Parsed, c.PType, c.PVer = p.String(), string(p.Type()), p.Version().String()
			validity := "parsed-hint-invalid"
			if p.IsValid(nil) == nil {
				validity = "parsed-hint-valid"
			}
			r.Violation(fmt.Sprintf("%s:printed-hint-parses-to-different-hint:%s:%s:version-class=%s", fn, validity, tclass, vclass),
				fmt.Sprintf("NewHint(%q, %q).String() = %q; %s gives %q = type %q version %q prerelease %q (%s)", t, v, s, fn, p.String(), p.Type(), p.Version(), p.Version().Prerelease(), validity), c)
		}

		p, err := hint.ParseHint(s)
		judge("ParseHint", p, err)

		var u hint.Hint
		err = u.UnmarshalText([]byte(s))
		judge("Hint.UnmarshalText", u, err)

		judge("EnsureParseHint", hint.EnsureParseHint(s), nil)

		func() {
			defer func() {
				if e := recover(); e != nil {
					judge("MustNewHint", hint.Hint{}, fmt.Errorf("panic: %v", e))
				}
			}()
			judge("MustNewHint", hint.MustNewHint(s), nil)
		}()

		if !rich {
			return
		}

		// text and JSON encodings of the hint
		if b, err := h.MarshalText(); err != nil || string(b) != s {
			judge("Hint.MarshalText", hint.Hint{}, fmt.Errorf("MarshalText gives %q, %v", b, err))
		} else {
			var w hint.Hint
			err = w.UnmarshalText(b)
			judge("Hint.MarshalText/UnmarshalText", w, err)
		}
		if b, err := util.MarshalJSON(hint.NewHinterJSONHead(h)); err != nil {
			judge("JSON(_hint)", hint.Hint{}, err)
		} else {
			var head hint.HinterJSONHead
			err = util.UnmarshalJSON(b, &head)
			judge("JSON(_hint)", head.H, err)
			var shead hint.HintedJSONHead
			if err = util.UnmarshalJSON(b, &shead); err != nil {
				judge("JSON(_hint-string)/ParseHint", hint.Hint{}, err)
			} else {
				p, err = hint.ParseHint(shead.H)
				judge("JSON(_hint-string)/ParseHint", p, err)
			}
		}

		// the registry with this one hint registered: every lookup hands back exactly this hint
		var sets []*hint.CompatibleSet[int]
		for _, cs := range []int{0, 8} {
			st := hint.NewCompatibleSet[int](cs)
			if err := st.Add(h, 7); err != nil {
				judge("CompatibleSet.Add", hint.Hint{}, err)
				continue
			}
			sets = append(sets, st)
			for round := 0; round < 2; round++ { // second round is served by the cache when it is on
				fh, fv, found, err := st.FindByString(s)
				m.judgeRegistered("CompatibleSet.FindByString", judge, fh, fv, found, err)
				fv, found = st.Find(h)
				m.judgeRegistered("CompatibleSet.Find", judge, h, fv, found, nil)
				fh, fv, found = st.FindBytType(t)
				m.judgeRegistered("CompatibleSet.FindBytType", judge, fh, fv, found, nil)
				fh, fv, found, err = st.FindBytTypeString(string(t))
				m.judgeRegistered("CompatibleSet.FindBytTypeString", judge, fh, fv, found, err)
			}
			n := 0
			st.Traverse(func(th hint.Hint, tv int) bool {
				n++
				m.judgeRegistered("CompatibleSet.Traverse", judge, th, tv, true, nil)
				return true
			})
			if n != 1 {
				judge("CompatibleSet.Traverse", hint.Hint{}, fmt.Errorf("%d entries after one Add", n))
			}
		}

		// noise around the printed hint: an error, an invalid hint, or exactly this hint
		for _, ni := range noisyInputs(t, v, s) {
			m.noiseKinds.add(ni.kind)
			njudge := func(fn string, p hint.Hint, err error) {
				r.Count("noisy_inputs_parsed", 1)
				m.entryPoints.add(fn + "(noisy)")
				switch {
				case err != nil:
					m.noiseOutcomes.add("error")
				case p.IsValid(nil) != nil:
					m.noiseOutcomes.add("invalid-hint")
				case sameHint(p, t, v, s):
					m.noiseOutcomes.add("the-printed-hint")
				default:
					c := hc
					c.Input = ni.s
					c.Parsed, c.PType, c.PVer = p.String(), string(p.Type()), p.Version().String()
					r.Violation(fmt.Sprintf("%s:noisy-input-parses-to-different-valid-hint:noise=%s:%s:version-class=%s", fn, ni.kind, tclass, vclass),
						fmt.Sprintf("%q printed from type %q version %q; with noise (%s) %s(%q) gives the valid hint %q = type %q version %q", s, t, v, ni.kind, fn, ni.s, p.String(), p.Type(), p.Version()), c)
				}
			}
			p, err := hint.ParseHint(ni.s)
			njudge("ParseHint", p, err)
			var u hint.Hint
			err = u.UnmarshalText([]byte(ni.s))
			njudge("Hint.UnmarshalText", u, err)
			for _, st := range sets {
				fh, _, _, err := st.FindByString(ni.s)
				njudge("CompatibleSet.FindByString", fh, err)
			}
		}
	})
}

// orderViolation: Version.Compare is not sign-antisymmetric / not transitive on
// versions the workload generated; "the highest registered version" of the
// lookup clause is not defined then.
func (m *mon) orderViolation(kind, what string, about util.Version, where string) {
	m.inconsistent.add(what)
	m.r.Violation(fmt.Sprintf("Version.Compare:not-an-order:%s:%s", kind, orderClass(about)),
		fmt.Sprintf("Version.Compare is not an order (%s) on %s: %s", kind, where, what), map[string]string{"kind": kind, "case": what, "where": where})
}

func newRichPoolHint(t hint.Type, v util.Version, ti, major int) (poolHint, bool) {
	ph := poolHint{h: hint.NewHint(t, v), ti: ti, major: major, rank: -1, mv: parseModelVer(v.String())}
	return ph, ph.mv.ok
}

func (m *mon) judgeRegistered(fn string, judge func(string, hint.Hint, error), h hint.Hint, v int, found bool, err error) {
	switch {
	case err != nil:
		judge(fn, hint.Hint{}, err)
	case !found:
		judge(fn, hint.Hint{}, fmt.Errorf("registered hint not found"))
	case v != 7:
		judge(fn, hint.Hint{}, fmt.Errorf("value %d of another entry", v))
	default:
		judge(fn, h, nil)
	}
}

func validType(s string) bool { return hint.Type(s).IsValid(nil) == nil }

func genVersion(rng *rand.Rand) (util.Version, bool) {
	var sb strings.Builder
	big := []int{0, 1, 2, 9, 10, 11, 99, 100, 1234}
	pick := func() int {
		if rng.Intn(3) == 0 {
			return big[rng.Intn(len(big))]
		}
		return rng.Intn(4)
	}
	fmt.Fprintf(&sb, "v%d.%d.%d", pick(), pick(), pick())
	if rng.Intn(2) == 0 {
		pres := []string{"v2", "v2.0.0", "rc.1", "beta", "0", "a-v1", "v1-v2", "alpha.v3", "x-y.z"}
		sb.WriteString("-" + pres[rng.Intn(len(pres))])
	}
	if rng.Intn(4) == 0 {
		metas := []string{"ok", "v9", "b-v1.0.0", "compatible"}
		sb.WriteString("+" + metas[rng.Intn(len(metas))])
	}
	v, err := util.ParseVersion(sb.String())
	if err != nil || v.IsValid(nil) != nil || len(v.String()) > hint.MaxVersionLength {
		return util.Version{}, false
	}
	return v, true
}

func genType(rng *rand.Rand) string {
	const first = "abcdefghijklmnopqrstuvwxyz0123456789"
	const mid = "avv11--_+abz09" // biased to the characters that matter
	parts := []string{"-v1", "-v", "v1", "-v10", "-v0", "-", "a", "1", "_", "+", "-v2-v3", "v-"}
	var l int
	switch rng.Intn(4) {
	case 0:
		l = 2 + rng.Intn(6)
	case 1:
		l = 90 + rng.Intn(11)
	default:
		l = 2 + rng.Intn(40)
	}
	var sb strings.Builder
	sb.WriteByte(first[rng.Intn(len(first))])
	for sb.Len() < l-1 {
		if rng.Intn(3) == 0 {
			sb.WriteString(parts[rng.Intn(len(parts))])
		} else {
			sb.WriteByte(mid[rng.Intn(len(mid))])
		}
	}
	s := sb.String()
	if len(s) > l-1 {
		s = s[:l-1]
	}
	return s + string(first[rng.Intn(len(first))])
}

// ---------------------------------------------------------------- part B: CompatibleSet

var setTypes = []hint.Type{"alpha", "be-ta", "ga+mma_1"}

// versions of one major, ascending
var minorSpecs = []string{"%d.0.0", "%d.0.1", "%d.1.0", "%d.2.3-beta", "%d.2.3", "%d.10.0"}

type poolHint struct {
	mv    modelVer // rich pools: the printed version read by the harness' own semver model
	h     hint.Hint
	ti    int
	major int
	rank  int
}

func hintPool() []poolHint {
	var pool []poolHint
	for ti, t := range setTypes {
		for major := 0; major < 3; major++ {
			for rank, f := range minorSpecs {
				v := util.MustNewVersion("v" + fmt.Sprintf(f, major))
				pool = append(pool, poolHint{h: hint.NewHint(t, v), ti: ti, major: major, rank: rank})
			}
		}
	}
	return pool
}

type regEntry struct {
	ph    poolHint
	value int
	hint  string
}

func sign(i int) int {
	switch {
	case i < 0:
		return -1
	case i > 0:
		return 1
	}
	return 0
}

type op struct {
	Op   string `json:"op"`
	Arg  string `json:"arg"`
	Val  int    `json:"value,omitempty"`
	Res  string `json:"result,omitempty"`
	Want string `json:"model,omitempty"`
}

type seqWitness struct {
	CacheSize int  `json:"cache_size"`
	Ops       []op `json:"ops"`
}

func (m *mon) runSequence(seqNo int, cacheSize int, script []scriptOp, pool []poolHint, via string) {
	r := m.r
	st := hint.NewCompatibleSet[int](cacheSize)
	registered := map[[2]int][]regEntry{} // (type index, major) -> successful Adds
	byValue := map[int]poolHint{}
	var ops []op
	var fp strings.Builder
	adds, finds := 0, 0

	rich := len(pool) > 0 && pool[0].rank < 0
	// order of two registered hints: the classic pool has its own ranks; the
	// rich pool is ordered by the harness' own semver precedence (cmpModelVer),
	// never by the repository's Version.Compare
	cmp := func(a, b poolHint) int {
		if a.rank >= 0 && b.rank >= 0 {
			return sign(a.rank - b.rank)
		}
		return cmpModelVer(a.mv, b.mv)
	}
	inconsistent := map[[2]int]bool{} // groups on whose registered versions Version.Compare is not a total preorder
	noteAdded := func(key [2]int, x poolHint) {
		if inconsistent[key] {
			return
		}
		vs := make([]util.Version, 0, len(registered[key]))
		for _, e := range registered[key] {
			vs = append(vs, e.ph.h.Version())
		}
		r.Count("Version.Compare_order_checks", 1)
		if kind, what, about := orderDefect(x.h.Version(), vs); kind != "" {
			inconsistent[key] = true
			m.orderViolation(kind, what, about, fmt.Sprintf("versions registered for one type and major [sequence %s #%d]", via, seqNo))
		}
	}

	// model: the registered entries with that type and major which no other one exceeds
	model := func(ph poolHint) (int, bool, []regEntry) {
		key := [2]int{ph.ti, ph.major}
		es := registered[key]
		if len(es) == 0 {
			return 0, false, nil
		}
		best := es[0]
		for _, e := range es[1:] {
			if cmp(e.ph, best.ph) > 0 {
				best = e
			}
		}
		var ties []regEntry
		for _, e := range es {
			if cmp(e.ph, best.ph) == 0 {
				ties = append(ties, e)
			}
		}
		return best.value, true, ties
	}

	sigTail := func(ph poolHint) string {
		if !rich {
			return ""
		}
		return ":version-class=" + versionClass(ph.h.Version())
	}

	judge := func(fn string, ph poolHint, got int, found bool, prevAddLower bool) {
		want, wfound, ties := model(ph)
		o := &ops[len(ops)-1]
		o.Res = fmt.Sprintf("value=%d found=%v", got, found)
		o.Want = fmt.Sprintf("value=%d found=%v", want, wfound)
		if inconsistent[[2]int{ph.ti, ph.major}] { // reported on its own; the lookup is judged all the same
			r.Count("lookups_in_groups_where_Version.Compare_is_not_an_order", 1)
		}
		r.Count("lookups_judged", 1)
		if rich {
			r.Count("lookups_judged_rich_versions", 1)
		}
		ok := found == wfound
		if ok && found {
			ok = false
			for _, e := range ties {
				if e.value == got {
					ok = true
				}
			}
		}
		if ok {
			r.Count("lookups_agree_with_model", 1)
			return
		}
		var class string
		switch {
		case wfound && !found:
			class = "not-found-but-registered"
		case !wfound && found:
			class = "found-but-nothing-registered-for-type-and-major"
		default:
			g, known := byValue[got]
			switch {
			case known && g.ti == ph.ti && g.major == ph.major:
				class = "returned-lower-compatible-version"
			default:
				class = "returned-unrelated-entry"
			}
		}
		if prevAddLower {
			class += ":right-after-add-of-lower-version"
		}
		cache := "cache-on"
		if cacheSize <= 0 {
			cache = "cache-off"
		}
		w := seqWitness{CacheSize: cacheSize, Ops: append([]op{}, ops...)}
		r.Violation(fmt.Sprintf("CompatibleSet.%s:%s:%s%s", fn, class, cache, sigTail(ph)),
			fmt.Sprintf("%s(%s) = (%d, %v); registered entries with that type and major: highest is value %d (found=%v) [sequence %s #%d, %d ops]", fn, ph.h, got, found, want, wfound, via, seqNo, len(ops)), w)
	}

	// a hint handed back by a lookup: invalid (nothing), or exactly the expected one
	judgeHint := func(fn string, ph poolHint, fh hint.Hint, allowed func(string) bool, what string) {
		r.Count("lookup_returned_hints_judged", 1)
		if fh.IsValid(nil) != nil {
			return
		}
		if allowed(fh.String()) && fh.Type() == ph.h.Type() {
			return
		}
		w := seqWitness{CacheSize: cacheSize, Ops: append([]op{}, ops...)}
		r.Violation(fmt.Sprintf("CompatibleSet.%s:%s%s", fn, what, sigTail(ph)),
			fmt.Sprintf("%s for %s handed back the valid hint %q (type %q version %q) [sequence %s #%d, %d ops]", fn, ph.h, fh.String(), fh.Type(), fh.Version(), via, seqNo, len(ops)), w)
	}
	registeredString := func(t hint.Type) func(string) bool {
		return func(s string) bool {
			for _, es := range registered {
				for _, e := range es {
					if e.hint == s && e.ph.h.Type() == t {
						return true
					}
				}
			}
			return false
		}
	}

	lastAddLower := "" // hint string whose Add was of a lower version than the registered highest
	for _, so := range script {
		ph := pool[so.hint]
		fmt.Fprintf(&fp, "%s%d,", so.kind, so.hint)
		switch so.kind {
		case "Add":
			value := len(ops) + 1
			ops = append(ops, op{Op: "Add", Arg: ph.h.String(), Val: value})
			wantBefore, had, _ := model(ph)
			err := st.Add(ph.h, value)
			if err != nil {
				ops[len(ops)-1].Res = "error: " + err.Error()
				r.Count("adds_refused", 1)
				lastAddLower = ""
				continue
			}
			ops[len(ops)-1].Res = "ok"
			adds++
			r.Count("adds_ok", 1)
			lower := false
			key := [2]int{ph.ti, ph.major}
			if had {
				if e, ok := byValue[wantBefore]; ok && cmp(e, ph) > 0 {
					lower = true
				}
			}
			noteAdded(key, ph)
			registered[key] = append(registered[key], regEntry{ph: ph, value: value, hint: ph.h.String()})
			byValue[value] = ph
			if rich {
				r.Count("adds_ok_rich_versions", 1)
				m.versionClasses.add("registry:" + versionClass(ph.h.Version()))
			}
			lastAddLower = ""
			if lower {
				lastAddLower = ph.h.String()
				r.Count("adds_of_lower_compatible_version", 1)
			}
			continue
		case "Find":
			ops = append(ops, op{Op: "Find", Arg: ph.h.String()})
			got, found := st.Find(ph.h)
			finds++
			judge("Find", ph, got, found, lastAddLower == ph.h.String())
		case "FindByString":
			ops = append(ops, op{Op: "FindByString", Arg: ph.h.String()})
			fh, got, found, err := st.FindByString(ph.h.String())
			finds++
			if err != nil {
				ops[len(ops)-1].Res = "error: " + err.Error()
				r.Violation("CompatibleSet.FindByString:error-on-printed-hint", fmt.Sprintf("FindByString(%q): %v", ph.h.String(), err), seqWitness{CacheSize: cacheSize, Ops: append([]op{}, ops...)})
			} else {
				judge("FindByString", ph, got, found, lastAddLower == ph.h.String())
				judgeHint("FindByString", ph, fh, func(s string) bool { return s == ph.h.String() }, "returned-valid-hint-differs-from-printed")
			}
		case "FindBytType": // which entry is not judged (perturbs the cache); the hint handed back is
			ops = append(ops, op{Op: "FindBytType", Arg: string(ph.h.Type())})
			fh, _, found := st.FindBytType(ph.h.Type())
			r.Count("perturbing_lookups", 1)
			if found {
				ops[len(ops)-1].Res = fh.String()
				judgeHint("FindBytType", ph, fh, registeredString(ph.h.Type()), "returned-valid-hint-never-registered")
			}
		case "FindBytTypeString":
			ops = append(ops, op{Op: "FindBytTypeString", Arg: string(ph.h.Type())})
			fh, _, found, _ := st.FindBytTypeString(string(ph.h.Type()))
			r.Count("perturbing_lookups", 1)
			if found {
				ops[len(ops)-1].Res = fh.String()
				judgeHint("FindBytTypeString", ph, fh, registeredString(ph.h.Type()), "returned-valid-hint-never-registered")
			}
		case "FindGarbage":
			s := []string{"", "alpha", "alpha-", "no version here", "be-ta-vx"}[so.hint%5]
			ops = append(ops, op{Op: "FindByString", Arg: s})
			_, _, _, _ = st.FindByString(s)
			r.Count("perturbing_lookups", 1)
		}
		lastAddLower = ""
	}
	if adds > 0 && finds > 0 {
		h := fnv.New64a()
		h.Write([]byte(fp.String()))
		if rich {
			for _, ph := range pool { // the pool differs from sequence to sequence
				h.Write([]byte(ph.h.String() + ","))
			}
			r.Case(fmt.Sprintf("seq-rich/c%d/%x", cacheSize, h.Sum64()))
		} else {
			r.Case(fmt.Sprintf("seq/c%d/%x", cacheSize, h.Sum64()))
		}
	} else {
		r.Eval(1)
	}
	if seqNo < 1 && cacheSize > 0 && (via == "random" || via == "random-rich-versions") {
		r.Sample(seqWitness{CacheSize: cacheSize, Ops: ops})
	}
}

type scriptOp struct {
	kind string
	hint int
}

func genScript(rng *rand.Rand, pool []poolHint) []scriptOp {
	n := 8 + rng.Intn(40)
	// concentrate on one or two (type, major) groups so that compatible versions meet
	focus := []int{rng.Intn(len(pool)/6) * 6}
	if rng.Intn(2) == 0 {
		focus = append(focus, rng.Intn(len(pool)/6)*6)
	}
	pick := func() int {
		if rng.Intn(8) == 0 {
			return rng.Intn(len(pool))
		}
		return focus[rng.Intn(len(focus))] + rng.Intn(6)
	}
	var sc []scriptOp
	for len(sc) < n {
		switch k := rng.Intn(20); {
		case k < 7:
			h := pick()
			sc = append(sc, scriptOp{"Add", h})
			if rng.Intn(2) == 0 { // lookup of exactly what was just added
				sc = append(sc, scriptOp{[]string{"Find", "FindByString"}[rng.Intn(2)], h})
			}
		case k < 12:
			sc = append(sc, scriptOp{"Find", pick()})
		case k < 16:
			sc = append(sc, scriptOp{"FindByString", pick()})
		case k < 17:
			sc = append(sc, scriptOp{"FindBytType", pick()})
		case k < 18:
			sc = append(sc, scriptOp{"FindBytTypeString", pick()})
		default:
			sc = append(sc, scriptOp{"FindGarbage", rng.Intn(5)})
		}
	}
	// final sweep: every hint of the focus groups
	for _, f := range focus {
		for i := 0; i < 6; i++ {
			sc = append(sc, scriptOp{"Find", f + i})
		}
	}
	return sc
}

// ---------------------------------------------------------------- test

func TestC31(t *testing.T) {
	r := vlib.Start(t, "C31", vlib.LevelExploration)
	defer r.Finish()
	r.SetRule("part A: case = (valid Type, valid Version) -> NewHint(t,v).String() -> every parsing entry point (ParseHint, MustNewHint, EnsureParseHint, Hint.UnmarshalText, MarshalText->UnmarshalText, JSON {_hint} -> Hint and -> string -> ParseHint), result compared with the printed hint: type, printed form byte for byte, Version.Compare both ways, major/minor/patch/prerelease, Hint.Equal; " +
		"(the text/JSON encodings only in A3) A1 exhaustive over all valid types over {a,v,1,-} up to length 6 x {v0.0.1, v1.2.3, v1.0.0-v2, v10.0.0}; A2 PRNG types up to 100 chars over [a-z0-9-_+] rich in '-v<digit>' with simple PRNG versions; " +
		"A3 versions over the whole grammar util.ParseVersion accepts: a directed list of every shape x 8 types, then PRNG versions (with/without v prefix, major/minor/patch in {0..3,9,10,11,99,100,65535,2^32}, short and zero-padded main part, 0-3 prerelease identifiers and 0-2 build identifiers over [0-9A-Za-z-]: numeric, lower, UPPER, MiXed, alphanumeric, hyphenated) each with its siblings that differ only in letter case / only in prerelease / only in build metadata; for A3 cases additionally a CompatibleSet (cache off and on) with that one hint registered: FindByString, Find, FindBytType, FindBytTypeString, Traverse must hand back exactly that hint, and noisy inputs around the printed hint (spaces, tabs, newlines, NULs on either side, upper-cased type part, whole string upper-cased) through ParseHint, Hint.UnmarshalText and FindByString must give an error, an invalid hint or exactly the printed hint; distinct = printed string (version class in coverage.version_classes). " +
		"part B: case = one PRNG sequence of Add/Find/FindByString (+ FindBytType, FindBytTypeString, garbage FindByString that perturb the cache) on a real CompatibleSet[int] with cache off/on, every lookup compared with a cache-free list of the successful Adds ordered by a model independent of Version.Compare; B1 classic pool 3 types x 3 majors x 6 numeric versions; B2 directed: 12 (lower, higher) pairs that differ only in prerelease (rc.1/rc.2, alpha/beta, 1/2, 9/10, B/a, rc.1/release, alpha/alpha.1, ...) x both insertion orders x Find/FindByString of lower, higher and a third version of that major; directed sequences on one group {v1.0.0-RC1, v1.0.0-rc1, v1.0.0, v1.0.0+B7, v1.1.0-bEta.2+X86, v1.1.0-beta.2}, then a PRNG pool per sequence: 2-3 (type, major) groups x 6 versions that differ in minor/patch, only in prerelease, only in build metadata or only in letter case (majors 0,1,9,10,2^32); the hint handed back by FindByString must be invalid or the printed one, by FindBytType(String) a registered one; distinct = (cache, pool, op sequence); non-trivial = at least one Add and one lookup")
	r.Assume("valid type = Type.IsValid nil; valid version = produced by util.ParseVersion and Version.IsValid nil; pairs whose Hint.IsValid fails (version longer than 20) are skipped; version strings the constructor refuses are counted (coverage.version_forms_refused), not judged")
	r.Assume("an Add that returns an error registered nothing; the highest version: classic pool (B1) by the generator's own ordering of the numeric versions; rich pools (B2) by the harness' own reading of semver.org section 11 on the printed version string (major, minor, patch numerically; no prerelease above any prerelease; prerelease identifiers left to right, numeric numerically, alphanumeric in ASCII order, numeric below alphanumeric, more fields higher; build metadata ignored, so between two registered versions that differ only in build metadata either entry is accepted) - never by Version.Compare")
	r.Assume("the lookup clause presupposes that Version.Compare is an order: on every group of registered versions (B) and every sibling family (A3) it must be sign-antisymmetric and transitive, otherwise Version.Compare:not-an-order is reported")
	r.Assume("noisy input: only what surrounds the printed hint or the letter case of the type part is altered; an error, a hint that fails IsValid, or exactly the printed hint are all acceptable answers")
	m := &mon{r: r}

	// ---- A1 exhaustive
	alphabet := []byte("av1-")
	maxLen := 6
	versions := []util.Version{}
	for _, s := range []string{"v0.0.1", "v1.2.3", "v1.0.0-v2", "v10.0.0"} {
		versions = append(versions, util.MustNewVersion(s))
	}
	var nTypes, nValid int
	var rec func(prefix []byte)
	rec = func(prefix []byte) {
		if len(prefix) >= hint.MinTypeLength {
			nTypes++
			if validType(string(prefix)) {
				nValid++
				for _, v := range versions {
					m.checkHint(hint.Type(prefix), v, "exhaustive", false)
				}
			}
		}
		if len(prefix) == maxLen {
			return
		}
		for _, c := range alphabet {
			rec(append(append([]byte{}, prefix...), c))
		}
	}
	rec(nil)
	r.Exhaustive(true)
	r.Set("exhaustive_bound", fmt.Sprintf("part A: all %d strings over {a,v,1,-} of length 2..%d, %d valid types, x %d versions; parts A(random) and B are sampled", nTypes, maxLen, nValid, len(versions)))
	r.Sample(hintCase{Type: "a-v1", Version: "v0.0.1", Printed: hint.NewHint("a-v1", versions[0]).String(), Via: "exhaustive"})

	// ---- A2 random long types and versions
	nA := r.N(20000, 400000)
	for i := 0; i < nA; i++ {
		rng := r.Rand(31, 1, i)
		ts := genType(rng)
		if !validType(ts) {
			r.Count("generated_types_invalid", 1)
			continue
		}
		v, ok := genVersion(rng)
		if !ok {
			r.Count("generated_versions_invalid", 1)
			continue
		}
		m.checkHint(hint.Type(ts), v, "random", false)
		if i < 1 {
			r.Sample(hintCase{Type: ts, Version: v.String(), Printed: hint.NewHint(hint.Type(ts), v).String(), Via: "random"})
		}
	}

	// ---- A3 versions over the whole grammar, registry with one entry, noise
	var family []util.Version // the valid versions of the current sibling family
	tryVersion := func(t hint.Type, in, form, via string) {
		m.inputForms.add(form)
		v, err := util.ParseVersion(in)
		if err != nil {
			r.Count("version_strings_refused_by_constructor", 1)
			m.refusedForms.add("ParseVersion:" + form)
			return
		}
		r.Count("versions_full_grammar", 1)
		family = append(family, v)
		m.checkHint(t, v, via, true)
	}
	// the lookup clause needs "highest version": Version.Compare must be an order on the versions generated
	checkFamilyOrder := func(where string) {
		for i := 1; i < len(family); i++ {
			r.Count("Version.Compare_order_checks", 1)
			if kind, what, about := orderDefect(family[i], family[:i]); kind != "" {
				m.orderViolation(kind, what, about, where)
				break
			}
		}
		family = family[:0]
	}
	for _, in := range directedVersionInputs {
		for _, t := range directedTypes {
			tryVersion(t, in, "directed", "directed-version")
		}
		family = family[:0]
	}
	for _, in := range directedVersionInputs { // same main part v1.2.3 for most of them: one family
		if v, err := util.ParseVersion(in); err == nil && v.Major() == 1 && v.Minor() == 2 && v.Patch() == 3 && len(family) < 40 {
			family = append(family, v)
		}
	}
	checkFamilyOrder("the directed versions with main part v1.2.3")
	nV := r.N(500, 40000)
	for i := 0; i < nV; i++ {
		rng := r.Rand(31, 3, i)
		t := directedTypes[rng.Intn(len(directedTypes))]
		if rng.Intn(2) == 0 {
			if ts := genType(rng); validType(ts) {
				t = hint.Type(ts)
			}
		}
		p := genVerParts(rng)
		tryVersion(t, p.String(), p.form, "random-version")
		p.prefix = "v"
		sb := siblings(rng, p)
		r.Count("version_sibling_families", 1)
		for _, q := range sb {
			tryVersion(t, q.String(), q.form, "random-version-sibling")
		}
		checkFamilyOrder(fmt.Sprintf("a version and its siblings [family %d]", i))
	}

	// ---- B sequences
	pool := hintPool()
	for _, ph := range pool {
		if err := ph.h.IsValid(nil); err != nil {
			r.Inconclusive("pool hint invalid: " + err.Error())
			return
		}
	}
	// directed: the shortest sequences around an Add of a lower compatible version
	idx := func(ti, major, rank int) int { return ti*18 + major*6 + rank }
	directed := [][]scriptOp{
		{{"Add", idx(0, 1, 4)}, {"Add", idx(0, 1, 0)}, {"Find", idx(0, 1, 0)}},
		{{"Add", idx(0, 1, 4)}, {"Add", idx(0, 1, 0)}, {"FindByString", idx(0, 1, 0)}},
		{{"Add", idx(0, 1, 0)}, {"Add", idx(0, 1, 4)}, {"Find", idx(0, 1, 0)}, {"Find", idx(0, 1, 4)}},
		{{"Find", idx(1, 2, 3)}, {"Add", idx(1, 2, 3)}, {"Find", idx(1, 2, 3)}, {"Add", idx(1, 2, 4)}, {"Find", idx(1, 2, 3)}},
		{{"Add", idx(2, 0, 3)}, {"Add", idx(2, 0, 4)}, {"Find", idx(2, 0, 3)}, {"FindBytType", idx(2, 0, 0)}, {"Add", idx(2, 1, 0)}, {"Find", idx(2, 0, 5)}},
	}
	for i, sc := range directed {
		for _, cs := range []int{0, 8} {
			r.Guard("CompatibleSet", fmt.Sprintf("directed %d cache %d", i, cs), func() { m.runSequence(i, cs, sc, pool, "directed") })
		}
	}
	nB := r.N(2000, 50000)
	for i := 0; i < nB; i++ {
		sc := genScript(r.Rand(31, 2, i), pool)
		for _, cs := range []int{0, 8} {
			r.Guard("CompatibleSet", fmt.Sprintf("random sequence %d cache %d", i, cs), func() { m.runSequence(i, cs, sc, pool, "random") })
		}
	}
	// the harness' model of precedence against the examples of semver.org section 11
	chain := []string{"v1.0.0-alpha", "v1.0.0-alpha.1", "v1.0.0-alpha.beta", "v1.0.0-beta", "v1.0.0-beta.2", "v1.0.0-beta.11", "v1.0.0-rc.1", "v1.0.0", "v2.0.0", "v2.1.0", "v2.1.1", "v10.0.0", "v4294967296.0.0"}
	for i := range chain {
		for j := range chain {
			a, b := parseModelVer(chain[i]), parseModelVer(chain[j]+"+B-7.01")
			if !a.ok || !b.ok || cmpModelVer(a, b) != sign(i-j) {
				r.Inconclusive(fmt.Sprintf("harness model of semver precedence is wrong on %s vs %s", chain[i], chain[j]))
				return
			}
		}
	}

	// directed: one group whose versions differ only in letter case, only in prerelease, only in build metadata
	var dpool []poolHint
	for _, vs := range []string{"v1.0.0-RC1", "v1.0.0-rc1", "v1.0.0", "v1.0.0+B7", "v1.1.0-bEta.2+X86", "v1.1.0-beta.2"} {
		ph, ok := newRichPoolHint("al-v1pha", util.MustNewVersion(vs), 0, 1)
		if !ok {
			r.Inconclusive("harness model does not read " + vs)
			return
		}
		dpool = append(dpool, ph)
	}
	directedRich := [][]scriptOp{
		{{"Add", 1}, {"Add", 0}, {"Find", 0}, {"Find", 1}, {"FindByString", 0}, {"FindByString", 1}, {"Find", 2}},
		{{"Add", 0}, {"Add", 1}, {"FindByString", 0}, {"FindByString", 1}, {"Find", 0}},
		{{"Add", 2}, {"Add", 3}, {"FindByString", 3}, {"Find", 3}, {"FindBytType", 0}, {"FindByString", 2}},
		{{"Add", 3}, {"Add", 2}, {"FindByString", 2}, {"FindByString", 3}, {"FindBytTypeString", 0}},
		{{"Add", 5}, {"Add", 4}, {"Find", 4}, {"FindByString", 4}, {"FindByString", 5}, {"Add", 0}, {"FindByString", 0}, {"FindByString", 1}},
		{{"FindByString", 0}, {"Add", 2}, {"FindByString", 0}, {"FindByString", 4}, {"Add", 4}, {"FindByString", 0}, {"FindByString", 3}},
	}
	for i, sc := range directedRich {
		for _, cs := range []int{0, 8} {
			r.Guard("CompatibleSet", fmt.Sprintf("directed (rich versions) %d cache %d", i, cs), func() { m.runSequence(i, cs, sc, dpool, "directed-rich-versions") })
		}
	}
	// directed: two versions of one type and major whose precedence is decided by the prerelease
	// (lower, higher), both insertion orders; every lookup entry point must give the higher one
	for pi, pair := range [][2]string{
		{"v1.0.0-rc.1", "v1.0.0-rc.2"}, {"v1.0.0-alpha", "v1.0.0-beta"}, {"v1.0.0-1", "v1.0.0-2"}, {"v1.0.0-9", "v1.0.0-10"},
		{"v1.0.0-B", "v1.0.0-a"}, {"v1.0.0-rc.1", "v1.0.0"}, {"v1.0.0-alpha", "v1.0.0-alpha.1"},
		{"v1.0.0-1", "v1.0.0-a"}, {"v1.0.0-rc.9", "v1.0.0-rc.10"}, {"v1.0.0-rc1", "v1.0.0-rd1"}, {"v1.0.0-RC1", "v1.0.0-rc1"}, {"v1.0.0-x.7.z.92", "v1.0.0-x.7.z.100"},
	} {
		var ppool []poolHint
		for _, vs := range []string{pair[0], pair[1], "v1.0.1-probe+B7"} {
			ph, ok := newRichPoolHint("x-v1y", util.MustNewVersion(vs), 0, 1)
			if !ok {
				r.Inconclusive("harness model does not read " + vs)
				return
			}
			ppool = append(ppool, ph)
		}
		if cmpModelVer(ppool[0].mv, ppool[1].mv) >= 0 {
			r.Inconclusive("harness model orders " + pair[0] + " not below " + pair[1])
			return
		}
		lookups := []scriptOp{{"Find", 0}, {"Find", 1}, {"FindByString", 0}, {"FindByString", 1}, {"Find", 2}, {"FindByString", 2},
			{"FindBytType", 0}, {"Find", 1}, {"FindBytTypeString", 0}, {"FindByString", 0}, {"Find", 0}}
		for oi, order := range [][2]int{{0, 1}, {1, 0}} {
			sc := append([]scriptOp{{"Add", order[0]}, {"Add", order[1]}}, lookups...)
			for _, cs := range []int{0, 8} {
				r.Guard("CompatibleSet", fmt.Sprintf("directed pair %v order %d cache %d", pair, oi, cs), func() { m.runSequence(2*pi+oi, cs, sc, ppool, "directed-prerelease-pair") })
				r.Count("directed_prerelease_pair_sequences", 1)
			}
		}
	}
	nR := r.N(800, 50000)
	for i := 0; i < nR; i++ {
		rng := r.Rand(31, 4, i)
		rpool := genRichPool(rng)
		for _, ph := range rpool {
			if err := ph.h.IsValid(nil); err != nil {
				r.Inconclusive("rich pool hint invalid: " + err.Error())
				return
			}
		}
		sc := genScript(rng, rpool)
		for _, cs := range []int{0, 8} {
			r.Guard("CompatibleSet", fmt.Sprintf("random sequence %d (rich versions) cache %d", i, cs), func() { m.runSequence(i, cs, sc, rpool, "random-rich-versions") })
		}
	}
	r.Set("sequences_rich_versions", 2*(nR+len(directedRich)))
	r.Set("version_classes", m.versionClasses.counts())
	r.Set("version_input_forms", m.inputForms.names())
	r.Set("version_forms_refused", m.refusedForms.counts())
	r.Set("parsing_entry_points", m.entryPoints.counts())
	r.Set("noise_kinds", m.noiseKinds.names())
	r.Set("noise_outcomes", m.noiseOutcomes.counts())
	inc := m.inconsistent.names()
	r.Count("lookups_in_groups_where_Version.Compare_is_not_an_order", 0)
	r.Set("version_pairs_where_Version.Compare_is_not_an_order", len(inc))
	if len(inc) > 8 {
		inc = inc[:8]
	}
	r.Set("version_pairs_where_Version.Compare_is_not_an_order_examples", inc)
	r.Set("sequences", 2*(nB+len(directed)))

	if r.Counter("hints_printed_and_parsed") == 0 || r.Counter("lookups_judged") == 0 {
		r.Inconclusive("no hint parsed or no lookup judged")
	}
	if r.Counter("hints_with_upper_case_letter_in_version") == 0 || r.Counter("hints_with_build_metadata") == 0 || r.Counter("noisy_inputs_parsed") == 0 ||
		r.Counter("lookups_judged_rich_versions") == 0 || r.Counter("Version.Compare_order_checks") == 0 {
		r.Inconclusive("versions of the full grammar were not driven")
	}
}
