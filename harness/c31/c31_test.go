package c31

import (
	"fmt"
	"hash/fnv"
	"math/rand"
	"regexp"
	"strings"
	"testing"

	"github.com/spikeekips/mitum/util"
	"github.com/spikeekips/mitum/util/hint"
	"verifharness/vlib"
)

// ---------------------------------------------------------------- part A: hint strings

type hintCase struct {
	Type    string `json:"type"`
	Version string `json:"version"`
	Printed string `json:"printed,omitempty"`
	Via     string `json:"via,omitempty"`
	Parsed  string `json:"parsed,omitempty"`
	PType   string `json:"parsed_type,omitempty"`
	PVer    string `json:"parsed_version,omitempty"`
	Err     string `json:"err,omitempty"`
}

var reHyphenVDigit = regexp.MustCompile(`-v\d`)

func typeClass(t string) string {
	if reHyphenVDigit.MatchString(t) {
		return "type-contains-hyphen-v-digit"
	}
	return "type-without-hyphen-v-digit"
}

type mon struct {
	r *vlib.Run
}

// checkHint: one (type, version) already known to be valid.
func (m *mon) checkHint(t hint.Type, v util.Version, via string) {
	r := m.r
	hc := hintCase{Type: string(t), Version: v.String(), Via: via}
	r.Guard("NewHint/ParseHint", hc, func() {
		h := hint.NewHint(t, v)
		if err := h.IsValid(nil); err != nil {
			// not "a hint made from a valid type and version" in the sense of Hint.IsValid (e.g. version longer than 20)
			r.Count("skipped_hint_invalid_by_IsValid", 1)
			return
		}
		s := h.String()
		hc.Printed = s
		r.Case("h/" + s)
		r.Count("hints_printed_and_parsed", 1)
		r.SetAdd("type_classes", typeClass(string(t)))
		r.Count("hints_"+typeClass(string(t)), 1)

		judge := func(fn string, p hint.Hint, err error) {
			c := hc
			if err != nil {
				c.Err = err.Error()
				r.Violation(fmt.Sprintf("%s:error-on-printed-hint:%s", fn, typeClass(string(t))),
					fmt.Sprintf("%s(%q) failed: %v; printed from type %q version %q", fn, s, err, t, v), c)
				return
			}
			if p.Type() == t && p.Version().String() == v.String() && p.Version().Compare(v) == 0 {
				r.Count("parsed_back_identical", 1)
				return
			}
			c.Parsed, c.PType, c.PVer = p.String(), string(p.Type()), p.Version().String()
			validity := "parsed-hint-invalid"
			if p.IsValid(nil) == nil {
				validity = "parsed-hint-valid"
			}
			r.Violation(fmt.Sprintf("%s:printed-hint-parses-to-different-hint:%s:%s", fn, validity, typeClass(string(t))),
				fmt.Sprintf("NewHint(%q, %q).String() = %q; %s gives type %q version %q (%s)", t, v, s, fn, p.Type(), p.Version(), validity), c)
		}

		p, err := hint.ParseHint(s)
		judge("ParseHint", p, err)

		var u hint.Hint
		err = u.UnmarshalText([]byte(s))
		judge("Hint.UnmarshalText", u, err)
	})
}

func validType(s string) bool { return hint.Type(s).IsValid(nil) == nil }

func genVersion(rng *rand.Rand) (util.Version, bool) {
	var sb strings.Builder
	big := []int{0, 1, 2, 9, 10, 11, 99, 100, 1234}
	pick := func() int {
		if rng.Intn(3) == 0 {
			return big[rng.Intn(len(big))]
		}
		return rng.Intn(4)
	}
	fmt.Fprintf(&sb, "v%d.%d.%d", pick(), pick(), pick())
	if rng.Intn(2) == 0 {
		pres := []string{"v2", "v2.0.0", "rc.1", "beta", "0", "a-v1", "v1-v2", "alpha.v3", "x-y.z"}
		sb.WriteString("-" + pres[rng.Intn(len(pres))])
	}
	if rng.Intn(4) == 0 {
		metas := []string{"ok", "v9", "b-v1.0.0", "compatible"}
		sb.WriteString("+" + metas[rng.Intn(len(metas))])
	}
	v, err := util.ParseVersion(sb.String())
	if err != nil || v.IsValid(nil) != nil || len(v.String()) > hint.MaxVersionLength {
		return util.Version{}, false
	}
	return v, true
}

func genType(rng *rand.Rand) string {
	const first = "abcdefghijklmnopqrstuvwxyz0123456789"
	const mid = "avv11--_+abz09" // biased to the characters that matter
	parts := []string{"-v1", "-v", "v1", "-v10", "-v0", "-", "a", "1", "_", "+", "-v2-v3", "v-"}
	var l int
	switch rng.Intn(4) {
	case 0:
		l = 2 + rng.Intn(6)
	case 1:
		l = 90 + rng.Intn(11)
	default:
		l = 2 + rng.Intn(40)
	}
	var sb strings.Builder
	sb.WriteByte(first[rng.Intn(len(first))])
	for sb.Len() < l-1 {
		if rng.Intn(3) == 0 {
			sb.WriteString(parts[rng.Intn(len(parts))])
		} else {
			sb.WriteByte(mid[rng.Intn(len(mid))])
		}
	}
	s := sb.String()
	if len(s) > l-1 {
		s = s[:l-1]
	}
	return s + string(first[rng.Intn(len(first))])
}

// ---------------------------------------------------------------- part B: CompatibleSet

var setTypes = []hint.Type{"alpha", "be-ta", "ga+mma_1"}

// versions of one major, ascending
var minorSpecs = []string{"%d.0.0", "%d.0.1", "%d.1.0", "%d.2.3-beta", "%d.2.3", "%d.10.0"}

type poolHint struct {
	h     hint.Hint
	ti    int
	major int
	rank  int
}

func hintPool() []poolHint {
	var pool []poolHint
	for ti, t := range setTypes {
		for major := 0; major < 3; major++ {
			for rank, f := range minorSpecs {
				v := util.MustNewVersion("v" + fmt.Sprintf(f, major))
				pool = append(pool, poolHint{h: hint.NewHint(t, v), ti: ti, major: major, rank: rank})
			}
		}
	}
	return pool
}

type regEntry struct {
	rank  int
	value int
	hint  string
}

type op struct {
	Op   string `json:"op"`
	Arg  string `json:"arg"`
	Val  int    `json:"value,omitempty"`
	Res  string `json:"result,omitempty"`
	Want string `json:"model,omitempty"`
}

type seqWitness struct {
	CacheSize int  `json:"cache_size"`
	Ops       []op `json:"ops"`
}

func (m *mon) runSequence(seqNo int, cacheSize int, script []scriptOp, pool []poolHint, via string) {
	r := m.r
	st := hint.NewCompatibleSet[int](cacheSize)
	registered := map[[2]int][]regEntry{} // (type index, major) -> successful Adds
	byValue := map[int]poolHint{}
	var ops []op
	var fp strings.Builder
	adds, finds := 0, 0

	model := func(ph poolHint) (int, bool, []regEntry) {
		es := registered[[2]int{ph.ti, ph.major}]
		if len(es) == 0 {
			return 0, false, nil
		}
		best := es[0]
		for _, e := range es[1:] {
			if e.rank > best.rank {
				best = e
			}
		}
		var ties []regEntry
		for _, e := range es {
			if e.rank == best.rank {
				ties = append(ties, e)
			}
		}
		return best.value, true, ties
	}

	judge := func(fn string, ph poolHint, got int, found bool, prevAddLower bool) {
		want, wfound, ties := model(ph)
		o := &ops[len(ops)-1]
		o.Res = fmt.Sprintf("value=%d found=%v", got, found)
		o.Want = fmt.Sprintf("value=%d found=%v", want, wfound)
		r.Count("lookups_judged", 1)
		ok := found == wfound
		if ok && found {
			ok = false
			for _, e := range ties {
				if e.value == got {
					ok = true
				}
			}
		}
		if ok {
			r.Count("lookups_agree_with_model", 1)
			return
		}
		var class string
		switch {
		case wfound && !found:
			class = "not-found-but-registered"
		case !wfound && found:
			class = "found-but-nothing-registered-for-type-and-major"
		default:
			g, known := byValue[got]
			switch {
			case known && g.ti == ph.ti && g.major == ph.major:
				class = "returned-lower-compatible-version"
			default:
				class = "returned-unrelated-entry"
			}
		}
		if prevAddLower {
			class += ":right-after-add-of-lower-version"
		}
		cache := "cache-on"
		if cacheSize <= 0 {
			cache = "cache-off"
		}
		w := seqWitness{CacheSize: cacheSize, Ops: append([]op{}, ops...)}
		r.Violation(fmt.Sprintf("CompatibleSet.%s:%s:%s", fn, class, cache),
			fmt.Sprintf("%s(%s) = (%d, %v); registered entries with that type and major: highest is value %d (found=%v) [sequence %s #%d, %d ops]", fn, ph.h, got, found, want, wfound, via, seqNo, len(ops)), w)
	}

	lastAddLower := "" // hint string whose Add was of a lower version than the registered highest
	for _, so := range script {
		ph := pool[so.hint]
		fmt.Fprintf(&fp, "%s%d,", so.kind, so.hint)
		switch so.kind {
		case "Add":
			value := len(ops) + 1
			ops = append(ops, op{Op: "Add", Arg: ph.h.String(), Val: value})
			_, had, _ := model(ph)
			wantBefore, _, _ := model(ph)
			err := st.Add(ph.h, value)
			if err != nil {
				ops[len(ops)-1].Res = "error: " + err.Error()
				r.Count("adds_refused", 1)
				lastAddLower = ""
				continue
			}
			ops[len(ops)-1].Res = "ok"
			adds++
			r.Count("adds_ok", 1)
			lower := false
			if had {
				if e, ok := byValue[wantBefore]; ok && e.rank > ph.rank {
					lower = true
				}
			}
			key := [2]int{ph.ti, ph.major}
			registered[key] = append(registered[key], regEntry{rank: ph.rank, value: value, hint: ph.h.String()})
			byValue[value] = ph
			lastAddLower = ""
			if lower {
				lastAddLower = ph.h.String()
				r.Count("adds_of_lower_compatible_version", 1)
			}
			continue
		case "Find":
			ops = append(ops, op{Op: "Find", Arg: ph.h.String()})
			got, found := st.Find(ph.h)
			finds++
			judge("Find", ph, got, found, lastAddLower == ph.h.String())
		case "FindByString":
			ops = append(ops, op{Op: "FindByString", Arg: ph.h.String()})
			_, got, found, err := st.FindByString(ph.h.String())
			finds++
			if err != nil {
				ops[len(ops)-1].Res = "error: " + err.Error()
				r.Violation("CompatibleSet.FindByString:error-on-printed-hint", fmt.Sprintf("FindByString(%q): %v", ph.h.String(), err), seqWitness{CacheSize: cacheSize, Ops: append([]op{}, ops...)})
			} else {
				judge("FindByString", ph, got, found, lastAddLower == ph.h.String())
			}
		case "FindBytType": // not judged: perturbs the cache
			ops = append(ops, op{Op: "FindBytType", Arg: string(ph.h.Type())})
			_, _, _ = st.FindBytType(ph.h.Type())
			r.Count("perturbing_lookups", 1)
		case "FindBytTypeString":
			ops = append(ops, op{Op: "FindBytTypeString", Arg: string(ph.h.Type())})
			_, _, _, _ = st.FindBytTypeString(string(ph.h.Type()))
			r.Count("perturbing_lookups", 1)
		case "FindGarbage":
			s := []string{"", "alpha", "alpha-", "no version here", "be-ta-vx"}[so.hint%5]
			ops = append(ops, op{Op: "FindByString", Arg: s})
			_, _, _, _ = st.FindByString(s)
			r.Count("perturbing_lookups", 1)
		}
		lastAddLower = ""
	}
	if adds > 0 && finds > 0 {
		h := fnv.New64a()
		h.Write([]byte(fp.String()))
		r.Case(fmt.Sprintf("seq/c%d/%x", cacheSize, h.Sum64()))
	} else {
		r.Eval(1)
	}
	if seqNo < 2 && via == "random" {
		r.Sample(seqWitness{CacheSize: cacheSize, Ops: ops})
	}
}

type scriptOp struct {
	kind string
	hint int
}

func genScript(rng *rand.Rand, pool []poolHint) []scriptOp {
	n := 8 + rng.Intn(40)
	// concentrate on one or two (type, major) groups so that compatible versions meet
	focus := []int{rng.Intn(len(pool)/6) * 6}
	if rng.Intn(2) == 0 {
		focus = append(focus, rng.Intn(len(pool)/6)*6)
	}
	pick := func() int {
		if rng.Intn(8) == 0 {
			return rng.Intn(len(pool))
		}
		return focus[rng.Intn(len(focus))] + rng.Intn(6)
	}
	var sc []scriptOp
	for len(sc) < n {
		switch k := rng.Intn(20); {
		case k < 7:
			h := pick()
			sc = append(sc, scriptOp{"Add", h})
			if rng.Intn(2) == 0 { // lookup of exactly what was just added
				sc = append(sc, scriptOp{[]string{"Find", "FindByString"}[rng.Intn(2)], h})
			}
		case k < 12:
			sc = append(sc, scriptOp{"Find", pick()})
		case k < 16:
			sc = append(sc, scriptOp{"FindByString", pick()})
		case k < 17:
			sc = append(sc, scriptOp{"FindBytType", pick()})
		case k < 18:
			sc = append(sc, scriptOp{"FindBytTypeString", pick()})
		default:
			sc = append(sc, scriptOp{"FindGarbage", rng.Intn(5)})
		}
	}
	// final sweep: every hint of the focus groups
	for _, f := range focus {
		for i := 0; i < 6; i++ {
			sc = append(sc, scriptOp{"Find", f + i})
		}
	}
	return sc
}

// ---------------------------------------------------------------- test

func TestC31(t *testing.T) {
	r := vlib.Start(t, "C31", vlib.LevelExploration)
	defer r.Finish()
	r.SetRule("part A: case = (valid Type, valid Version) -> NewHint(t,v).String() -> ParseHint and Hint.UnmarshalText; exhaustive over all valid types over {a,v,1,-} up to length 6 x {v0.0.1, v1.2.3, v1.0.0-v2, v10.0.0}, then PRNG types up to 100 chars over [a-z0-9-_+] rich in '-v<digit>' with PRNG versions (prerelease/metadata); distinct = printed string. part B: case = one PRNG sequence of Add/Find/FindByString (+ unjudged FindBytType, FindBytTypeString, garbage FindByString) on a real CompatibleSet[int] with cache off/on over 3 types x 3 majors x 6 versions, every lookup compared with a cache-free list of the successful Adds; distinct = (cache, op sequence); non-trivial = at least one Add and one lookup")
	r.Assume("valid type = Type.IsValid nil; valid version = produced by util.ParseVersion and Version.IsValid nil; pairs whose Hint.IsValid fails (version longer than 20) are skipped")
	r.Assume("an Add that returns an error registered nothing; the highest version is decided by the generator's own ordering of the version pool, not by Version.Compare")
	m := &mon{r: r}

	// ---- A1 exhaustive
	alphabet := []byte("av1-")
	maxLen := 6
	versions := []util.Version{}
	for _, s := range []string{"v0.0.1", "v1.2.3", "v1.0.0-v2", "v10.0.0"} {
		versions = append(versions, util.MustNewVersion(s))
	}
	var nTypes, nValid int
	var rec func(prefix []byte)
	rec = func(prefix []byte) {
		if len(prefix) >= hint.MinTypeLength {
			nTypes++
			if validType(string(prefix)) {
				nValid++
				for _, v := range versions {
					m.checkHint(hint.Type(prefix), v, "exhaustive")
				}
			}
		}
		if len(prefix) == maxLen {
			return
		}
		for _, c := range alphabet {
			rec(append(append([]byte{}, prefix...), c))
		}
	}
	rec(nil)
	r.Exhaustive(true)
	r.Set("exhaustive_bound", fmt.Sprintf("part A: all %d strings over {a,v,1,-} of length 2..%d, %d valid types, x %d versions; parts A(random) and B are sampled", nTypes, maxLen, nValid, len(versions)))
	r.Sample(hintCase{Type: "a-v1", Version: "v0.0.1", Printed: hint.NewHint("a-v1", versions[0]).String(), Via: "exhaustive"})
	r.Sample(hintCase{Type: "av", Version: "v1.0.0-v2", Printed: hint.NewHint("av", versions[2]).String(), Via: "exhaustive"})

	// ---- A2 random long types and versions
	nA := r.N(20000, 400000)
	for i := 0; i < nA; i++ {
		rng := r.Rand(31, 1, i)
		ts := genType(rng)
		if !validType(ts) {
			r.Count("generated_types_invalid", 1)
			continue
		}
		v, ok := genVersion(rng)
		if !ok {
			r.Count("generated_versions_invalid", 1)
			continue
		}
		m.checkHint(hint.Type(ts), v, "random")
		if i < 2 {
			r.Sample(hintCase{Type: ts, Version: v.String(), Printed: hint.NewHint(hint.Type(ts), v).String(), Via: "random"})
		}
	}

	// ---- B sequences
	pool := hintPool()
	for _, ph := range pool {
		if err := ph.h.IsValid(nil); err != nil {
			r.Inconclusive("pool hint invalid: " + err.Error())
			return
		}
	}
	// directed: the shortest sequences around an Add of a lower compatible version
	idx := func(ti, major, rank int) int { return ti*18 + major*6 + rank }
	directed := [][]scriptOp{
		{{"Add", idx(0, 1, 4)}, {"Add", idx(0, 1, 0)}, {"Find", idx(0, 1, 0)}},
		{{"Add", idx(0, 1, 4)}, {"Add", idx(0, 1, 0)}, {"FindByString", idx(0, 1, 0)}},
		{{"Add", idx(0, 1, 0)}, {"Add", idx(0, 1, 4)}, {"Find", idx(0, 1, 0)}, {"Find", idx(0, 1, 4)}},
		{{"Find", idx(1, 2, 3)}, {"Add", idx(1, 2, 3)}, {"Find", idx(1, 2, 3)}, {"Add", idx(1, 2, 4)}, {"Find", idx(1, 2, 3)}},
		{{"Add", idx(2, 0, 3)}, {"Add", idx(2, 0, 4)}, {"Find", idx(2, 0, 3)}, {"FindBytType", idx(2, 0, 0)}, {"Add", idx(2, 1, 0)}, {"Find", idx(2, 0, 5)}},
	}
	for i, sc := range directed {
		for _, cs := range []int{0, 8} {
			r.Guard("CompatibleSet", fmt.Sprintf("directed %d cache %d", i, cs), func() { m.runSequence(i, cs, sc, pool, "directed") })
		}
	}
	nB := r.N(2000, 50000)
	for i := 0; i < nB; i++ {
		sc := genScript(r.Rand(31, 2, i), pool)
		for _, cs := range []int{0, 8} {
			r.Guard("CompatibleSet", fmt.Sprintf("random sequence %d cache %d", i, cs), func() { m.runSequence(i, cs, sc, pool, "random") })
		}
	}
	r.Set("sequences", 2*(nB+len(directed)))

	if r.Counter("hints_printed_and_parsed") == 0 || r.Counter("lookups_judged") == 0 {
		r.Inconclusive("no hint parsed or no lookup judged")
	}
}
