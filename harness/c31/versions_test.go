package c31

import (
	"fmt"
	"math/rand"
	"sort"
	"strings"
	"sync"

	"github.com/spikeekips/mitum/util"
	"github.com/spikeekips/mitum/util/hint"
)

// ---------------------------------------------------------------- versions over the whole grammar
//
// util.ParseVersion = "v" prefix + Masterminds/semver NewVersion (lenient:
// "v1", "v1.2", leading zeros in the main part) + Version.IsValid
// (golang.org/x/mod/semver.IsValid on the normalised string):
//   v MAJOR[.MINOR[.PATCH]] [-PRE(.PRE)*] [+BUILD(.BUILD)*]
//   PRE, BUILD: non-empty over [0-9A-Za-z-]; numeric PRE without leading zero.
// Hint.IsValid adds: printed version at most hint.MaxVersionLength characters.

type verParts struct {
	prefix, main, pre, build string
	form                     string // shape of the constructor input
}

func (p verParts) String() string {
	s := p.prefix + p.main
	if p.pre != "" {
		s += "-" + p.pre
	}
	if p.build != "" {
		s += "+" + p.build
	}
	return s
}

const identChars = "0123456789abcdefghijklmnopqrstuvwxyzABCDEFGHIJKLMNOPQRSTUVWXYZ-"

func genIdent(rng *rand.Rand, build bool) string {
	pick := func(l ...string) string { return l[rng.Intn(len(l))] }
	switch rng.Intn(10) {
	case 0:
		if build && rng.Intn(2) == 0 {
			return pick("01", "007", "00")
		}
		return pick("0", "1", "9", "10", "123")
	case 1:
		return pick("rc", "beta", "alpha", "a", "x", "pre", "b")
	case 2:
		return pick("RC", "BETA", "A", "X", "DEV", "B")
	case 3:
		return pick("Rc", "rC", "Beta", "bEtA", "aB", "Ab")
	case 4:
		return pick("rc1", "RC1", "Rc1", "rC1", "1a", "1A", "0A", "0a", "v2", "V2", "x86", "X86", "B7", "b7")
	case 5:
		return pick("-", "--", "a-b", "A-b", "a-B", "A-B", "x-1", "X-1", "-v1", "-V1", "1-", "-1")
	default:
		n := 1 + rng.Intn(4)
		b := make([]byte, n)
		for i := range b {
			b[i] = identChars[rng.Intn(len(identChars))]
		}
		return string(b)
	}
}

func genIdents(rng *rand.Rand, build bool, max int) string {
	n := 1
	for n < max && rng.Intn(3) == 0 {
		n++
	}
	ids := make([]string, n)
	for i := range ids {
		ids[i] = genIdent(rng, build)
	}
	return strings.Join(ids, ".")
}

var mainNumbers = []uint64{0, 1, 9, 10, 11, 99, 100, 65535, 4294967296}

func genMainNumber(rng *rand.Rand) uint64 {
	if rng.Intn(3) == 0 {
		return mainNumbers[rng.Intn(len(mainNumbers))]
	}
	return uint64(rng.Intn(4))
}

func genVerParts(rng *rand.Rand) verParts {
	p := verParts{prefix: "v", form: "major.minor.patch"}
	a, b, c := genMainNumber(rng), genMainNumber(rng), genMainNumber(rng)
	switch k := rng.Intn(20); {
	case k == 0:
		p.main, p.form = fmt.Sprintf("%d.%d", a, b), "major.minor"
	case k == 1:
		p.main, p.form = fmt.Sprintf("%d", a), "major"
	case k == 2:
		p.main, p.form = fmt.Sprintf("0%d.%d.0%d", a, b, c), "leading-zeros"
	default:
		p.main = fmt.Sprintf("%d.%d.%d", a, b, c)
	}
	switch rng.Intn(40) {
	case 0:
		p.prefix, p.form = "", "without-v-prefix"
	case 1:
		p.prefix, p.form = "V", "upper-case-V-prefix"
	}
	if rng.Intn(2) == 0 {
		p.pre = genIdents(rng, false, 3)
	}
	if rng.Intn(3) == 0 {
		p.build = genIdents(rng, true, 2)
	}
	return p
}

func swapCase(s string) string {
	b := []byte(s)
	for i, c := range b {
		switch {
		case 'a' <= c && c <= 'z':
			b[i] = c - 'a' + 'A'
		case 'A' <= c && c <= 'Z':
			b[i] = c - 'A' + 'a'
		}
	}
	return string(b)
}

// flipOneLetter changes the case of the n-th letter only.
func flipOneLetter(s string, n int) string {
	b := []byte(s)
	k := 0
	for i, c := range b {
		if ('a' <= c && c <= 'z') || ('A' <= c && c <= 'Z') {
			if k == n {
				return s[:i] + swapCase(string(c)) + s[i+1:]
			}
			k++
		}
	}
	return s
}

func countLetters(s string) int {
	n := 0
	for _, c := range []byte(s) {
		if ('a' <= c && c <= 'z') || ('A' <= c && c <= 'Z') {
			n++
		}
	}
	return n
}

// siblings: versions that differ from p only in letter case, only in the
// prerelease, or only in the build metadata.
func siblings(rng *rand.Rand, p verParts) []verParts {
	var out []verParts
	add := func(q verParts, how string) {
		if q.String() != p.String() {
			q.form = how
			out = append(out, q)
		}
	}
	q := p
	if p.pre != "" {
		q = p
		q.pre = strings.ToUpper(p.pre)
		add(q, "sibling:prerelease-upper-cased")
		q.pre = strings.ToLower(p.pre)
		add(q, "sibling:prerelease-lower-cased")
		q.pre = swapCase(p.pre)
		add(q, "sibling:prerelease-case-swapped")
		if n := countLetters(p.pre); n > 1 {
			q.pre = flipOneLetter(p.pre, rng.Intn(n))
			add(q, "sibling:prerelease-one-letter-case")
		}
		q.pre = ""
		add(q, "sibling:prerelease-dropped")
	}
	q = p
	q.pre = genIdents(rng, false, 2)
	add(q, "sibling:other-prerelease")
	if p.build != "" {
		q = p
		q.build = strings.ToUpper(p.build)
		add(q, "sibling:build-upper-cased")
		q.build = strings.ToLower(p.build)
		add(q, "sibling:build-lower-cased")
		q.build = swapCase(p.build)
		add(q, "sibling:build-case-swapped")
		q.build = ""
		add(q, "sibling:build-dropped")
	}
	q = p
	q.build = genIdents(rng, true, 2)
	add(q, "sibling:other-build")
	return out
}

func letterClass(s string) string {
	up, lo := false, false
	for _, c := range []byte(s) {
		switch {
		case 'a' <= c && c <= 'z':
			lo = true
		case 'A' <= c && c <= 'Z':
			up = true
		}
	}
	switch {
	case up && lo:
		return "mixedcase"
	case up:
		return "uppercase"
	case lo:
		return "lowercase"
	default:
		return "numeric"
	}
}

// versionClass of a printed version: which optional parts it has and the
// letter case in them, e.g. "prerelease-uppercase", "build-mixedcase",
// "prerelease-lowercase+build-uppercase", "main-only".
func versionClass(v util.Version) string {
	s := v.String()
	build := ""
	if i := strings.IndexByte(s, '+'); i >= 0 {
		build = s[i+1:]
	}
	pre := v.Prerelease()
	var parts []string
	if pre != "" {
		parts = append(parts, "prerelease-"+letterClass(pre))
	}
	if build != "" {
		parts = append(parts, "build-"+letterClass(build))
	}
	if len(parts) == 0 {
		return "main-only"
	}
	return strings.Join(parts, "+")
}

// directedVersionInputs: one or more of every shape of the grammar, so that
// every run has them whatever the seed.
var directedVersionInputs = []string{
	// main part
	"v0.0.0", "v0.0.1", "v0.1.0", "v1.0.0", "v9.9.9", "v10.10.10", "v1.9.10", "v1.10.9",
	"v1", "v10", "v1.2", "v01.02.03", "v65535.65535.65535", "v4294967296.0.0", "v18446744073709551615.0.0",
	"1.2.3", "V1.2.3", " v1.2.3",
	// prerelease
	"v1.2.3-0", "v1.2.3-1", "v1.2.3-9", "v1.2.3-10", "v1.2.3-01", "v1.2.3-0A", "v1.2.3-0a",
	"v1.2.3-a", "v1.2.3-b", "v1.2.3-A", "v1.2.3-B", "v1.2.3-alpha", "v1.2.3-beta", "v1.2.3-ALPHA", "v1.2.3-Beta",
	"v1.2.3-rc1", "v1.2.3-RC1", "v1.2.3-Rc1", "v1.2.3-rC1", "v1.2.3-rc.1", "v1.2.3-rc.2", "v1.2.3-RC.1", "v1.2.3-Rc.10",
	"v1.2.3--", "v1.2.3---", "v1.2.3-a-b", "v1.2.3-A-b.C-0", "v1.2.3-x.7.z.92", "v1.2.3-X.7.Z.92",
	"v1.2.3-v2", "v1.2.3-V2", "v1.2.3-v2.0.0", "v1.2.3--v2", "v1.2.3--V2.0.0",
	// build metadata
	"v1.2.3+build", "v1.2.3+BUILD", "v1.2.3+Build7", "v1.2.3+01", "v1.2.3+007", "v1.2.3+a-B.0-1", "v1.2.3+-", "v1.2.3+x86", "v1.2.3+X86",
	"v0.9.0+b7", "v0.9.0+B7", "v1.2.3+v2", "v1.2.3+V2.0.0", "v1.2.3+-v2",
	// both
	"v1.2.3-rc1+x86", "v1.2.3-rc1+X86", "v1.2.3-RC1+x86", "v1.2.3-RC1+X86", "v1.2.3-Rc.1+B-7", "v1.2.3-0+0", "v1.2.3--+-", "v10.0.0-A.b+C.d",
}

var directedTypes = []hint.Type{"ab", "showme", "ab-v1", "a0-v2-x", "sh-w_m+e", "11", "a-v1-v2", "v1"}

// ---------------------------------------------------------------- evidence lists (SetAdd only reports a count)

type nameSet struct {
	mu sync.Mutex
	m  map[string]int
}

func (s *nameSet) add(k string) {
	s.mu.Lock()
	if s.m == nil {
		s.m = map[string]int{}
	}
	s.m[k]++
	s.mu.Unlock()
}

func (s *nameSet) counts() map[string]int {
	s.mu.Lock()
	defer s.mu.Unlock()
	out := map[string]int{}
	for k, v := range s.m {
		out[k] = v
	}
	return out
}

func (s *nameSet) names() []string {
	s.mu.Lock()
	defer s.mu.Unlock()
	var out []string
	for k := range s.m {
		out = append(out, k)
	}
	sort.Strings(out)
	return out
}

// ---------------------------------------------------------------- noise around a printed hint

type noisy struct {
	kind string
	s    string
}

// noisyInputs: what the parser trims or tolerates around a printed hint; the
// hint itself (type characters, version characters) is never altered except
// for the letter case of the TYPE part, which has only one valid spelling.
func noisyInputs(t hint.Type, v util.Version, s string) []noisy {
	ut := strings.ToUpper(string(t))
	tt := strings.ToUpper(string(t)[:1]) + string(t)[1:]
	out := []noisy{
		{"leading-space", " " + s},
		{"trailing-space", s + " "},
		{"spaces-both-sides", "  " + s + "   "},
		{"leading-tab", "\t" + s},
		{"trailing-newline", s + "\n"},
		{"trailing-crlf", s + "\r\n"},
		{"trailing-nul", s + "\x00"},
		{"trailing-nuls", s + "\x00\x00\x00\x00"},
		{"leading-nul", "\x00" + s},
		{"space-then-nul", s + " \x00"},
		{"nul-then-space", s + "\x00 "},
		{"leading-space-trailing-nul", " " + s + "\x00"},
		{"whole-upper-cased", strings.ToUpper(s)},
	}
	if ut != string(t) {
		out = append(out,
			noisy{"type-upper-cased", ut + "-" + v.String()},
			noisy{"type-upper-cased-with-space-and-nul", " " + ut + "-" + v.String() + "\x00"},
		)
	}
	if tt != string(t) {
		out = append(out, noisy{"type-first-letter-upper-cased", tt + "-" + v.String()})
	}
	return out
}

// ---------------------------------------------------------------- pools for the registry with such versions

var richTypes = []hint.Type{"alpha", "be-ta", "ga+mma_1", "ab-v1", "x0-v2-y"}

var richMajors = []uint64{0, 1, 9, 10, 4294967296}

// genRichPool: 2 or 3 (type, major) groups of 6 distinct hints; inside a group
// the versions differ in minor/patch, only in the prerelease, only in the
// build metadata, or only in letter case.
func genRichPool(rng *rand.Rand) []poolHint {
	ngroups := 2 + rng.Intn(2)
	type gk struct {
		ti    int
		major uint64
	}
	seen := map[gk]bool{}
	var pool []poolHint
	t0 := rng.Intn(len(richTypes))
	for len(seen) < ngroups {
		k := gk{ti: t0, major: richMajors[rng.Intn(len(richMajors))]}
		if rng.Intn(3) == 0 {
			k.ti = rng.Intn(len(richTypes))
		}
		if seen[k] {
			continue
		}
		seen[k] = true
		var parts []verParts
		strs := map[string]bool{}
		try := func(p verParts) bool {
			v, err := util.ParseVersion(p.String())
			if err != nil {
				return false
			}
			h := hint.NewHint(richTypes[k.ti], v)
			if h.IsValid(nil) != nil || strs[h.String()] || v.Major() != k.major {
				return false
			}
			ph, ok := newRichPoolHint(richTypes[k.ti], v, k.ti, int(k.major))
			if !ok { // never: the model reads every printed version that passes IsValid
				return false
			}
			strs[h.String()] = true
			p.main, p.prefix = fmt.Sprintf("%d.%d.%d", v.Major(), v.Minor(), v.Patch()), "v"
			parts = append(parts, p)
			pool = append(pool, ph)
			return true
		}
		for tries := 0; len(parts) < 6; tries++ {
			if tries > 200 { // never in practice; keeps the loop bounded
				try(verParts{prefix: "v", main: fmt.Sprintf("%d.%d.%d", k.major, 20+len(parts), tries)})
				continue
			}
			p := verParts{prefix: "v", main: fmt.Sprintf("%d.%d.%d", k.major, rng.Intn(3), rng.Intn(2))}
			switch c := rng.Intn(10); {
			case c < 2:
			case c < 4:
				p.pre = genIdents(rng, false, 2)
			case c < 5:
				p.build = genIdents(rng, true, 2)
			case c < 6:
				p.pre, p.build = genIdents(rng, false, 2), genIdents(rng, true, 1)
			default:
				if len(parts) == 0 {
					continue
				}
				sb := siblings(rng, parts[rng.Intn(len(parts))])
				p = sb[rng.Intn(len(sb))]
			}
			try(p)
		}
	}
	return pool
}

// ---------------------------------------------------------------- independent model of version precedence
//
// semver.org section 11, written from the text, on the PRINTED version string
// (nothing of util.Version is used): major, minor, patch numerically; a version
// without prerelease is higher than one with; prerelease identifiers left to
// right: numeric vs numeric numerically, alphanumeric in ASCII order, numeric
// lower than alphanumeric, more fields higher when all preceding are equal;
// build metadata ignored (two versions that differ only there are equal here).

type modelVer struct {
	main [3]string // decimal digits without leading zeros
	pre  []string
	ok   bool
}

func allDigits(s string) bool {
	if s == "" {
		return false
	}
	for _, c := range []byte(s) {
		if c < '0' || c > '9' {
			return false
		}
	}
	return true
}

func parseModelVer(printed string) modelVer {
	var mv modelVer
	if !strings.HasPrefix(printed, "v") {
		return mv
	}
	s := printed[1:]
	if i := strings.IndexByte(s, '+'); i >= 0 {
		s = s[:i]
	}
	pre := ""
	hasPre := false
	if i := strings.IndexByte(s, '-'); i >= 0 {
		s, pre, hasPre = s[:i], s[i+1:], true
	}
	nums := strings.Split(s, ".")
	if len(nums) != 3 {
		return mv
	}
	for i, n := range nums {
		if !allDigits(n) || (len(n) > 1 && n[0] == '0') {
			return mv
		}
		mv.main[i] = n
	}
	if hasPre {
		mv.pre = strings.Split(pre, ".")
		for _, id := range mv.pre {
			if id == "" {
				return mv
			}
		}
	}
	mv.ok = true
	return mv
}

// cmpDecimal: two decimal numerals without leading zeros, of any length.
func cmpDecimal(a, b string) int {
	switch {
	case len(a) < len(b):
		return -1
	case len(a) > len(b):
		return 1
	}
	return strings.Compare(a, b)
}

func cmpModelVer(a, b modelVer) int {
	for i := 0; i < 3; i++ {
		if c := cmpDecimal(a.main[i], b.main[i]); c != 0 {
			return c
		}
	}
	switch {
	case len(a.pre) == 0 && len(b.pre) == 0:
		return 0
	case len(a.pre) == 0:
		return 1
	case len(b.pre) == 0:
		return -1
	}
	for i := 0; i < len(a.pre) && i < len(b.pre); i++ {
		x, y := a.pre[i], b.pre[i]
		if x == y {
			continue
		}
		nx, ny := allDigits(x), allDigits(y)
		switch {
		case nx && ny:
			return cmpDecimal(x, y)
		case nx:
			return -1
		case ny:
			return 1
		default:
			return strings.Compare(x, y) // bytewise = ASCII order
		}
	}
	return sign(len(a.pre) - len(b.pre))
}

// ---------------------------------------------------------------- is Version.Compare an order on these versions

// orderDefect: the first pair on which the repository's Version.Compare is not
// sign-antisymmetric, or the first triple on which "<=" is not transitive,
// among x and the versions in vs. kind is "" when there is none.
func orderDefect(x util.Version, vs []util.Version) (kind, what string, about util.Version) {
	for _, e := range vs {
		c1, c2 := sign(x.Compare(e)), sign(e.Compare(x))
		if c1 != -c2 {
			about = x
			if x.Prerelease() == "" {
				about = e
			}
			return "antisymmetry", fmt.Sprintf("Compare(%s,%s)=%d Compare(%s,%s)=%d", x, e, c1, e, x, c2), about
		}
	}
	le := func(a, b util.Version) bool { return a.Compare(b) <= 0 }
	for i, a := range vs {
		for _, b := range vs[i+1:] {
			tri := [3]util.Version{x, a, b}
			for _, pm := range [6][3]int{{0, 1, 2}, {0, 2, 1}, {1, 0, 2}, {1, 2, 0}, {2, 0, 1}, {2, 1, 0}} {
				p, q, w := tri[pm[0]], tri[pm[1]], tri[pm[2]]
				if le(p, q) && le(q, w) && !le(p, w) {
					return "transitivity", fmt.Sprintf("%s <= %s <= %s but Compare(%s,%s)=%d", p, q, w, p, w, p.Compare(w)), p
				}
			}
		}
	}
	return "", "", x
}

func orderClass(x util.Version) string {
	if x.Prerelease() == "" {
		return "no-prerelease"
	}
	return "prerelease-" + letterClass(x.Prerelease())
}
