package c32

// C32: SingleLockedMap, ShardedMap, deep sharded map and Locked[T] are
// linearizable; after the operations finish Len() equals the number of keys.
//
// Technique: the real maps are driven by concurrent clients; every call and
// return is stamped with a logical clock at the client boundary; the recorded
// history is split per key (Close/Empty are copied into every key's history)
// and each per-key history is given to porcupine with a sequential-map model.

import (
	"cmp"
	"errors"
	"fmt"
	"hash/fnv"
	"runtime"
	"sort"
	"strings"
	"sync"
	"sync/atomic"
	"testing"
	"time"

	"github.com/anishathalye/porcupine"
	"github.com/spikeekips/mitum/util"
	"verifharness/vlib"
)

type opKind int

const (
	opValue opKind = iota
	opExists
	opSetValue
	opRemoveValue
	opGet
	opGetOrCreate
	opSet
	opRemove
	opSetOrRemove
	opEmpty
	opClose
	nOps
)

var opNames = [...]string{"Value", "Exists", "SetValue", "RemoveValue", "Get", "GetOrCreate", "Set", "Remove", "SetOrRemove", "Empty", "Close"}

func (o opKind) String() string { return opNames[o] }

// callback behaviours
const (
	bOK     = 0
	bIgnore = 1 // util.ErrLockedSetIgnore
	bErr    = 2 // harness error
)

// error classes
const (
	eNil    = 0
	eClosed = 1
	eCustom = 2
	eOther  = 3
)

var errCustom = errors.New("c32: callback error")

func classify(err error) int {
	switch {
	case err == nil:
		return eNil
	case errors.Is(err, util.ErrLockedMapClosed):
		return eClosed
	case errors.Is(err, errCustom):
		return eCustom
	default:
		return eOther
	}
}

func behErr(b int) error {
	switch b {
	case bIgnore:
		return util.ErrLockedSetIgnore
	case bErr:
		return errCustom
	default:
		return nil
	}
}

// expected error class returned by the map for a callback behaviour
func behClass(b int) int {
	if b == bErr {
		return eCustom
	}
	return eNil
}

type input struct {
	Op     opKind
	Key    int    // key index; -1 for Empty/Close
	V      uint64 // value offered by this op (unique)
	FB     int    // behaviour of f
	CB     int    // behaviour of create (GetOrCreate)
	Rm     bool   // SetOrRemove: callback asks for removal
	Locked bool   // op on Locked[T]: returned flags that do not exist are not compared
}

type output struct {
	FCalled  bool
	FSeenV   uint64
	FSeenB   bool // found / created / isempty(negated: true = has value)
	CCalled  bool
	RetV     uint64
	B1, B2   bool
	Err      int
	Panicked string
}

type kstate struct {
	P bool
	V uint64
	C bool
}

// step is the sequential specification of one key (or of a Locked value).
// In the closed state Get and Remove may either report the closed error or
// behave as on an empty map (an operation that already holds its shard sees
// the emptied, closed shard): both are "a closed sequential map".
func step(sti, ini, outi interface{}) (bool, interface{}) {
	s := sti.(kstate)
	in := ini.(input)
	out := outi.(output)
	if out.Panicked != "" {
		return false, s
	}
	cur := uint64(0)
	if s.P {
		cur = s.V
	}
	sawState := func() bool { return out.FCalled && out.FSeenV == cur && out.FSeenB == s.P }
	switch in.Op {
	case opValue:
		if s.C {
			return !out.B1 && out.RetV == 0, s
		}
		return out.B1 == s.P && out.RetV == cur, s
	case opExists:
		return out.B1 == (s.P && !s.C), s
	case opSetValue:
		if s.C {
			return !out.B1, s
		}
		return in.Locked || out.B1 == !s.P, kstate{P: true, V: in.V}
	case opRemoveValue:
		if s.C {
			return !out.B1, s
		}
		return in.Locked || out.B1 == s.P, kstate{}
	case opGet:
		if s.C {
			if !out.FCalled {
				return out.Err == eClosed, s
			}
			return out.FSeenV == 0 && !out.FSeenB && out.Err == behClassGet(in.FB), s
		}
		return sawState() && out.Err == behClassGet(in.FB), s
	case opGetOrCreate:
		if s.C {
			return !out.FCalled && !out.CCalled && out.Err == eClosed, s
		}
		if s.P {
			return !out.CCalled && out.FCalled && out.FSeenV == s.V && !out.FSeenB && out.Err == behClassGet(in.FB), s
		}
		if !out.CCalled {
			return false, s
		}
		switch in.CB {
		case bOK:
			// the value is stored before f runs; f's error does not undo it
			return out.FCalled && out.FSeenV == in.V && out.FSeenB && out.Err == behClassGet(in.FB), kstate{P: true, V: in.V}
		case bIgnore:
			return !out.FCalled && out.Err == eNil, s
		default:
			return !out.FCalled && out.Err == eCustom, s
		}
	case opSet:
		if s.C {
			return !out.FCalled && out.Err == eClosed, s
		}
		if !sawState() {
			return false, s
		}
		switch in.FB {
		case bOK:
			return out.Err == eNil && out.RetV == in.V && (in.Locked || out.B1 == !s.P), kstate{P: true, V: in.V}
		case bIgnore:
			return out.Err == eNil && out.RetV == cur && !out.B1, s
		default:
			return out.Err == eCustom && out.RetV == 0 && !out.B1, s
		}
	case opRemove:
		if s.C {
			if !out.FCalled {
				return out.Err == eClosed && !out.B1, s
			}
			return out.FSeenV == 0 && !out.FSeenB && !out.B1 && out.Err == behClass(in.FB), s
		}
		if !sawState() {
			return false, s
		}
		switch in.FB {
		case bOK:
			return out.Err == eNil && (in.Locked || out.B1 == s.P), kstate{}
		case bIgnore:
			return out.Err == eNil && !out.B1, s
		default:
			return out.Err == eCustom && !out.B1, s
		}
	case opSetOrRemove:
		if s.C {
			return !out.FCalled && out.Err == eClosed, s
		}
		if !sawState() {
			return false, s
		}
		switch {
		case in.FB == bIgnore:
			return out.Err == eNil && out.RetV == cur && !out.B1 && !out.B2, s
		case in.FB == bErr:
			return out.Err == eCustom && out.RetV == 0 && !out.B1 && !out.B2, s
		case s.P && in.Rm:
			return out.Err == eNil && out.RetV == 0 && !out.B1 && out.B2, kstate{}
		case !in.Rm:
			return out.Err == eNil && out.RetV == in.V && out.B1 == !s.P && !out.B2, kstate{P: true, V: in.V}
		default:
			return out.Err == eNil && out.RetV == 0 && !out.B1 && !out.B2, s
		}
	case opEmpty:
		if s.C {
			return true, s
		}
		return true, kstate{}
	case opClose:
		return true, kstate{C: true}
	}
	return false, s
}

// Get/GetOrCreate return f's error unchanged (ErrLockedSetIgnore is not
// special there), so f only uses nil / harness error in those ops.
func behClassGet(b int) int { return behClass(b) }

var model = porcupine.Model{
	Init: func() interface{} { return kstate{} },
	Step: step,
	DescribeOperation: func(i, o interface{}) string {
		return fmt.Sprintf("%+v -> %+v", i, o)
	},
}

// ---------------------------------------------------------------------------

type rec struct {
	Client   int
	In       input
	Out      output
	Call     int64
	Ret      int64 // 0 = still open
	KeyLabel string
}

type pairObs struct {
	key int
	v   uint64
	via string
}

type history struct {
	clock atomic.Int64
	mu    sync.Mutex
	recs  []*rec
	// values ever offered per key (registered before the call)
	offered []map[uint64]bool
	seen    []pairObs
}

func (h *history) begin(client int, in input) *rec {
	rc := &rec{Client: client, In: in}
	h.mu.Lock()
	h.recs = append(h.recs, rc)
	if in.Key >= 0 && in.V != 0 {
		h.offered[in.Key][in.V] = true
	}
	rc.Call = h.clock.Add(1)
	h.mu.Unlock()
	return rc
}

func (h *history) end(rc *rec, out output) {
	h.mu.Lock()
	rc.Out = out
	rc.Ret = h.clock.Add(1)
	h.mu.Unlock()
}

func (h *history) observe(p pairObs) {
	h.mu.Lock()
	h.seen = append(h.seen, p)
	h.mu.Unlock()
}

// execMap performs one operation on a LockedMap and reports what the caller saw.
func execMap[K cmp.Ordered](m util.LockedMap[K, uint64], k K, in input, yield func()) (out output) {
	defer func() {
		if e := recover(); e != nil {
			out.Panicked = fmt.Sprint(e)
		}
	}()
	switch in.Op {
	case opValue:
		out.RetV, out.B1 = m.Value(k)
	case opExists:
		out.B1 = m.Exists(k)
	case opSetValue:
		out.B1 = m.SetValue(k, in.V)
	case opRemoveValue:
		out.B1 = m.RemoveValue(k)
	case opGet:
		err := m.Get(k, func(v uint64, found bool) error {
			out.FCalled, out.FSeenV, out.FSeenB = true, v, found
			yield()
			return behErr(in.FB)
		})
		out.Err = classify(err)
	case opGetOrCreate:
		err := m.GetOrCreate(k, func(v uint64, created bool) error {
			out.FCalled, out.FSeenV, out.FSeenB = true, v, created
			yield()
			return behErr(in.FB)
		}, func() (uint64, error) {
			out.CCalled = true
			yield()
			if in.CB != bOK {
				return 0, behErr(in.CB)
			}
			return in.V, nil
		})
		out.Err = classify(err)
	case opSet:
		v, created, err := m.Set(k, func(v uint64, found bool) (uint64, error) {
			out.FCalled, out.FSeenV, out.FSeenB = true, v, found
			yield()
			if in.FB != bOK {
				return 0, behErr(in.FB)
			}
			return in.V, nil
		})
		out.RetV, out.B1, out.Err = v, created, classify(err)
	case opRemove:
		removed, err := m.Remove(k, func(v uint64, found bool) error {
			out.FCalled, out.FSeenV, out.FSeenB = true, v, found
			yield()
			return behErr(in.FB)
		})
		out.B1, out.Err = removed, classify(err)
	case opSetOrRemove:
		v, created, removed, err := m.SetOrRemove(k, func(v uint64, found bool) (uint64, bool, error) {
			out.FCalled, out.FSeenV, out.FSeenB = true, v, found
			yield()
			if in.FB != bOK {
				return 0, false, behErr(in.FB)
			}
			if in.Rm {
				return 0, true, nil
			}
			return in.V, false, nil
		})
		out.RetV, out.B1, out.B2, out.Err = v, created, removed, classify(err)
	case opEmpty:
		m.Empty()
	case opClose:
		m.Close()
	}
	return out
}

// execLocked maps the same operation vocabulary onto Locked[uint64].
func execLocked(l *util.Locked[uint64], in input, yield func()) (out output) {
	defer func() {
		if e := recover(); e != nil {
			out.Panicked = fmt.Sprint(e)
		}
	}()
	switch in.Op {
	case opValue:
		v, isempty := l.Value()
		out.RetV, out.B1 = v, !isempty
	case opSetValue:
		l.SetValue(in.V)
	case opRemoveValue:
		l.EmptyValue()
	case opGet:
		err := l.Get(func(v uint64, isempty bool) error {
			out.FCalled, out.FSeenV, out.FSeenB = true, v, !isempty
			yield()
			return behErr(in.FB)
		})
		out.Err = classify(err)
	case opGetOrCreate:
		err := l.GetOrCreate(func(v uint64, created bool) error {
			out.FCalled, out.FSeenV, out.FSeenB = true, v, created
			yield()
			return behErr(in.FB)
		}, func() (uint64, error) {
			out.CCalled = true
			yield()
			if in.CB != bOK {
				return 0, behErr(in.CB)
			}
			return in.V, nil
		})
		out.Err = classify(err)
	case opSet:
		v, err := l.Set(func(v uint64, isempty bool) (uint64, error) {
			out.FCalled, out.FSeenV, out.FSeenB = true, v, !isempty
			yield()
			if in.FB != bOK {
				return 0, behErr(in.FB)
			}
			return in.V, nil
		})
		out.RetV, out.Err = v, classify(err)
	case opRemove:
		err := l.Empty(func(v uint64, isempty bool) error {
			out.FCalled, out.FSeenV, out.FSeenB = true, v, !isempty
			yield()
			return behErr(in.FB)
		})
		out.Err = classify(err)
	}
	return out
}

// ---------------------------------------------------------------------------

type caseCfg struct {
	Kind    string   `json:"kind"`
	Shards  []uint64 `json:"shards,omitempty"`
	KeyType string   `json:"key_type"`
	Clients int      `json:"clients"`
	Keys    int      `json:"keys"`
	OpsPer  int      `json:"ops_per_client"`
	Closer  bool     `json:"has_close"`
	Empties bool     `json:"has_empty"`
}

type plannedOp struct {
	in    input
	yield int // number of Gosched calls inside callbacks
	gap   int // Gosched calls before the op
}

func plan(r *vlib.Run, idx int) (caseCfg, [][]plannedOp) {
	rng := r.Rand(32, idx)
	var cfg caseCfg
	switch idx % 5 {
	case 0:
		cfg.Kind = "SingleLockedMap"
	case 1, 2:
		cfg.Kind = "ShardedMap"
		cfg.Shards = []uint64{uint64(2 + rng.Intn(63))}
		if rng.Intn(2) == 0 {
			cfg.Shards[0] = uint64(2 + rng.Intn(4))
		}
	case 3:
		cfg.Kind = "DeepShardedMap"
		if rng.Intn(2) == 0 {
			cfg.Shards = []uint64{2, 2}
		} else {
			cfg.Shards = []uint64{3, 4, 5}
		}
	default:
		cfg.Kind = "Locked"
	}
	cfg.KeyType = "string"
	if rng.Intn(2) == 0 {
		cfg.KeyType = "int"
	}
	cfg.Clients = 2 + rng.Intn(15)
	cfg.Keys = 3 + rng.Intn(6)
	if cfg.Kind == "Locked" {
		cfg.Keys = 1
		cfg.KeyType = "-"
	}
	cfg.OpsPer = 10 + rng.Intn(51)
	if cfg.Kind == "Locked" {
		// one key only, and SetValue/EmptyValue return nothing: keep the
		// history small enough for the checker
		cfg.Clients = 2 + rng.Intn(5)
		cfg.OpsPer = 6 + rng.Intn(15)
	}
	cfg.Closer = cfg.Kind != "Locked" && rng.Intn(3) == 0
	cfg.Empties = cfg.Kind != "Locked" && rng.Intn(2) == 0

	ops := make([][]plannedOp, cfg.Clients)
	for c := range ops {
		closeAt := -1
		if cfg.Closer && c == 0 {
			closeAt = cfg.OpsPer/2 + rng.Intn(cfg.OpsPer/2)
		}
		for j := 0; j < cfg.OpsPer; j++ {
			var p plannedOp
			p.in.Key = rng.Intn(cfg.Keys)
			p.in.V = uint64(c+1)<<32 | uint64(j+1)
			p.in.Locked = cfg.Kind == "Locked"
			switch {
			case j == closeAt:
				p.in.Op, p.in.Key, p.in.V = opClose, -1, 0
			case cfg.Empties && rng.Intn(40) == 0:
				p.in.Op, p.in.Key, p.in.V = opEmpty, -1, 0
			default:
				// writes a little more frequent than reads
				p.in.Op = []opKind{opValue, opExists, opSetValue, opSetValue, opRemoveValue, opGet, opGetOrCreate, opGetOrCreate, opSet, opSet, opRemove, opSetOrRemove, opSetOrRemove}[rng.Intn(13)]
				if cfg.Kind == "Locked" && (p.in.Op == opExists || p.in.Op == opSetOrRemove) {
					p.in.Op = opSet
				}
			}
			switch p.in.Op {
			case opGet, opGetOrCreate:
				if rng.Intn(5) == 0 {
					p.in.FB = bErr
				}
				if p.in.Op == opGetOrCreate {
					p.in.CB = []int{bOK, bOK, bOK, bIgnore, bErr}[rng.Intn(5)]
				}
			case opSet, opRemove, opSetOrRemove:
				p.in.FB = []int{bOK, bOK, bOK, bOK, bIgnore, bErr}[rng.Intn(6)]
				p.in.Rm = rng.Intn(2) == 0
			}
			switch p.in.Op {
			case opValue, opExists, opRemoveValue, opGet, opRemove, opEmpty, opClose:
				p.in.V = 0
			}
			p.yield = rng.Intn(3)
			p.gap = rng.Intn(3)
			ops[c] = append(ops[c], p)
		}
	}
	return cfg, ops
}

type target struct {
	exec     func(keyIdx int, in input, yield func()) output
	traverse func(func(keyIdx int, v uint64)) // nil for Locked
	mapCopy  func() map[int]uint64
	length   func() int
}

func keyIndexString(s string) int {
	var i int
	_, _ = fmt.Sscanf(s, "key-%d", &i)
	return i
}

func newTarget(cfg caseCfg) (target, error) {
	if cfg.Kind == "Locked" {
		l := util.EmptyLocked[uint64]()
		return target{exec: func(_ int, in input, y func()) output { return execLocked(l, in, y) }}, nil
	}
	if cfg.KeyType == "int" {
		m, err := newMap[int](cfg)
		if err != nil {
			return target{}, err
		}
		return mapTarget(m, func(i int) int { return i*7 + 1 }, func(k int) int { return (k - 1) / 7 }), nil
	}
	m, err := newMap[string](cfg)
	if err != nil {
		return target{}, err
	}
	return mapTarget(m, func(i int) string { return fmt.Sprintf("key-%d", i) }, keyIndexString), nil
}

func newMap[K cmp.Ordered](cfg caseCfg) (util.LockedMap[K, uint64], error) {
	switch cfg.Kind {
	case "SingleLockedMap":
		return util.NewSingleLockedMap[K, uint64](), nil
	case "ShardedMap":
		return util.NewShardedMap[K, uint64](cfg.Shards[0], nil)
	case "DeepShardedMap":
		return util.NewDeepShardedMap[K, uint64](cfg.Shards, nil)
	}
	return nil, fmt.Errorf("unknown kind %q", cfg.Kind)
}

func mapTarget[K cmp.Ordered](m util.LockedMap[K, uint64], mk func(int) K, idx func(K) int) target {
	return target{
		exec: func(ki int, in input, y func()) output {
			var k K
			if ki >= 0 {
				k = mk(ki)
			}
			return execMap(m, k, in, y)
		},
		traverse: func(f func(int, uint64)) {
			m.Traverse(func(k K, v uint64) bool {
				f(idx(k), v)
				return true
			})
		},
		mapCopy: func() map[int]uint64 {
			o := map[int]uint64{}
			for k, v := range m.Map() {
				o[idx(k)] = v
			}
			return o
		},
		length: m.Len,
	}
}

type caseResult struct {
	cfg         caseCfg
	h           *history
	finalLen    int
	finalMap    map[int]uint64
	finalFound  int
	lenKnown    bool
	closedAtEnd bool
}

func runCase(r *vlib.Run, idx int) *caseResult {
	cfg, ops := plan(r, idx)
	tg, err := newTarget(cfg)
	if err != nil {
		r.Violation("constructor:"+cfg.Kind+":error", err.Error(), cfg)
		return nil
	}
	h := &history{offered: make([]map[uint64]bool, cfg.Keys)}
	for i := range h.offered {
		h.offered[i] = map[uint64]bool{}
	}
	var wg sync.WaitGroup
	start := make(chan struct{})
	for c := range ops {
		wg.Add(1)
		go func(c int) {
			defer wg.Done()
			<-start
			for _, p := range ops[c] {
				for g := 0; g < p.gap; g++ {
					runtime.Gosched()
				}
				y := func() {
					for g := 0; g < p.yield; g++ {
						runtime.Gosched()
					}
				}
				rc := h.begin(c, p.in)
				out := tg.exec(p.in.Key, p.in, y)
				h.end(rc, out)
			}
		}(c)
	}
	// an observer: Traverse / Map / Len while the clients run
	var obsDone chan struct{}
	if tg.traverse != nil {
		obsDone = make(chan struct{})
		stop := make(chan struct{})
		go func() {
			defer close(obsDone)
			<-start
			for i := 0; ; i++ {
				select {
				case <-stop:
					return
				default:
				}
				switch i % 3 {
				case 0:
					tg.traverse(func(k int, v uint64) { h.observe(pairObs{k, v, "Traverse"}) })
				case 1:
					for k, v := range tg.mapCopy() {
						h.observe(pairObs{k, v, "Map"})
					}
				default:
					_ = tg.length()
				}
				runtime.Gosched()
				if i > 200 {
					return
				}
			}
		}()
		defer func() { <-obsDone }()
		defer close(stop)
	}
	ok := r.WithWatchdog(60*time.Second, fmt.Sprintf("case %d clients", idx), func() {
		close(start)
		wg.Wait()
	})
	if !ok {
		return nil
	}
	res := &caseResult{cfg: cfg, h: h}
	// quiescent reads, part of the history so that the final state is checked too
	for k := 0; k < cfg.Keys; k++ {
		in := input{Op: opValue, Key: k, Locked: cfg.Kind == "Locked"}
		rc := h.begin(cfg.Clients, in)
		out := tg.exec(k, in, func() {})
		h.end(rc, out)
		if out.B1 {
			res.finalFound++
		}
	}
	if tg.length != nil {
		res.lenKnown = true
		res.finalLen = tg.length()
		res.finalMap = tg.mapCopy()
	}
	return res
}

func (h *history) fingerprint() (string, int) {
	// order of call/return events of the clients = the observed interleaving
	type ev struct {
		t  int64
		id int
	}
	var evs []ev
	for i, rc := range h.recs {
		evs = append(evs, ev{rc.Call, i*2 + 0})
		if rc.Ret != 0 {
			evs = append(evs, ev{rc.Ret, i*2 + 1})
		}
	}
	sort.Slice(evs, func(i, j int) bool { return evs[i].t < evs[j].t })
	hs := fnv.New64a()
	open := 0
	overlaps := 0
	for _, e := range evs {
		rc := h.recs[e.id/2]
		fmt.Fprintf(hs, "%d.%d.%d.%d;", rc.Client, rc.In.Op, rc.In.Key, e.id%2)
		if e.id%2 == 0 {
			overlaps += open
			open++
		} else {
			open--
		}
	}
	return fmt.Sprintf("%016x", hs.Sum64()), overlaps
}

func opset(ops []porcupine.Operation) string {
	m := map[string]bool{}
	for _, o := range ops {
		m[o.Input.(input).Op.String()] = true
	}
	var s []string
	for k := range m {
		s = append(s, k)
	}
	sort.Strings(s)
	return strings.Join(s, "+")
}

func checkCase(r *vlib.Run, idx int, res *caseResult) {
	h := res.h
	cfg := res.cfg
	fp, overlaps := h.fingerprint()
	r.Eval(1)
	if overlaps > 0 {
		r.Distinct(cfg.Kind + ":" + fp)
		r.SetAdd("interleavings_seen", fp)
	}
	r.Count("overlapping_operation_pairs", overlaps)
	r.Count("histories_"+cfg.Kind, 1)

	// per-key histories
	per := make([][]porcupine.Operation, cfg.Keys)
	hasClose, hasEmpty := false, false
	for _, rc := range h.recs {
		r.Count("ops_"+rc.In.Op.String(), 1)
		if rc.Out.Panicked != "" {
			r.Violation(cfg.Kind+":"+rc.In.Op.String()+":panic", "panic in "+rc.In.Op.String()+": "+rc.Out.Panicked, map[string]any{"cfg": cfg, "op": rc})
		}
		if rc.Out.Err == eClosed {
			r.Count("closed_errors_seen", 1)
		}
		if rc.Out.Err == eOther {
			r.Violation(cfg.Kind+":"+rc.In.Op.String()+":unexpected-error-class", "operation returned an error that is neither the callback's nor ErrLockedMapClosed", map[string]any{"cfg": cfg, "op": rc})
		}
		op := porcupine.Operation{ClientId: rc.Client, Input: rc.In, Output: rc.Out, Call: rc.Call, Return: rc.Ret}
		if rc.Ret == 0 {
			continue // cannot happen here: every client finished
		}
		if rc.In.Key < 0 {
			if rc.In.Op == opClose {
				hasClose = true
			} else {
				hasEmpty = true
			}
			for k := range per {
				per[k] = append(per[k], op)
			}
			continue
		}
		per[rc.In.Key] = append(per[rc.In.Key], op)
	}
	for k := range per {
		r.Count("key_histories_checked", 1)
		result, info := porcupine.CheckOperationsVerbose(model, per[k], 60*time.Second)
		switch result {
		case porcupine.Ok:
		case porcupine.Unknown:
			r.Inconclusive(fmt.Sprintf("porcupine timeout on case %d key %d (%d ops)", idx, k, len(per[k])))
		case porcupine.Illegal:
			sig := cfg.Kind + ":not-linearizable"
			if hasClose {
				sig += ":with-close"
			}
			if hasEmpty {
				sig += ":with-empty"
			}
			_ = info
			w := map[string]any{"case": idx, "cfg": cfg, "key": k, "history": describe(per[k])}
			r.Violation(sig, fmt.Sprintf("history of key %d on %s %v is not linearizable w.r.t. a sequential map (%d ops, kinds %s)", k, cfg.Kind, cfg.Shards, len(per[k]), opset(per[k])), w)
		}
	}
	// pairs reported by Traverse/Map during the run were written at some point
	for _, p := range h.seen {
		r.Count("pairs_reported_by_"+p.via, 1)
		if p.key < 0 || p.key >= cfg.Keys || !h.offered[p.key][p.v] {
			r.Violation(cfg.Kind+":"+p.via+":reported-pair-never-written", fmt.Sprintf("%s reported (%d,%#x) which no client ever wrote", p.via, p.key, p.v), map[string]any{"case": idx, "cfg": cfg})
		}
	}
	// quiescence: Len() == number of keys in Map() == keys found by Value
	if res.lenKnown {
		r.Count("final_len_checks", 1)
		if len(res.finalMap) != res.finalFound {
			r.Violation(cfg.Kind+":final-map-differs-from-values", fmt.Sprintf("Map() has %d keys, Value() finds %d", len(res.finalMap), res.finalFound), map[string]any{"case": idx, "cfg": cfg})
		}
		if res.finalLen != len(res.finalMap) {
			cause := "no-empty-no-close"
			if hasClose || hasEmpty {
				cause = "concurrent-empty-or-close"
			}
			r.Violation(cfg.Kind+":final-len-ne-keys:"+cause,
				fmt.Sprintf("after all operations finished Len()=%d but Map() has %d keys (%s %v)", res.finalLen, len(res.finalMap), cfg.Kind, cfg.Shards),
				map[string]any{"case": idx, "cfg": cfg, "len": res.finalLen, "keys": len(res.finalMap)})
		}
	}
}

func describe(ops []porcupine.Operation) []string {
	sort.Slice(ops, func(i, j int) bool { return ops[i].Call < ops[j].Call })
	var s []string
	for _, o := range ops {
		in := o.Input.(input)
		out := o.Output.(output)
		s = append(s, fmt.Sprintf("c%d [%d,%d] %s key=%d v=%#x fb=%d cb=%d rm=%v -> fcalled=%v seen=(%#x,%v) ccalled=%v ret=%#x b1=%v b2=%v err=%d",
			o.ClientId, o.Call, o.Return, in.Op, in.Key, in.V, in.FB, in.CB, in.Rm, out.FCalled, out.FSeenV, out.FSeenB, out.CCalled, out.RetV, out.B1, out.B2, out.Err))
		if len(s) >= 400 {
			break
		}
	}
	return s
}

// ---------------------------------------------------------------------------
// length workload: writers add/remove on private keys while another client
// empties (or finally closes) the map; at quiescence Len() must equal the
// number of keys.

type lenCfg struct {
	Kind    string   `json:"kind"`
	Shards  []uint64 `json:"shards"`
	Mode    string   `json:"ops"` // "mixed" or the one length-updating operation the writers use
	Writers int      `json:"writers"`
	Ops     int      `json:"ops_per_writer"`
	Keys    int      `json:"keys_per_writer"`
	Empties int      `json:"empties"`
	Close   bool     `json:"close_at_end"`
	Slow    bool     `json:"leaf_yields_after_each_update"`
}

// slowLeaf is a leaf map given to NewShardedMap/NewDeepShardedMap through
// their newMap parameter: a SingleLockedMap whose updating operations yield
// the processor after they are done (a slow leaf implementation), i.e. while
// the sharded map has the leaf's answer but has not yet updated its length.
type slowLeaf struct {
	*util.SingleLockedMap[int, uint64]
}

func pauseLeaf() {
	runtime.Gosched()
	runtime.Gosched()
}

func (s slowLeaf) SetValue(k int, v uint64) bool {
	defer pauseLeaf()
	return s.SingleLockedMap.SetValue(k, v)
}

func (s slowLeaf) RemoveValue(k int) bool {
	defer pauseLeaf()
	return s.SingleLockedMap.RemoveValue(k)
}

func (s slowLeaf) GetOrCreate(k int, f func(uint64, bool) error, create func() (uint64, error)) error {
	defer pauseLeaf()
	return s.SingleLockedMap.GetOrCreate(k, f, create)
}

func (s slowLeaf) Set(k int, f func(uint64, bool) (uint64, error)) (uint64, bool, error) {
	defer pauseLeaf()
	return s.SingleLockedMap.Set(k, f)
}

func (s slowLeaf) Remove(k int, f func(uint64, bool) error) (bool, error) {
	defer pauseLeaf()
	return s.SingleLockedMap.Remove(k, f)
}

func (s slowLeaf) SetOrRemove(k int, f func(uint64, bool) (uint64, bool, error)) (uint64, bool, bool, error) {
	defer pauseLeaf()
	return s.SingleLockedMap.SetOrRemove(k, f)
}

// the six operations of ShardedMap that update its length
var lenModes = []string{"mixed", "SetValue", "GetOrCreate", "Set", "SetOrRemove", "RemoveValue", "Remove"}

// lenStress: writers on private keys use either a mix of all six
// length-updating operations (creating and removing outcome of each) or one
// of them in isolation, while another goroutine calls Empty() (finally
// Close()). In isolation SetValue/GetOrCreate/Set only create (Empty is what
// removes), SetOrRemove creates and removes, RemoveValue/Remove remove what
// SetValue created.
func lenStress(r *vlib.Run, idx int) {
	rng := r.Rand(33, idx)
	cfg := lenCfg{Kind: "ShardedMap", Shards: []uint64{uint64(2 + rng.Intn(15))}}
	cfg.Mode = lenModes[idx%len(lenModes)]
	if (idx/len(lenModes))%2 == 1 {
		cfg.Kind = "DeepShardedMap"
		cfg.Shards = []uint64{2, 2}
		if rng.Intn(2) == 0 {
			cfg.Shards = []uint64{3, 4, 5}
		}
	}
	cfg.Writers = 2 + rng.Intn(7)
	cfg.Ops = 300 + rng.Intn(500)
	cfg.Keys = []int{4, 8, 32}[rng.Intn(3)]
	cfg.Empties = 60 + rng.Intn(200)
	cfg.Close = rng.Intn(4) == 0
	cfg.Slow = (idx/(2*len(lenModes)))%3 != 0
	var newLeaf func() util.LockedMap[int, uint64]
	if cfg.Slow {
		cfg.Ops = 100 + rng.Intn(200)
		newLeaf = func() util.LockedMap[int, uint64] {
			return slowLeaf{util.NewSingleLockedMap[int, uint64]()}
		}
	}
	var m util.LockedMap[int, uint64]
	var err error
	if cfg.Kind == "ShardedMap" {
		m, err = util.NewShardedMap[int, uint64](cfg.Shards[0], newLeaf)
	} else {
		m, err = util.NewDeepShardedMap[int, uint64](cfg.Shards, newLeaf)
	}
	if err != nil {
		r.Violation("constructor:"+cfg.Kind+":error", err.Error(), cfg)
		return
	}
	var wg sync.WaitGroup
	start := make(chan struct{})
	var created, removed, emptied atomic.Int64
	do := func(op string, k int, v uint64) {
		switch op {
		case "SetValue":
			if m.SetValue(k, v) {
				created.Add(1)
			}
		case "Set":
			if _, c, _ := m.Set(k, func(uint64, bool) (uint64, error) { return v, nil }); c {
				created.Add(1)
			}
		case "GetOrCreate":
			_ = m.GetOrCreate(k, func(_ uint64, c bool) error {
				if c {
					created.Add(1)
				}
				return nil
			}, func() (uint64, error) { return v, nil })
		case "RemoveValue":
			if m.RemoveValue(k) {
				removed.Add(1)
			}
		case "Remove":
			if rm, _ := m.Remove(k, func(uint64, bool) error { return nil }); rm {
				removed.Add(1)
			}
		case "SetOrRemove": // creates when absent, removes when present
			_, c, rm, _ := m.SetOrRemove(k, func(_ uint64, found bool) (uint64, bool, error) { return v, found, nil })
			if c {
				created.Add(1)
			}
			if rm {
				removed.Add(1)
			}
		}
	}
	for w := 0; w < cfg.Writers; w++ {
		wg.Add(1)
		wr := r.Rand(33, idx, w)
		go func(w int) {
			defer wg.Done()
			<-start
			for j := 0; j < cfg.Ops; j++ {
				k := w*1000 + wr.Intn(cfg.Keys)
				v := uint64(w+1)<<32 | uint64(j+1)
				switch cfg.Mode {
				case "mixed":
					do(lenModes[1+wr.Intn(6)], k, v)
				case "RemoveValue", "Remove":
					do("SetValue", k, v)
					do(cfg.Mode, k, v)
				default:
					do(cfg.Mode, k, v)
				}
			}
		}(w)
	}
	wg.Add(1)
	go func() {
		defer wg.Done()
		<-start
		for j := 0; j < cfg.Empties; j++ {
			m.Empty()
			emptied.Add(1)
			for g := 0; g < j%4; g++ {
				runtime.Gosched()
			}
		}
		if cfg.Close {
			m.Close()
		}
	}()
	if !r.WithWatchdog(60*time.Second, fmt.Sprintf("len workload %d", idx), func() {
		close(start)
		wg.Wait()
	}) {
		return
	}
	l, keys := m.Len(), len(m.Map())
	r.Case(fmt.Sprintf("len:%s:%v:slow%v:%s:w%d:o%d:k%d:e%d:c%v:created%d:removed%d", cfg.Kind, cfg.Shards, cfg.Slow, cfg.Mode, cfg.Writers, cfg.Ops, cfg.Keys, cfg.Empties, cfg.Close, created.Load(), removed.Load()))
	r.Count("len_workload_runs", 1)
	r.Count("len_workload_runs_"+cfg.Mode, 1)
	r.Count("len_workload_keys_created", int(created.Load()))
	r.Count("len_workload_keys_removed", int(removed.Load()))
	r.Count("len_workload_empty_calls", int(emptied.Load()))
	if idx < 2 {
		r.Sample(map[string]any{"len_workload": cfg, "final_len": l, "final_keys": keys})
	}
	if l != keys {
		how := "concurrent-empty"
		if cfg.Close {
			how = "concurrent-empty-then-close"
		}
		r.Violation(cfg.Kind+":final-len-ne-keys:"+how+":ops="+cfg.Mode,
			fmt.Sprintf("writers on private keys (operations: %s) raced %d Empty() calls (close=%v); after everything returned Len()=%d but Map() has %d keys (%s %v)", cfg.Mode, cfg.Empties, cfg.Close, l, keys, cfg.Kind, cfg.Shards),
			map[string]any{"cfg": cfg, "len": l, "keys": keys, "idx": idx})
	}
}

// directed sequential cases of the quiescent length clause
func lenDirected(r *vlib.Run) {
	for _, kind := range []string{"ShardedMap", "DeepShardedMap"} {
		var m util.LockedMap[string, uint64]
		if kind == "ShardedMap" {
			m, _ = util.NewShardedMap[string, uint64](3, nil)
		} else {
			m, _ = util.NewDeepShardedMap[string, uint64]([]uint64{2, 2}, nil)
		}
		err := m.GetOrCreate("a", func(uint64, bool) error { return errCustom }, func() (uint64, error) { return 7, nil })
		_, found := m.Value("a")
		r.Case("directed:getorcreate-callback-error:" + kind)
		if l, keys := m.Len(), len(m.Map()); l != keys {
			r.Violation(kind+":final-len-ne-keys:getorcreate-callback-error",
				fmt.Sprintf("GetOrCreate(\"a\", f returning an error, create returning 7) returned %v; the key is stored (Value found=%v, Map() has %d keys) but Len()=%d", err, found, keys, l),
				map[string]any{"kind": kind, "len": l, "keys": keys})
		}
	}
}

func TestC32(t *testing.T) {
	r := vlib.Start(t, "C32", vlib.LevelExploration)
	defer r.Finish()
	r.SetRule("case = one recorded concurrent history: map kind (SingleLockedMap | ShardedMap 2..64 shards | DeepShardedMap [2,2]/[3,4,5] | Locked), key type, 2-16 clients x 3-8 keys x 10-60 ops each (Value, Exists, SetValue, RemoveValue, Get, GetOrCreate, Set, Remove, SetOrRemove, Empty, Close; callbacks succeed / return ErrLockedSetIgnore / return an error and yield the processor), all from the seeded PRNG; plus length workloads (writers on private keys racing Empty/Close, using all six length-updating operations mixed and each one in isolation, on sharded and deep-sharded maps, with plain leaves and with leaves (newMap parameter) that yield after each update) and directed sequential length cases. distinct = map kind + hash of the observed order of call/return events; non-trivial = at least one pair of operations overlapped in time")
	r.Assume("Close and Empty are copied into every key's history (necessary condition for linearizability of the whole map, weaker than the full multi-key check)")
	r.Assume("in the closed state Get/Remove may report ErrLockedMapClosed or behave as on an empty map; both are accepted")
	r.Assume("Traverse/Map/Len during the run are checked only for 'every reported pair was offered by some write'")

	lenDirected(r)

	n := r.N(1500, 16000)
	var sampled atomic.Int32
	vlib.Parallel(n, 12, func(i int) {
		res := runCase(r, i)
		if res == nil {
			return
		}
		checkCase(r, i, res)
		if i < 4 && sampled.Add(1) <= 4 {
			fp, ov := res.h.fingerprint()
			r.Sample(map[string]any{"case": i, "cfg": res.cfg, "ops": len(res.h.recs), "overlapping_pairs": ov, "interleaving": fp, "final_len": res.finalLen, "final_keys": len(res.finalMap)})
		}
	})

	ln := r.N(420, 4200)
	vlib.Parallel(ln, 4, func(i int) { lenStress(r, i) })
}
