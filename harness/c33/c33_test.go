package c33

// C33: a job worker runs each accepted job exactly once, Wait waits for all of
// them, the first job error is the error returned; BatchWork visits every
// index once, batch by batch, each batch's preparation before its jobs.
//
// The real BaseJobWorker / ErrCallbackJobWorker / BatchWork are driven with
// generated job sets; jobs log accepted/started/finished, the callers log
// Wait call/return; the oracle reads the log.

import (
	"bytes"
	"context"
	"errors"
	"fmt"
	"hash/fnv"
	"runtime"
	"runtime/pprof"
	"strconv"
	"strings"
	"sync"
	"sync/atomic"
	"testing"
	"time"

	"github.com/spikeekips/mitum/util"
	"verifharness/vlib"
)

// per-case watchdog (=> inconclusive); the machine may be heavily loaded and a
// goroutine profile stops the world, so it is far above any case's run time
const caseWatchdog = 90 * time.Second

type jobErr struct{ i int }

func (e *jobErr) Error() string { return fmt.Sprintf("c33 job %d failed", e.i) }

type jobRec struct {
	submitted bool
	accepted  bool
	starts    int
	startSeq  int64
	finished  bool
	endSeq    int64
	err       error
}

type wcase struct {
	Mode        string `json:"mode"`
	Jobs        int    `json:"jobs"`
	Sem         int64  `json:"sem"`
	Submitters  int    `json:"submitters"`
	Fail        []int  `json:"failing_jobs,omitempty"`
	CancelAt    int    `json:"external_cancel_at_job,omitempty"` // -1: none
	WaitEarly   bool   `json:"wait_started_before_submitting"`
	StopOnError bool   `json:"submitter_stops_on_newjob_error"`
	Limit       int64  `json:"batch_limit,omitempty"`
	PrefFail    int    `json:"prepare_fails_at_batch,omitempty"` // -1 none
}

type wlog struct {
	mu   sync.Mutex
	seq  int64
	jobs []jobRec
	hash []byte // order of start/finish events
}

func (l *wlog) next() int64 { l.seq++; return l.seq }

// jitter: a few scheduling points / a short busy loop / a short sleep
func jitter(kind, n int) {
	switch kind % 4 {
	case 0:
	case 1:
		for i := 0; i < n; i++ {
			runtime.Gosched()
		}
	case 2:
		x := 0
		for i := 0; i < n*200; i++ {
			x += i
		}
		_ = x
	default:
		time.Sleep(time.Duration(n) * 20 * time.Microsecond)
	}
}

func settle(r *vlib.Run, what string, done func() bool) bool {
	deadline := time.Now().Add(caseWatchdog)
	for !done() {
		if time.Now().After(deadline) {
			r.Inconclusive("jobs did not settle within " + caseWatchdog.String() + " in " + what)
			return false
		}
		time.Sleep(200 * time.Microsecond)
	}
	return true
}

// workerGoroutines counts the live goroutines that carry this case's pprof
// label and are inside the worker's own code (the job goroutines NewJob
// starts run in closures of NewBaseJobWorker). Goroutines inherit the labels
// of their creator, and every NewJob call of a case is made by a labelled
// goroutine. Zero means: every job goroutine the worker ever started has
// returned, whatever the machine load -- a logical quiescence criterion.
func workerGoroutines(label string) int {
	var buf bytes.Buffer
	_ = pprof.Lookup("goroutine").WriteTo(&buf, 1)
	want := fmt.Sprintf("%q:%q", "c33case", label)
	n := 0
	for _, blk := range strings.Split(buf.String(), "\n\n") {
		if !strings.Contains(blk, want) {
			continue
		}
		if !strings.Contains(blk, "mitum/util.NewBaseJobWorker") && !strings.Contains(blk, "mitum/util.NewErrCallbackJobWorker") {
			continue
		}
		k, err := strconv.Atoi(strings.Fields(blk)[0])
		if err != nil {
			k = 1
		}
		n += k
	}
	return n
}

// settleWorker waits until every accepted job finished or, failing that,
// until no job goroutine of this worker exists any more (then an accepted job
// that never started can never start). Only if neither is reached within the
// watchdog is the case inconclusive.
func settleWorker(r *vlib.Run, what, label string, allFinished func() bool) bool {
	begin := time.Now()
	deadline := begin.Add(caseWatchdog)
	for !allFinished() {
		if time.Since(begin) > time.Millisecond {
			r.Count("goroutine_profiles_taken", 1)
			if workerGoroutines(label) == 0 {
				r.Count("quiescence_established_by_goroutine_profile", 1)
				return true
			}
		}
		if time.Now().After(deadline) {
			r.Inconclusive("job goroutines still alive " + caseWatchdog.String() + " after Wait returned in " + what)
			return false
		}
		time.Sleep(200 * time.Microsecond)
	}
	return true
}

func fpOf(c wcase, l *wlog) string {
	h := fnv.New64a()
	h.Write(l.hash)
	return fmt.Sprintf("%s:j%d:s%d:f%d:c%d:l%d:%016x", c.Mode, c.Jobs, c.Sem, len(c.Fail), c.CancelAt, c.Limit, h.Sum64())
}

func inSet(s []int, i int) bool {
	for _, x := range s {
		if x == i {
			return true
		}
	}
	return false
}

// ---------------------------------------------------------------------------
// BaseJobWorker / ErrCallbackJobWorker

func workerCase(r *vlib.Run, idx int) {
	label := strconv.Itoa(idx)
	pprof.SetGoroutineLabels(pprof.WithLabels(context.Background(), pprof.Labels("c33case", label)))
	defer pprof.SetGoroutineLabels(context.Background())
	rng := r.Rand(33, idx)
	c := wcase{Mode: "BaseJobWorker", CancelAt: -1, PrefFail: -1}
	if idx%4 == 3 {
		c.Mode = "ErrCallbackJobWorker"
	}
	switch rng.Intn(6) {
	case 0:
		c.Jobs = rng.Intn(3)
	case 1:
		c.Jobs = 100 + rng.Intn(201)
	default:
		c.Jobs = 1 + rng.Intn(60)
	}
	c.Sem = int64(1 + rng.Intn(64))
	if rng.Intn(3) == 0 {
		c.Sem = int64(1 + rng.Intn(3))
	}
	c.Submitters = 1 + rng.Intn(3)
	c.WaitEarly = rng.Intn(2) == 0
	c.StopOnError = rng.Intn(2) == 0
	switch rng.Intn(4) {
	case 0: // exactly one failing job
		if c.Jobs > 0 {
			c.Fail = []int{rng.Intn(c.Jobs)}
		}
	case 1:
		for i := 0; i < c.Jobs; i++ {
			if rng.Intn(5) == 0 {
				c.Fail = append(c.Fail, i)
			}
		}
	}
	if rng.Intn(6) == 0 && c.Jobs > 0 {
		c.CancelAt = rng.Intn(c.Jobs)
	}
	jk := make([]int, c.Jobs+3)
	jn := make([]int, c.Jobs+3)
	for i := range jk {
		jk[i] = rng.Intn(8)
		jn[i] = 1 + rng.Intn(5)
	}

	l := &wlog{jobs: make([]jobRec, c.Jobs+3)}
	errs := make([]*jobErr, c.Jobs+3)
	for i := range errs {
		errs[i] = &jobErr{i}
	}
	parent, cancelParent := context.WithCancel(context.Background())
	defer cancelParent()
	var externalCancelled atomic.Bool

	var errfMu sync.Mutex
	errfCalls := map[int]int{}
	var errfOther int

	var wk *util.BaseJobWorker
	var err error
	if c.Mode == "BaseJobWorker" {
		wk, err = util.NewBaseJobWorker(parent, c.Sem)
	} else {
		wk, err = util.NewErrCallbackJobWorker(parent, c.Sem, func(e error) {
			errfMu.Lock()
			defer errfMu.Unlock()
			var je *jobErr
			if errors.As(e, &je) {
				errfCalls[je.i]++
			} else {
				errfOther++
			}
		})
	}
	if err != nil {
		r.Violation(c.Mode+":constructor-error", err.Error(), c)
		return
	}
	defer wk.Close()

	job := func(i int) util.ContextWorkerCallback {
		return func(ctx context.Context, _ uint64) error {
			l.mu.Lock()
			l.jobs[i].starts++
			l.jobs[i].startSeq = l.next()
			l.hash = append(l.hash, byte(i), 's')
			l.mu.Unlock()
			if i == c.CancelAt {
				externalCancelled.Store(true)
				cancelParent()
			}
			jitter(jk[i], jn[i])
			if jk[i] == 7 { // a job that honours cancellation
				select {
				case <-ctx.Done():
				case <-time.After(300 * time.Microsecond):
				}
			}
			var e error
			if inSet(c.Fail, i) {
				e = errs[i]
			}
			l.mu.Lock()
			l.jobs[i].finished = true
			l.jobs[i].endSeq = l.next()
			l.jobs[i].err = e
			l.hash = append(l.hash, byte(i), 'f')
			l.mu.Unlock()
			return e
		}
	}

	var waitErr error
	var waitRetSeq int64
	var finishedAtWait, acceptedAtWait int
	var failedAtWait []int
	waitDone := make(chan struct{})
	doWait := func() {
		defer close(waitDone)
		e := wk.Wait()
		l.mu.Lock()
		waitErr = e
		waitRetSeq = l.next()
		for i := 0; i < c.Jobs; i++ {
			if l.jobs[i].accepted {
				acceptedAtWait++
			}
			if l.jobs[i].finished {
				finishedAtWait++
				if l.jobs[i].err != nil {
					failedAtWait = append(failedAtWait, i)
				}
			}
		}
		l.mu.Unlock()
	}

	ok := r.WithWatchdog(caseWatchdog, fmt.Sprintf("worker case %d", idx), func() {
		if c.WaitEarly {
			go doWait()
		}
		var swg sync.WaitGroup
		for s := 0; s < c.Submitters; s++ {
			swg.Add(1)
			go func(s int) {
				defer swg.Done()
				for i := s; i < c.Jobs; i += c.Submitters {
					l.mu.Lock()
					l.jobs[i].submitted = true
					l.mu.Unlock()
					e := wk.NewJob(job(i))
					// accepted is recorded after NewJob returned; a job may
					// have started before that, which is fine
					if e == nil {
						l.mu.Lock()
						l.jobs[i].accepted = true
						l.mu.Unlock()
					} else if c.StopOnError {
						return
					}
				}
			}(s)
		}
		swg.Wait()
		wk.Done()
		if !c.WaitEarly {
			go doWait()
		}
		<-waitDone
	})
	if !ok {
		return
	}

	// no job is accepted after Wait returned
	lateAccepted := 0
	for k := 0; k < 3; k++ {
		i := c.Jobs + k
		if e := wk.NewJob(job(i)); e == nil {
			lateAccepted++
		}
	}

	// stragglers (only possible after an error / cancellation) finish, or the
	// worker has no job goroutine left
	if !settleWorker(r, c.Mode, label, func() bool {
		l.mu.Lock()
		defer l.mu.Unlock()
		for i := range l.jobs {
			if l.jobs[i].accepted && !l.jobs[i].finished {
				return false
			}
		}
		return true
	}) {
		return
	}
	time.Sleep(200 * time.Microsecond)

	l.mu.Lock()
	defer l.mu.Unlock()
	accepted, rejected, failedTotal, started := 0, 0, 0, 0
	overl := 0
	for i := 0; i < c.Jobs; i++ {
		j := l.jobs[i]
		if j.accepted {
			accepted++
		} else if j.submitted {
			rejected++
		}
		started += j.starts
		if j.accepted && j.starts == 0 {
			r.Violation(c.Mode+":accepted-job-never-run", fmt.Sprintf("NewJob returned nil for job %d, Wait returned (%v), no job goroutine of the worker is left, and the job's callback was never started", i, waitErr), c)
		} else if j.accepted && j.starts != 1 {
			r.Violation(c.Mode+":accepted-job-not-run-exactly-once", fmt.Sprintf("job %d accepted, callback started %d times", i, j.starts), c)
		}
		if !j.accepted && j.starts > 0 {
			r.Violation(c.Mode+":unaccepted-job-started", fmt.Sprintf("NewJob returned an error for job %d but its callback started %d times", i, j.starts), c)
		}
		if j.err != nil {
			failedTotal++
		}
	}
	for i := 0; i+1 < len(l.hash); i += 2 {
		if l.hash[i+1] == 's' && i+3 < len(l.hash) && l.hash[i+3] == 's' {
			overl++
		}
	}
	for k := 0; k < 3; k++ {
		if l.jobs[c.Jobs+k].starts > 0 || lateAccepted > 0 {
			r.Violation(c.Mode+":job-accepted-after-wait-returned", fmt.Sprintf("NewJob after Wait returned: accepted=%d started=%d", lateAccepted, l.jobs[c.Jobs+k].starts), c)
			break
		}
	}
	_ = acceptedAtWait
	cancelled := externalCancelled.Load()
	isJobErr := func(e error) (int, bool) {
		var je *jobErr
		if errors.As(e, &je) {
			return je.i, true
		}
		return -1, false
	}
	switch c.Mode {
	case "BaseJobWorker":
		switch {
		case len(c.Fail) == 0 && !cancelled, failedTotal == 0 && !cancelled:
			if finishedAtWait != accepted {
				r.Violation(c.Mode+":wait-returned-before-all-jobs-finished", fmt.Sprintf("no job failed, no cancellation: Wait returned with %d of %d accepted jobs finished", finishedAtWait, accepted), c)
			}
			if waitErr != nil {
				r.Violation(c.Mode+":wait-returned-error-without-failure", fmt.Sprintf("no job failed, no cancellation: Wait returned %v", waitErr), c)
			}
		default:
			i, isjob := isJobErr(waitErr)
			switch {
			case waitErr == nil:
				if len(failedAtWait) > 0 {
					r.Violation(c.Mode+":wait-returned-nil-although-a-job-failed", fmt.Sprintf("jobs %v had returned an error before Wait returned nil", failedAtWait), c)
				} else if finishedAtWait != accepted {
					r.Violation(c.Mode+":wait-returned-nil-before-all-jobs-finished", fmt.Sprintf("Wait returned nil with %d of %d accepted jobs finished", finishedAtWait, accepted), c)
				}
			case isjob:
				if !inSet(failedAtWait, i) {
					r.Violation(c.Mode+":wait-error-not-from-a-finished-failed-job", fmt.Sprintf("Wait returned the error of job %d; jobs that had failed when Wait returned: %v", i, failedAtWait), c)
				}
			case cancelled && errors.Is(waitErr, context.Canceled):
			default:
				r.Violation(c.Mode+":wait-returned-foreign-error", fmt.Sprintf("Wait returned %v (failing jobs %v, external cancel %v)", waitErr, failedAtWait, cancelled), c)
			}
			if failedTotal == 1 && !cancelled && (!isjob || !inSet(c.Fail, i)) {
				r.Violation(c.Mode+":single-failure-not-returned", fmt.Sprintf("exactly one job failed but Wait returned %v", waitErr), c)
			}
		}
	default: // ErrCallbackJobWorker: errors go to errf, nothing is cancelled by them
		if !cancelled {
			if finishedAtWait != accepted {
				r.Violation(c.Mode+":wait-returned-before-all-jobs-finished", fmt.Sprintf("no cancellation: Wait returned with %d of %d accepted jobs finished", finishedAtWait, accepted), c)
			}
			if waitErr != nil {
				r.Violation(c.Mode+":wait-returned-error-without-cancellation", fmt.Sprintf("Wait returned %v", waitErr), c)
			}
		}
		errfMu.Lock()
		for i := 0; i < c.Jobs; i++ {
			want := 0
			if l.jobs[i].err != nil {
				want = 1
			}
			// after a cancellation Wait may return before a straggler's error
			// reached the callback: then only "never more than once" is judged
			if errfCalls[i] > want || (errfCalls[i] < want && !cancelled) {
				r.Violation(c.Mode+":error-callback-count", fmt.Sprintf("job %d returned err=%v, error callback called %d times for it", i, l.jobs[i].err, errfCalls[i]), c)
			}
		}
		if errfOther > 0 {
			r.Violation(c.Mode+":error-callback-foreign-error", "error callback got an error no job returned", c)
		}
		errfMu.Unlock()
	}
	_ = waitRetSeq
	if c.Jobs >= 2 {
		r.Case(fpOf(c, l))
	} else {
		r.Eval(1)
	}
	r.Count("jobs_accepted", accepted)
	r.Count("jobs_rejected_by_NewJob", rejected)
	r.Count("job_callbacks_started", started)
	r.Count("jobs_failed", failedTotal)
	r.Count("wait_returns", 1)
	if waitErr != nil {
		r.Count("wait_returned_error", 1)
		if finishedAtWait != accepted {
			r.Count("wait_returned_error_with_jobs_still_running", 1)
		}
	}
	if cancelled {
		r.Count("external_cancellations", 1)
	}
	r.Count("consecutive_starts_without_finish_between", overl)
	r.Count("cases_"+c.Mode, 1)
	if idx < 2 {
		r.Sample(map[string]any{"case": c, "accepted": accepted, "failed": failedTotal, "wait_error": fmt.Sprint(waitErr), "finished_when_wait_returned": finishedAtWait})
	}
}

// ---------------------------------------------------------------------------
// BatchWork

type visit struct {
	i, last        uint64
	startSeq, end  int64
	prepSeenBefore int // number of prepare returns logged when the visit started
}

func batchCase(r *vlib.Run, idx int) {
	rng := r.Rand(34, idx)
	c := wcase{Mode: "BatchWork", CancelAt: -1, PrefFail: -1}
	c.Jobs = 1 + rng.Intn(300)
	if rng.Intn(2) == 0 {
		c.Jobs = 1 + rng.Intn(40)
	}
	c.Limit = int64(1 + rng.Intn(50))
	switch rng.Intn(5) {
	case 0:
		c.Fail = []int{rng.Intn(c.Jobs)}
	case 1:
		for i := 0; i < c.Jobs; i++ {
			if rng.Intn(20) == 0 {
				c.Fail = append(c.Fail, i)
			}
		}
	}
	nb := (c.Jobs + int(c.Limit) - 1) / int(c.Limit)
	if rng.Intn(8) == 0 {
		c.PrefFail = rng.Intn(nb)
	}
	if rng.Intn(10) == 0 {
		c.CancelAt = rng.Intn(c.Jobs)
	}
	jk := make([]int, c.Jobs)
	jn := make([]int, c.Jobs)
	for i := range jk {
		jk[i] = rng.Intn(7)
		jn[i] = 1 + rng.Intn(4)
	}
	lastOf := func(b int) uint64 {
		e := (b + 1) * int(c.Limit)
		if e > c.Jobs {
			e = c.Jobs
		}
		return uint64(e - 1)
	}

	var mu sync.Mutex
	var seq int64
	type prep struct {
		last             uint64
		callSeq, retSeq  int64
		visitsOpenAtCall int
	}
	var preps []prep
	visits := map[uint64][]*visit{}
	var order []byte
	open := 0
	errs := make([]*jobErr, c.Jobs)
	for i := range errs {
		errs[i] = &jobErr{i}
	}
	prefErr := errors.New("c33 prepare failed")
	parent, cancelParent := context.WithCancel(context.Background())
	defer cancelParent()
	var cancelled atomic.Bool
	var running atomic.Int64

	var ret error
	var retSeq int64
	var failedAtRet, failedWhenReturned []int
	ok := r.WithWatchdog(caseWatchdog, fmt.Sprintf("batch case %d", idx), func() {
		ret = util.BatchWork(parent, int64(c.Jobs), c.Limit,
			func(_ context.Context, last uint64) error {
				mu.Lock()
				seq++
				b := len(preps)
				preps = append(preps, prep{last: last, callSeq: seq, visitsOpenAtCall: open})
				mu.Unlock()
				jitter(b, 2)
				mu.Lock()
				seq++
				preps[b].retSeq = seq
				mu.Unlock()
				if b == c.PrefFail {
					return prefErr
				}
				return nil
			},
			func(ctx context.Context, i, last uint64) error {
				running.Add(1)
				defer running.Add(-1)
				v := &visit{i: i, last: last}
				mu.Lock()
				seq++
				v.startSeq = seq
				for _, p := range preps {
					if p.retSeq != 0 {
						v.prepSeenBefore++
					}
				}
				visits[i] = append(visits[i], v)
				order = append(order, byte(i), 's')
				open++
				mu.Unlock()
				if int(i) == c.CancelAt {
					cancelled.Store(true)
					cancelParent()
				}
				if int(i) < len(jk) {
					jitter(jk[i], jn[i])
				}
				var e error
				if inSet(c.Fail, int(i)) {
					e = errs[i]
				}
				mu.Lock()
				seq++
				v.end = seq
				open--
				if e != nil {
					failedAtRet = append(failedAtRet, int(i))
				}
				order = append(order, byte(i), 'f')
				mu.Unlock()
				return e
			})
		mu.Lock()
		seq++
		retSeq = seq
		failedWhenReturned = append([]int{}, failedAtRet...)
		mu.Unlock()
	})
	if !ok {
		return
	}
	if !settle(r, "BatchWork", func() bool { return running.Load() == 0 }) {
		return
	}
	time.Sleep(200 * time.Microsecond)
	mu.Lock()
	defer mu.Unlock()

	anyFail := len(c.Fail) > 0 || c.PrefFail >= 0 || cancelled.Load()
	nvis := 0
	// clauses that hold on every run
	for i, vs := range visits {
		nvis += len(vs)
		if len(vs) > 1 {
			r.Violation("BatchWork:index-visited-more-than-once", fmt.Sprintf("index %d visited %d times (size %d limit %d)", i, len(vs), c.Jobs, c.Limit), c)
		}
		if int(i) >= c.Jobs {
			r.Violation("BatchWork:index-out-of-range", fmt.Sprintf("index %d visited, size %d", i, c.Jobs), c)
			continue
		}
		b := int(i) / int(c.Limit)
		for _, v := range vs {
			if v.last != lastOf(b) {
				r.Violation("BatchWork:wrong-last-in-visit", fmt.Sprintf("visit(%d) got last=%d, batch %d ends at %d (size %d limit %d)", i, v.last, b, lastOf(b), c.Jobs, c.Limit), c)
			}
			if b >= len(preps) || preps[b].retSeq == 0 || preps[b].retSeq > v.startSeq {
				r.Violation("BatchWork:visit-before-its-batch-was-prepared", fmt.Sprintf("visit(%d) of batch %d started before prepare of that batch returned (size %d limit %d)", i, b, c.Jobs, c.Limit), c)
			}
			if b+1 < len(preps) && (v.end == 0 || v.end > preps[b+1].callSeq) {
				r.Violation("BatchWork:next-batch-prepared-before-visit-finished", fmt.Sprintf("prepare of batch %d was called while visit(%d) of batch %d had not finished (size %d limit %d)", b+1, i, b, c.Jobs, c.Limit), c)
			}
		}
	}
	for b, p := range preps {
		if p.last != lastOf(b) {
			r.Violation("BatchWork:wrong-last-in-prepare", fmt.Sprintf("prepare #%d got last=%d, expected %d (size %d limit %d)", b, p.last, lastOf(b), c.Jobs, c.Limit), c)
		}
	}
	if len(preps) > nb {
		r.Violation("BatchWork:too-many-prepares", fmt.Sprintf("%d prepares for %d batches", len(preps), nb), c)
	}
	if !anyFail {
		if ret != nil {
			r.Violation("BatchWork:returned-error-without-failure", fmt.Sprintf("returned %v", ret), c)
		}
		for i := 0; i < c.Jobs; i++ {
			if len(visits[uint64(i)]) == 0 {
				r.Violation("BatchWork:index-not-visited", fmt.Sprintf("index %d never visited (size %d limit %d)", i, c.Jobs, c.Limit), c)
				break
			}
		}
		if len(preps) != nb {
			r.Violation("BatchWork:prepare-count", fmt.Sprintf("%d prepares for %d batches (size %d limit %d)", len(preps), nb, c.Jobs, c.Limit), c)
		}
		for _, vs := range visits {
			for _, v := range vs {
				if v.end == 0 || v.end > retSeq {
					r.Violation("BatchWork:returned-before-all-visits-finished", "no failure: BatchWork returned while a visit was still running", c)
				}
			}
		}
	} else {
		var je *jobErr
		switch {
		case ret == nil:
			// a failure that happened must be reported; a planned failure whose
			// index was never reached (because of cancellation) need not
			if len(failedWhenReturned) > 0 || (c.PrefFail >= 0 && len(preps) > c.PrefFail) {
				r.Violation("BatchWork:returned-nil-although-a-job-or-prepare-failed", fmt.Sprintf("failed visits %v, prepare failing at %d of %d prepares", failedWhenReturned, c.PrefFail, len(preps)), c)
			}
		case errors.Is(ret, prefErr):
			if c.PrefFail < 0 || len(preps) != c.PrefFail+1 {
				r.Violation("BatchWork:prepare-error-mismatch", fmt.Sprintf("returned the prepare error with %d prepares, failing batch %d", len(preps), c.PrefFail), c)
			}
			for i := range visits {
				if int(i)/int(c.Limit) >= c.PrefFail {
					r.Violation("BatchWork:visit-after-prepare-error", fmt.Sprintf("index %d visited although prepare of batch %d failed", i, c.PrefFail), c)
				}
			}
		case errors.As(ret, &je):
			if !inSet(failedWhenReturned, je.i) {
				r.Violation("BatchWork:returned-error-not-from-a-finished-failed-visit", fmt.Sprintf("returned error of index %d; failed visits when it returned: %v", je.i, failedWhenReturned), c)
			}
			// an error stops later batches
			if b := je.i / int(c.Limit); len(preps) != b+1 {
				r.Violation("BatchWork:batches-continued-after-error", fmt.Sprintf("error of index %d (batch %d) returned, but %d batches were prepared", je.i, b, len(preps)), c)
			}
		case cancelled.Load() && errors.Is(ret, context.Canceled):
		default:
			r.Violation("BatchWork:returned-foreign-error", fmt.Sprintf("returned %v", ret), c)
		}
		// no batch is prepared after a visit of an earlier batch failed and finished before that prepare
		for i, vs := range visits {
			if !inSet(c.Fail, int(i)) {
				continue
			}
			b := int(i) / int(c.Limit)
			for _, v := range vs {
				if b+1 < len(preps) && v.end != 0 && v.end < preps[b+1].callSeq {
					r.Violation("BatchWork:batches-continued-after-error", fmt.Sprintf("visit(%d) of batch %d failed, yet batch %d was prepared afterwards", i, b, b+1), c)
				}
			}
		}
	}
	h := fnv.New64a()
	h.Write(order)
	if c.Jobs >= 2 {
		r.Case(fmt.Sprintf("BatchWork:n%d:l%d:f%d:p%d:c%d:%016x", c.Jobs, c.Limit, len(c.Fail), c.PrefFail, c.CancelAt, h.Sum64()))
	} else {
		r.Eval(1)
	}
	r.Count("cases_BatchWork", 1)
	r.Count("batch_prepares", len(preps))
	r.Count("batch_visits", nvis)
	if ret != nil {
		r.Count("batchwork_returned_error", 1)
	}
	if idx < 1 {
		r.Sample(map[string]any{"case": c, "prepares": len(preps), "visits": nvis, "returned": fmt.Sprint(ret)})
	}
}

// ---------------------------------------------------------------------------
// RunJobWorker (the runner BatchWork uses for each batch): submits size jobs
// to a worker of workersize, returns NewJob's or Wait's error.

func runJobWorkerCase(r *vlib.Run, idx int, directed bool) {
	rng := r.Rand(35, idx)
	c := wcase{Mode: "RunJobWorker", CancelAt: -1, PrefFail: -1}
	c.Jobs = 1 + rng.Intn(80)
	c.Sem = int64(1 + rng.Intn(8))
	switch rng.Intn(3) {
	case 0:
		c.Fail = []int{rng.Intn(c.Jobs)}
	case 1:
		for i := 0; i < c.Jobs; i++ {
			if rng.Intn(10) == 0 {
				c.Fail = append(c.Fail, i)
			}
		}
	}
	if rng.Intn(10) == 0 {
		c.CancelAt = rng.Intn(c.Jobs)
	}
	if directed {
		// worker size 1: while job 0 runs, the submitter waits inside NewJob
		// for a free slot; job 0 then fails
		c.Mode = "RunJobWorker-directed"
		c.Jobs, c.Sem, c.Fail, c.CancelAt = 3+rng.Intn(3), 1, []int{0}, -1
	}
	jk := make([]int, c.Jobs)
	jn := make([]int, c.Jobs)
	for i := range jk {
		jk[i] = rng.Intn(7)
		jn[i] = 1 + rng.Intn(4)
	}
	errs := make([]*jobErr, c.Jobs)
	for i := range errs {
		errs[i] = &jobErr{i}
	}
	var mu sync.Mutex
	starts := make([]int, c.Jobs)
	ends := make([]bool, c.Jobs)
	var order []byte
	var failed []int
	var running atomic.Int64
	var cancelled atomic.Bool
	parent, cancelParent := context.WithCancel(context.Background())
	defer cancelParent()
	var ret error
	var failedWhenReturned []int
	var finishedWhenReturned int
	ok := r.WithWatchdog(caseWatchdog, fmt.Sprintf("runjobworker case %d", idx), func() {
		ret = util.RunJobWorker(parent, c.Sem, int64(c.Jobs), func(_ context.Context, i, _ uint64) error {
			running.Add(1)
			defer running.Add(-1)
			mu.Lock()
			if int(i) < c.Jobs {
				starts[i]++
			}
			order = append(order, byte(i), 's')
			mu.Unlock()
			if int(i) == c.CancelAt {
				cancelled.Store(true)
				cancelParent()
			}
			if directed && i == 0 {
				time.Sleep(time.Millisecond)
			} else if int(i) < c.Jobs {
				jitter(jk[i], jn[i])
			}
			var e error
			if inSet(c.Fail, int(i)) {
				e = errs[i]
			}
			mu.Lock()
			if int(i) < c.Jobs {
				ends[i] = true
			}
			if e != nil {
				failed = append(failed, int(i))
			}
			order = append(order, byte(i), 'f')
			mu.Unlock()
			return e
		})
		mu.Lock()
		failedWhenReturned = append([]int{}, failed...)
		for _, e := range ends {
			if e {
				finishedWhenReturned++
			}
		}
		mu.Unlock()
	})
	if !ok {
		return
	}
	if !settle(r, c.Mode, func() bool { return running.Load() == 0 }) {
		return
	}
	time.Sleep(200 * time.Microsecond)
	mu.Lock()
	defer mu.Unlock()
	visited := 0
	for i, n := range starts {
		visited += n
		if n > 1 {
			r.Violation("RunJobWorker:index-visited-more-than-once", fmt.Sprintf("index %d visited %d times", i, n), c)
		}
	}
	anyFail := len(c.Fail) > 0 || cancelled.Load()
	var je *jobErr
	switch {
	case !anyFail:
		if ret != nil {
			r.Violation("RunJobWorker:returned-error-without-failure", fmt.Sprintf("returned %v", ret), c)
		}
		if visited != c.Jobs || finishedWhenReturned != c.Jobs {
			r.Violation("RunJobWorker:returned-before-all-jobs-finished", fmt.Sprintf("no failure: %d of %d jobs started, %d finished when it returned", visited, c.Jobs, finishedWhenReturned), c)
		}
	case ret == nil:
		if len(failedWhenReturned) > 0 {
			r.Violation("RunJobWorker:returned-nil-although-a-job-failed", fmt.Sprintf("failed jobs %v", failedWhenReturned), c)
		}
	case errors.As(ret, &je):
		if !inSet(failedWhenReturned, je.i) {
			r.Violation("RunJobWorker:returned-error-not-from-a-finished-failed-job", fmt.Sprintf("returned error of job %d; failed jobs when it returned: %v", je.i, failedWhenReturned), c)
		}
	case cancelled.Load() && errors.Is(ret, context.Canceled):
	default:
		r.Violation("RunJobWorker:returned-foreign-error", fmt.Sprintf("job(s) %v failed, nothing else was cancelled, but RunJobWorker(workersize=%d, size=%d) returned %q instead of a job's error", failedWhenReturned, c.Sem, c.Jobs, ret), c)
	}
	h := fnv.New64a()
	h.Write(order)
	if c.Jobs >= 2 {
		r.Case(fmt.Sprintf("%s:n%d:w%d:f%d:c%d:%016x", c.Mode, c.Jobs, c.Sem, len(c.Fail), c.CancelAt, h.Sum64()))
	} else {
		r.Eval(1)
	}
	r.Count("cases_"+c.Mode, 1)
	if ret != nil {
		r.Count("runjobworker_returned_error", 1)
	}
	if directed && idx == 0 {
		r.Sample(map[string]any{"case": c, "returned": fmt.Sprint(ret), "jobs_started": visited})
	}
}

func TestC33(t *testing.T) {
	r := vlib.Start(t, "C33", vlib.LevelExploration)
	defer r.Finish()
	r.SetRule("case = one worker run from the seeded PRNG: BaseJobWorker or ErrCallbackJobWorker with 0..300 jobs, semaphore 1..64, 1-3 concurrent submitters, Wait started before or after submitting, failing job sets (none / exactly one / random), optional cancellation of the parent context from inside a job, jobs with scheduling jitter; or BatchWork with size 1..300, limit 1..50, failing visits, failing prepare, cancellation; or RunJobWorker (worker size 1..8, 1..80 jobs) incl. a directed schedule where the submitter waits inside NewJob for a free slot while the running job fails; or a last-failure race case: 40 trials with 1..3 jobs on a worker of size 1..3 (BaseJobWorker+Wait, RunJobWorker, BatchWork with one batch or limit 1) in which the only failing job is the last to finish and returns its error while the caller enters Wait, both sides delayed by random busy loops of 0..30/100/300/1000/4000 iterations (a sub-microsecond sweep of that schedule), the job's error must be returned; or a cancellation case for each of the 7 exported entry points (BaseJobWorker+Wait, BaseJobWorker+LazyWait, ErrCallbackJobWorker+Wait, RunJobWorker, RunErrCallbackJobWorker, RunJobWorkerByJobs, BatchWork with the running jobs in a first/middle/last/only batch): 1..6 (thorough 1..40) jobs block until THE CONTEXT THE WORKER PASSED TO THEM is done (watching it by select on Done, polling Err, a child context or AfterFunc; returning nil, ctx.Err, the cause or an own later error afterwards), a barrier tells the designated job when all of them are running, then it returns the first error of the run (or cancels the caller's context; for the error-callback workers: returns an error to the callback and cancels the caller's context); worker size = exactly those jobs (submitter waits inside NewJob) or larger, 0..24 (thorough 0..300) ordinary jobs around them; the oracle waits for each running job to see its context done after the runner returned and reports a job whose own context still has Err()==nil 3s after the runner returned. distinct = parameters + hash of the observed order of job start/finish (and trigger / context-seen-done / runner-returned) events; non-trivial = at least 2 jobs")
	r.Assume("'cancels the remaining work' is judged on the context handed to each job: a running job is cancelled when that context is done; a job whose context is done but which the scheduler has not run yet is waited for (watchdog => inconclusive), never reported")
	r.Assume("when a job failed or the context was cancelled Wait may return before the remaining jobs finished (the statement only says the first error is returned); the oracle then only requires the returned error to be one a job had already returned")
	r.Assume("'an accepted job never runs' is decided without a time bound: every goroutine of a case carries a pprof label which the worker's job goroutines inherit; when the goroutine profile shows no labelled goroutine inside the worker's code after Wait returned, no job can start any more")
	r.Assume("NewJob is not called concurrently with Done(): submitters finish, then Done() is called (as runWorker does)")

	n := r.N(2400, 45000)
	vlib.Parallel(n, 16, func(i int) { workerCase(r, i) })
	nb := r.N(800, 15000)
	vlib.Parallel(nb, 16, func(i int) { batchCase(r, i) })
	nd := r.N(40, 400)
	vlib.Parallel(nd, 4, func(i int) { runJobWorkerCase(r, i, true) })
	nc := r.N(560, 7000)
	vlib.Parallel(nc, 16, func(i int) { cancelCase(r, i) })
	nl := r.N(300, 9000)
	vlib.Parallel(nl, 16, func(i int) { lastFailureRaceCase(r, i) })
	nr := r.N(800, 15000)
	vlib.Parallel(nr, 16, func(i int) { runJobWorkerCase(r, 100000+i, false) })
}
