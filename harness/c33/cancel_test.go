package c33

// C33, clause "the first job error cancels the remaining work", judged on jobs
// that are RUNNING when a sibling fails and that behave as a well-behaved job
// does: they watch the context the worker handed to them.
//
// For every exported way of running jobs (BaseJobWorker with Wait or LazyWait,
// ErrCallbackJobWorker, RunJobWorker, RunErrCallbackJobWorker,
// RunJobWorkerByJobs, BatchWork) a generated job set contains
//   - "running" jobs which block until THE CONTEXT PASSED TO THEM is done
//     (several ways of watching it), and which have a harness back door so the
//     case can end when the context never becomes done,
//   - one designated job which waits on a barrier until every running job has
//     started and then returns the first error of the run (or cancels the
//     caller's context),
//   - ordinary short jobs.
// The oracle: after the runner handed the first error (or the caller's
// cancellation) back to its caller, every job that was running at that moment
// must find its own context done.

import (
	"context"
	"errors"
	"fmt"
	"hash/fnv"
	"runtime"
	"sort"
	"sync"
	"sync/atomic"
	"time"

	"github.com/spikeekips/mitum/util"
	"verifharness/vlib"
)

const (
	trigJobError     = "job-error"
	trigCallerCancel = "caller-cancel"
	// ErrCallback workers ignore job errors: the designated job returns an
	// error (which goes to the error callback) and cancels the caller's context
	trigErrThenCallerCancel = "job-error-to-callback-then-caller-cancel"
)

var cancelEntries = []string{
	"BaseJobWorker.Wait",
	"BaseJobWorker.LazyWait",
	"ErrCallbackJobWorker.Wait",
	"RunJobWorker",
	"RunErrCallbackJobWorker",
	"RunJobWorkerByJobs",
	"BatchWork",
}

// how a running job watches its context
var watchKinds = []string{"select-on-Done", "poll-Err", "child-context-Done", "AfterFunc"}

// what a running job returns once it saw its context done
var returnKinds = []string{"nil", "ctx.Err", "context.Cause", "own-error"}

type ccase struct {
	Entry       string   `json:"entry_point"`
	Trigger     string   `json:"trigger"`
	Jobs        int      `json:"jobs"`
	Sem         int64    `json:"worker_size"`
	Limit       int64    `json:"batch_limit,omitempty"`
	Batch       int      `json:"batch_of_the_running_jobs,omitempty"`
	Running     []int    `json:"jobs_blocking_on_their_context"`
	Watch       []string `json:"how_they_watch_it"`
	Return      []string `json:"what_they_return_afterwards"`
	Designated  int      `json:"job_returning_the_first_error_or_cancelling"`
	Submitters  int      `json:"submitters,omitempty"`
	WaitEarly   bool     `json:"wait_started_before_submitting,omitempty"`
	StopOnError bool     `json:"submitter_stops_on_newjob_error,omitempty"`
}

// after the first violation of one kind the remaining cases of that kind are
// not run: each would only wait out the grace period to report the same thing
var cancelViolated sync.Map

const (
	// a context that is still not done this long after the runner returned
	// the first error is "not cancelled"; on an implementation that cancels
	// before it returns the wait never happens, whatever the machine load
	cancelGrace    = 3 * time.Second
	cancelWatchdog = 90 * time.Second
)

func watchCtx(ctx context.Context, kind int, release <-chan struct{}) bool {
	switch kind {
	case 1:
		for n := 0; ; n++ {
			if ctx.Err() != nil {
				return true
			}
			select {
			case <-release:
				return false
			default:
			}
			if n%2 == 0 {
				runtime.Gosched()
			} else {
				time.Sleep(50 * time.Microsecond)
			}
		}
	case 2:
		cctx, cancel := context.WithCancel(ctx)
		defer cancel()
		select {
		case <-cctx.Done():
			return true
		case <-release:
			return false
		}
	case 3:
		ch := make(chan struct{})
		stop := context.AfterFunc(ctx, func() { close(ch) })
		defer stop()
		select {
		case <-ch:
			return true
		case <-release:
			return false
		}
	default:
		select {
		case <-ctx.Done():
			return true
		case <-release:
			return false
		}
	}
}

func genCancelCase(r *vlib.Run, idx int) ccase {
	rng := r.Rand(36, idx)
	c := ccase{Entry: cancelEntries[idx%len(cancelEntries)]}
	errCallback := c.Entry == "ErrCallbackJobWorker.Wait" || c.Entry == "RunErrCallbackJobWorker"
	switch {
	case errCallback && rng.Intn(2) == 0:
		c.Trigger = trigErrThenCallerCancel
	case errCallback:
		c.Trigger = trigCallerCancel
	case rng.Intn(3) == 0:
		c.Trigger = trigCallerCancel
	default:
		c.Trigger = trigJobError
	}
	maxRunning, maxExtra := r.N(6, 40), r.N(24, 300)
	nb := 1 + rng.Intn(maxRunning)
	if rng.Intn(4) == 0 {
		nb = 1 + rng.Intn(2)
	}
	special := nb + 1
	// the worker must be able to run all running jobs and the designated one
	// at the same time; half of the cases leave no slot beyond that, so the
	// submitter sits inside NewJob waiting for a slot when the error comes
	c.Sem = int64(special)
	if rng.Intn(2) == 0 {
		c.Sem += int64(1 + rng.Intn(6))
	}
	extra := rng.Intn(maxExtra + 1)
	if rng.Intn(4) == 0 {
		extra = rng.Intn(3)
	}
	lo, hi := 0, 0 // the special jobs are chosen among indices [lo, hi)
	switch c.Entry {
	case "BatchWork":
		c.Limit = c.Sem
		nbefore := rng.Intn(4)
		if rng.Intn(3) == 0 {
			nbefore = 0
		}
		inBatch := special + rng.Intn(int(c.Limit)-special+1)
		c.Batch = nbefore
		c.Jobs = nbefore*int(c.Limit) + inBatch
		if inBatch == int(c.Limit) && rng.Intn(2) == 0 { // batches after the failing one
			c.Jobs += 1 + rng.Intn(2*int(c.Limit))
		}
		if nbefore == 0 && inBatch < int(c.Limit) && rng.Intn(2) == 0 {
			c.Limit += int64(rng.Intn(5)) // size < limit
		}
		lo, hi = nbefore*int(c.Sem), nbefore*int(c.Sem)+inBatch
		c.Sem = c.Limit
	case "RunJobWorkerByJobs":
		c.Jobs = special + extra
		if c.Jobs > 120 {
			c.Jobs = 120
		}
		c.Sem = int64(c.Jobs)
		lo, hi = 0, c.Jobs
	default:
		c.Jobs = special + extra
		lo, hi = 0, c.Jobs
	}
	perm := rng.Perm(hi - lo)[:special]
	c.Designated = lo + perm[rng.Intn(special)]
	for _, p := range perm {
		if lo+p != c.Designated {
			c.Running = append(c.Running, lo+p)
		}
	}
	sort.Ints(c.Running)
	for range c.Running {
		c.Watch = append(c.Watch, watchKinds[rng.Intn(len(watchKinds))])
		c.Return = append(c.Return, returnKinds[rng.Intn(len(returnKinds))])
	}
	switch c.Entry {
	case "BaseJobWorker.Wait", "BaseJobWorker.LazyWait", "ErrCallbackJobWorker.Wait":
		c.Submitters = 1 + rng.Intn(3)
		c.WaitEarly = rng.Intn(2) == 0
		c.StopOnError = rng.Intn(2) == 0
	}
	return c
}

func indexOf(s []string, v string) int {
	for i := range s {
		if s[i] == v {
			return i
		}
	}
	return 0
}

func cancelCase(r *vlib.Run, idx int) {
	c := genCancelCase(r, idx)
	notCancelledSig := "running-job-context-not-cancelled-after-first-error:" + c.Entry
	if c.Trigger != trigJobError {
		notCancelledSig = "running-job-context-not-cancelled-after-caller-cancel:" + c.Entry
	}
	if _, skip := cancelViolated.Load(notCancelledSig); skip {
		r.Count("cancel_cases_not_run_after_a_violation_of_the_same_kind", 1)
		return
	}
	rng := r.Rand(37, idx)
	jk := make([]int, c.Jobs)
	jn := make([]int, c.Jobs)
	for i := range jk {
		jk[i] = rng.Intn(7)
		jn[i] = 1 + rng.Intn(4)
	}
	runningPos := map[int]int{}
	for k, i := range c.Running {
		runningPos[i] = k
	}
	errs := make([]*jobErr, c.Jobs)
	for i := range errs {
		errs[i] = &jobErr{i}
	}

	var mu sync.Mutex
	starts := make([]int, c.Jobs)
	ctxs := map[int]context.Context{}
	sawDone := map[int]bool{}
	causes := map[int]error{}
	backdoor := map[int]bool{}
	var failedJobs []int      // jobs that returned an error, in the order they returned
	var otherReturned []error // errors jobs returned that are not one of errs[] (ctx.Err(), the cause)
	var order []byte
	var outOfRange int
	nRunningStarted := 0
	barrier := make(chan struct{})
	release := make(chan struct{})
	var releaseOnce sync.Once
	doRelease := func() { releaseOnce.Do(func() { close(release) }) }
	var running atomic.Int64
	triggered := false

	parent, cancelParent := context.WithCancel(context.Background())
	defer cancelParent()

	var errfMu sync.Mutex
	errfCalls := map[int]int{}
	var errfOther []error // what the callback got that is not one of errs[]
	errf := func(e error) {
		errfMu.Lock()
		defer errfMu.Unlock()
		var je *jobErr
		if errors.As(e, &je) {
			errfCalls[je.i]++
		} else {
			errfOther = append(errfOther, e)
		}
	}

	// the one job body every entry point runs; ctx is whatever the worker
	// passed to the job
	body := func(ctx context.Context, i int) (e error) {
		running.Add(1)
		defer running.Add(-1)
		if i < 0 || i >= c.Jobs {
			mu.Lock()
			outOfRange++
			mu.Unlock()
			return nil
		}
		k, isRunning := runningPos[i]
		mu.Lock()
		starts[i]++
		first := starts[i] == 1
		order = append(order, byte(i), byte(i>>8), 's')
		if isRunning && first {
			ctxs[i] = ctx
			nRunningStarted++
			if nRunningStarted == len(c.Running) {
				close(barrier)
			}
		}
		mu.Unlock()
		defer func() {
			mu.Lock()
			if e != nil {
				failedJobs = append(failedJobs, i)
				var je *jobErr
				if !errors.As(e, &je) {
					otherReturned = append(otherReturned, e)
				}
			}
			order = append(order, byte(i), byte(i>>8), 'f')
			mu.Unlock()
		}()
		switch {
		case i == c.Designated:
			select {
			case <-barrier: // every running job is inside its callback now
			case <-release:
				return nil
			}
			mu.Lock()
			triggered = true
			order = append(order, 'T')
			mu.Unlock()
			if c.Trigger == trigJobError {
				return errs[i]
			}
			cancelParent()
			if c.Trigger == trigErrThenCallerCancel {
				return errs[i]
			}
			return nil
		case isRunning && first:
			if !watchCtx(ctx, indexOf(watchKinds, c.Watch[k]), release) {
				mu.Lock()
				backdoor[i] = true
				mu.Unlock()
				return nil
			}
			cause := context.Cause(ctx)
			mu.Lock()
			sawDone[i] = true
			causes[i] = cause
			order = append(order, byte(i), byte(i>>8), 'd')
			mu.Unlock()
			switch c.Return[k] {
			case "ctx.Err":
				return ctx.Err()
			case "context.Cause":
				return cause
			case "own-error":
				return errs[i]
			}
			return nil
		default:
			jitter(jk[i], jn[i])
			return nil
		}
	}

	// what is true at the moment the runner hands its result to the caller
	var ret error
	var ctxDoneAtReturn, sawDoneAtReturn int
	var failedAtReturn []int
	var triggeredAtReturn bool
	atReturn := func(e error) {
		mu.Lock()
		defer mu.Unlock()
		ret = e
		order = append(order, 'R')
		triggeredAtReturn = triggered
		failedAtReturn = append([]int{}, failedJobs...)
		for _, i := range c.Running {
			if x, ok := ctxs[i]; ok && x.Err() != nil {
				ctxDoneAtReturn++
			}
			if sawDone[i] {
				sawDoneAtReturn++
			}
		}
	}

	var nprep int
	var prepLast []uint64
	var run func()
	switch c.Entry {
	case "BaseJobWorker.Wait", "BaseJobWorker.LazyWait", "ErrCallbackJobWorker.Wait":
		var wk *util.BaseJobWorker
		var err error
		if c.Entry == "ErrCallbackJobWorker.Wait" {
			wk, err = util.NewErrCallbackJobWorker(parent, c.Sem, errf)
		} else {
			wk, err = util.NewBaseJobWorker(parent, c.Sem)
		}
		if err != nil {
			r.Violation("constructor-error:"+c.Entry, err.Error(), c)
			return
		}
		defer wk.Close()
		wait := func() {
			if c.Entry == "BaseJobWorker.LazyWait" {
				atReturn(wk.LazyWait())
			} else {
				atReturn(wk.Wait())
			}
		}
		run = func() {
			waited := make(chan struct{})
			if c.WaitEarly {
				go func() { defer close(waited); wait() }()
			}
			var swg sync.WaitGroup
			for s := 0; s < c.Submitters; s++ {
				swg.Add(1)
				go func(s int) {
					defer swg.Done()
					for i := s; i < c.Jobs; i += c.Submitters {
						i := i
						if e := wk.NewJob(func(ctx context.Context, _ uint64) error { return body(ctx, i) }); e != nil && c.StopOnError {
							return
						}
					}
				}(s)
			}
			swg.Wait()
			wk.Done()
			if !c.WaitEarly {
				close(waited)
				wait()
			}
			<-waited
		}
	case "RunJobWorker":
		run = func() {
			atReturn(util.RunJobWorker(parent, c.Sem, int64(c.Jobs), func(ctx context.Context, i, _ uint64) error {
				return body(ctx, int(i))
			}))
		}
	case "RunErrCallbackJobWorker":
		run = func() {
			atReturn(util.RunErrCallbackJobWorker(parent, c.Sem, int64(c.Jobs), errf, func(ctx context.Context, i, _ uint64) error {
				return body(ctx, int(i))
			}))
		}
	case "RunJobWorkerByJobs":
		jobs := make([]util.ContextWorkerCallback, c.Jobs)
		for i := range jobs {
			i := i
			jobs[i] = func(ctx context.Context, _ uint64) error { return body(ctx, i) }
		}
		run = func() { atReturn(util.RunJobWorkerByJobs(parent, jobs...)) }
	case "BatchWork":
		run = func() {
			atReturn(util.BatchWork(parent, int64(c.Jobs), c.Limit,
				func(_ context.Context, last uint64) error {
					mu.Lock()
					nprep++
					prepLast = append(prepLast, last)
					order = append(order, 'P')
					mu.Unlock()
					return nil
				},
				func(ctx context.Context, i, _ uint64) error { return body(ctx, int(i)) }))
		}
	}

	if !r.WithWatchdog(cancelWatchdog, fmt.Sprintf("cancel case %d (%s, %s): runner did not return", idx, c.Entry, c.Trigger), run) {
		// neither returned nor cancelled: no verdict
		cancelParent()
		doRelease()
		return
	}

	// the runner has returned. Every job that was running when the designated
	// job fired must find its context done.
	begin := time.Now()
	var stuck []int
	verdict := ""
	for {
		mu.Lock()
		pending := 0
		stuck = stuck[:0]
		for _, i := range c.Running {
			if sawDone[i] || backdoor[i] {
				continue
			}
			pending++
			if x, ok := ctxs[i]; ok && x.Err() == nil {
				stuck = append(stuck, i)
			}
		}
		trig := triggeredAtReturn
		mu.Unlock()
		if pending == 0 {
			break
		}
		if !trig {
			// the runner returned although the designated job never fired
			verdict = "untriggered"
			break
		}
		if len(stuck) > 0 && time.Since(begin) > cancelGrace {
			verdict = "not-cancelled"
			break
		}
		if time.Since(begin) > cancelWatchdog {
			verdict = "watchdog"
			break
		}
		time.Sleep(300 * time.Microsecond)
	}
	switch verdict {
	case "not-cancelled":
		cancelViolated.Store(notCancelledSig, true)
		what := "returned the first job error"
		if c.Trigger != trigJobError {
			what = "returned after the caller's context was cancelled"
		}
		r.Violation(notCancelledSig, fmt.Sprintf("%s %s (%v) to its caller, but %d of the %d jobs that were running at that moment (indices %v) still have a context that is not done %s later: ctx.Err()==nil on the very context the worker passed to the job, so a job that waits for <-ctx.Done() runs on for ever (the harness released them through its back door)", c.Entry, what, ret, len(stuck), len(c.Running), stuck, cancelGrace), c)
	case "watchdog":
		r.Inconclusive(fmt.Sprintf("cancel case %d (%s): running jobs whose context is done did not get scheduled within %s", idx, c.Entry, cancelWatchdog))
	}
	cancelParent()
	doRelease()
	// every blocked job has a way out now (its context or the back door)
	for settleBegin := time.Now(); running.Load() != 0; time.Sleep(300 * time.Microsecond) {
		if time.Since(settleBegin) > cancelWatchdog {
			r.Inconclusive(fmt.Sprintf("cancel case %d (%s): released jobs did not finish within %s", idx, c.Entry, cancelWatchdog))
			return
		}
	}
	if verdict == "watchdog" {
		return
	}

	mu.Lock()
	defer mu.Unlock()
	started := 0
	for i, n := range starts {
		started += n
		if n > 1 {
			r.Violation("job-run-more-than-once:"+c.Entry, fmt.Sprintf("job %d started %d times", i, n), c)
		}
	}
	if outOfRange > 0 {
		r.Violation("job-index-out-of-range:"+c.Entry, fmt.Sprintf("%d callbacks with an index outside 0..%d", outOfRange, c.Jobs-1), c)
	}
	if verdict == "untriggered" {
		// without a failure or cancellation the runner must wait for all jobs
		r.Violation("returned-before-all-jobs-finished:"+c.Entry, fmt.Sprintf("no job had failed and nothing was cancelled, yet %s returned (%v) while %d jobs were running", c.Entry, ret, len(c.Running)), c)
	}
	isFailed := func(e error) bool {
		var je *jobErr
		return errors.As(e, &je) && inSet(failedAtReturn, je.i)
	}
	if triggeredAtReturn {
		switch c.Trigger {
		case trigJobError:
			// the running jobs return only after they saw the cancellation the
			// designated job's error caused, so that error is the first one
			if !errors.Is(ret, errs[c.Designated]) {
				r.Violation("first-error-not-returned:"+c.Entry, fmt.Sprintf("job %d returned the first error of the run (all other failing jobs returned theirs only after they saw their context done); %s returned %v", c.Designated, c.Entry, ret), c)
			}
		default:
			if ret != nil && !errors.Is(ret, context.Canceled) && !isFailed(ret) {
				r.Violation("returned-foreign-error:"+c.Entry, fmt.Sprintf("caller's context cancelled; %s returned %v, which is neither the cancellation nor an error a job had returned", c.Entry, ret), c)
			}
		}
	}
	if c.Entry == "BatchWork" {
		for b, last := range prepLast {
			e := (b + 1) * int(c.Limit)
			if e > c.Jobs {
				e = c.Jobs
			}
			if last != uint64(e-1) {
				r.Violation("BatchWork:wrong-last-in-prepare", fmt.Sprintf("prepare #%d got last=%d, expected %d (size %d limit %d)", b, last, e-1, c.Jobs, c.Limit), c)
			}
		}
		if triggeredAtReturn && c.Trigger == trigJobError {
			if nprep != c.Batch+1 {
				r.Violation("BatchWork:batches-continued-after-error", fmt.Sprintf("error of index %d (batch %d) returned, but %d batches were prepared", c.Designated, c.Batch, nprep), c)
			}
			for i, n := range starts {
				if n > 0 && i/int(c.Limit) > c.Batch {
					r.Violation("BatchWork:batches-continued-after-error", fmt.Sprintf("index %d of batch %d visited although index %d of batch %d failed", i, i/int(c.Limit), c.Designated, c.Batch), c)
					break
				}
			}
		}
	}
	errfMu.Lock()
	for i, n := range errfCalls {
		if n > 1 || !inSet(failedJobs, i) {
			r.Violation("error-callback-count:"+c.Entry, fmt.Sprintf("error callback called %d times with the error of job %d (jobs that returned an error: %v)", n, i, failedJobs), c)
		}
	}
	for _, e := range errfOther {
		found := false
		for _, x := range otherReturned {
			if errors.Is(e, x) || errors.Is(x, e) {
				found = true
			}
		}
		if !found {
			r.Violation("error-callback-foreign-error:"+c.Entry, fmt.Sprintf("error callback got %v, which no job returned", e), c)
		}
	}
	errfMu.Unlock()

	nSaw, nCauseFirst, nCauseCanceled, nCauseOther := 0, 0, 0, 0
	for _, i := range c.Running {
		if !sawDone[i] {
			continue
		}
		nSaw++
		switch {
		case errors.Is(causes[i], errs[c.Designated]):
			nCauseFirst++
		case errors.Is(causes[i], context.Canceled):
			nCauseCanceled++
		default:
			nCauseOther++
		}
	}
	h := fnv.New64a()
	h.Write(order)
	r.Case(fmt.Sprintf("cancel:%s:%s:j%d:w%d:l%d:run%d:d%d:%016x", c.Entry, c.Trigger, c.Jobs, c.Sem, c.Limit, len(c.Running), c.Designated, h.Sum64()))
	r.Count("cancel_cases_"+c.Entry, 1)
	r.Count("cancel_trigger_"+c.Trigger, 1)
	r.Count("running_jobs_blocked_on_their_context_when_trigger_fired", len(c.Running))
	r.Count("running_jobs_saw_their_context_done", nSaw)
	r.Count("running_jobs_context_already_done_when_runner_returned", ctxDoneAtReturn)
	r.Count("running_jobs_released_through_back_door", len(backdoor))
	switch {
	case sawDoneAtReturn == 0:
		r.Count("runner_returned_before_any_running_job_noticed", 1)
	case sawDoneAtReturn == len(c.Running):
		r.Count("runner_returned_after_all_running_jobs_noticed", 1)
	default:
		r.Count("runner_returned_while_some_running_jobs_had_noticed", 1)
	}
	if c.Trigger == trigJobError {
		r.Count("runner_returned_first_error_with_running_jobs", 1)
		r.Count("observed_cause_in_running_job_is_first_error", nCauseFirst)
		r.Count("observed_cause_in_running_job_is_other", nCauseCanceled+nCauseOther)
	} else {
		r.Count("observed_cause_in_running_job_after_caller_cancel_is_context_canceled", nCauseCanceled)
		r.Count("observed_cause_in_running_job_after_caller_cancel_is_other", nCauseFirst+nCauseOther)
	}
	r.Count("cancel_case_job_callbacks_started", started)
	r.Count("cancel_case_jobs_never_started_after_trigger", c.Jobs-started)
	for _, w := range c.Watch {
		r.Count("running_job_watch_"+w, 1)
	}
	if idx == 3 || idx == 6 {
		r.Sample(map[string]any{"case": c, "returned": fmt.Sprint(ret), "running_jobs_saw_ctx_done": nSaw, "ctx_done_when_runner_returned": ctxDoneAtReturn, "jobs_started": started})
	}
}

// ---------------------------------------------------------------------------
// The only failing job is the last one to finish, and it finishes while the
// caller is entering Wait: a fine-grained (sub-microsecond busy-loop offsets
// on both sides) sweep of the schedule "job returns its error" against "Wait
// looks whether all jobs are done and which error to return". Whatever the
// order, Wait cannot return before the job finished (nothing else failed,
// nothing was cancelled), so it must return that job's error.

var spinSink atomic.Int64

func spin(n int) {
	x := 0
	for i := 0; i < n; i++ {
		x += i
	}
	spinSink.Store(int64(x))
}

func lastFailureRaceCase(r *vlib.Run, idx int) {
	rng := r.Rand(38, idx)
	modes := []string{"BaseJobWorker", "RunJobWorker", "BatchWork"}
	mode := modes[idx%len(modes)]
	trials := 40
	span := []int{30, 100, 300, 1000, 4000}[rng.Intn(5)]
	nilWithFailure, nilBeforeFinished, foreign, returnedErr := 0, 0, 0, 0
	jobsTotal := 0
	var witness map[string]any
	params := fnv.New64a()
	if !r.WithWatchdog(cancelWatchdog, fmt.Sprintf("last-failure race case %d (%s)", idx, mode), func() {
		for t := 0; t < trials; t++ {
			sem := 1 + rng.Intn(3)
			jobs := 1 + rng.Intn(sem)
			failing := rng.Intn(jobs)
			limit := int64(sem)
			if mode == "BatchWork" && rng.Intn(2) == 0 {
				// limit 1: the failing job alone in the last batch (else: one batch)
				limit, failing = 1, jobs-1
			}
			sj := make([]int, jobs)
			for j := range sj {
				sj[j] = rng.Intn(span/2 + 1)
			}
			sj[failing] = span/2 + rng.Intn(span/2+1) // the failing job is (most likely) the last to finish
			sm := rng.Intn(span + 1)
			jerr := &jobErr{failing}
			var failed atomic.Bool
			var finished atomic.Int64
			var ret error
			fmt.Fprint(params, sem, jobs, failing, limit, sj, sm)
			desc := map[string]any{"mode": mode, "worker_size": sem, "batch_limit": limit, "jobs": jobs, "failing_job": failing, "busy_loop_iterations_in_jobs": sj, "busy_loop_iterations_before_Wait": sm}
			body := func(j int) error {
				defer finished.Add(1)
				spin(sj[j])
				if j == failing {
					failed.Store(true)
					return jerr
				}
				return nil
			}
			func() {
				switch mode {
				case "BaseJobWorker":
					wk, err := util.NewBaseJobWorker(context.Background(), int64(sem))
					if err != nil {
						ret = err
						return
					}
					defer wk.Close()
					var gate atomic.Bool
					for j := 0; j < jobs; j++ {
						j := j
						if e := wk.NewJob(func(context.Context, uint64) error {
							for n := 0; !gate.Load(); n++ {
								if n%4096 == 4095 {
									runtime.Gosched()
								}
							}
							return body(j)
						}); e != nil {
							ret = e
							gate.Store(true)
							return
						}
					}
					wk.Done()
					gate.Store(true)
					spin(sm)
					ret = wk.Wait()
				case "RunJobWorker":
					ret = util.RunJobWorker(context.Background(), int64(sem), int64(jobs), func(_ context.Context, i, _ uint64) error { return body(int(i)) })
				default:
					ret = util.BatchWork(context.Background(), int64(jobs), limit,
						func(context.Context, uint64) error { return nil },
						func(_ context.Context, i, _ uint64) error { return body(int(i)) })
				}
			}()
			jobsTotal += jobs
			var je *jobErr
			switch {
			case ret == nil && failed.Load():
				nilWithFailure++
				witness = desc
			case ret == nil:
				nilBeforeFinished++
				witness = desc
			case errors.As(ret, &je) && je == jerr:
				returnedErr++
			default:
				foreign++
				witness = desc
				witness["returned"] = fmt.Sprint(ret)
			}
		}
	}) {
		return
	}
	if nilWithFailure > 0 {
		r.Violation(mode+":wait-returned-nil-although-a-job-failed", fmt.Sprintf("%s: the only failing job returned its error while the caller was entering Wait; nothing was cancelled; nil was returned (%d of %d trials)", mode, nilWithFailure, trials), witness)
	}
	if nilBeforeFinished > 0 {
		r.Violation(mode+":wait-returned-nil-before-all-jobs-finished", fmt.Sprintf("%s returned nil before the (failing) last job had finished (%d of %d trials)", mode, nilBeforeFinished, trials), witness)
	}
	if foreign > 0 {
		r.Violation(mode+":single-failure-not-returned", fmt.Sprintf("%s: exactly one job failed, nothing was cancelled, but something else was returned (%d of %d trials)", mode, foreign, trials), witness)
	}
	r.Case(fmt.Sprintf("last-failure-race:%s:span%d:%016x", mode, span, params.Sum64()))
	r.Count("last_failure_race_trials_"+mode, trials)
	r.Count("last_failure_race_jobs", jobsTotal)
	r.Count("last_failure_race_error_returned", returnedErr)
}
