package c34

// C34: (a) once a timer has been stopped its callback is not started again,
// (b) removing a timer never removes a different timer later registered under
// the same id, (c) a callback never runs before its interval has elapsed.
//
// The real SimpleTimers daemon runs with 1ms resolution; one controller
// goroutine per SimpleTimers issues New/StopTimers/StopOthers/StopAllTimers
// steps with id reuse, racing the timer loop. Every timer *instance* gets its
// own interval function and callback, which log what they see.
//
// "after" in clause (a) is decided by happens-before, not by wall-clock order
// of log lines: the controller sets inst.stopReturned after the stop call
// returned; the instance's own code (interval function, callback start/end),
// which the timer executes in a fixed order, latches that flag into
// inst.sawStop. A callback start of an instance whose sawStop was already
// latched at an earlier point of its own execution is ordered after the return
// of the stop call. A start that merely finds stopReturned set for the first
// time may have been concurrent with the stop call; it is counted, not judged.

import (
	"context"
	"errors"
	"fmt"
	"hash/fnv"
	"runtime"
	"sync"
	"sync/atomic"
	"testing"
	"time"

	"github.com/spikeekips/mitum/util"
	"verifharness/vlib"
)

type rig struct {
	r    *vlib.Run
	name string
	ts   *util.SimpleTimers

	mu     sync.Mutex
	events []byte
	ninst  int

	// concurrent phase: logical clock, log of New and Stop calls
	clock   atomic.Int64
	news    []*inst
	stops   []stopRec
	rearmMu sync.RWMutex
	noRearm bool
}

type stopRec struct {
	all       bool
	ids, excl []util.TimerID
	call, ret int64
}

func (s stopRec) covers(id util.TimerID) bool {
	switch {
	case s.all:
		return true
	case s.excl != nil:
		return !has(s.excl, id)
	default:
		return has(s.ids, id)
	}
}

func (g *rig) ev(kind byte, n int) {
	g.mu.Lock()
	g.events = append(g.events, kind, byte(n), byte(n>>8))
	g.mu.Unlock()
}

type inst struct {
	g    *rig
	n    int
	id   util.TimerID
	t0   time.Time
	base time.Duration
	step time.Duration

	keepUntil int // callback number that returns keep=false (-1: never)
	errAt     int // callback number that returns an error (-1: never)
	zeroAt    int // interval(n) returns 0 for this n>=1 (-1: never)
	// zeroPrepFrom: from call number n>=zeroPrepFrom on, the interval function
	// answers 0 when it is asked for the same n a second time, i.e. by the
	// loop's preparation (NewTimer / run() asked first and got >= 1): an
	// interval function which is not a pure function of its argument (-1: never)
	zeroPrepFrom int
	slow         int
	immortal     bool
	fate         string // what happened to the predecessor under the same id

	stopReturned atomic.Bool
	sawStop      atomic.Bool
	sawRemoved   atomic.Bool // the instance's own code has seen that its whenRemoved hook ran
	nstarts      atomic.Int64

	mu         sync.Mutex
	sawWhere   string
	remWhere   string
	starts     []time.Time
	ivlCalls   map[uint64]int
	inCallback bool

	// directed schedules
	ivlHook func(n uint64, nth int)
	// ivlOverride: the interval function consults outside state (self-ending
	// schedules); ok=false: the plain value
	ivlOverride func(n uint64, nth int) (time.Duration, bool)
	cbHook      func(k int) (bool, error, bool)

	// whenRemoved hook given to NewSimpleTimer
	removedCalls atomic.Int64
	hookDelay    int
	removedFn    func()

	// concurrent phase
	rearmAt         int // callback number that registers a new instance under the same id (-1: never)
	callClk, retClk int64
	added           bool
}

// whenRemoved is what SimpleTimers calls when it removes this timer.
func (x *inst) whenRemoved() {
	x.removedCalls.Add(1)
	x.g.r.Count("whenRemoved_calls", 1)
	if x.removedFn != nil {
		x.removedFn()
	}
	switch x.hookDelay {
	case 1:
		runtime.Gosched()
	case 2:
		time.Sleep(100 * time.Microsecond)
	}
}

func (x *inst) ivl(n uint64) time.Duration {
	if x.zeroAt >= 1 && int(n) == x.zeroAt {
		return 0
	}
	return x.base + time.Duration(n%3)*x.step
}

func (x *inst) latch(where string) {
	if x.stopReturned.Load() && !x.sawStop.Load() {
		x.mu.Lock()
		if x.sawWhere == "" {
			x.sawWhere = where
		}
		x.mu.Unlock()
		x.sawStop.Store(true)
	}
	// whenRemoved runs after the timer's context was cancelled, inside the
	// removal. Code of the instance that sees the hook has run is ordered after
	// that cancellation; run() checks the context before every callback.
	if x.removedCalls.Load() > 0 && !x.sawRemoved.Load() {
		x.mu.Lock()
		if x.remWhere == "" {
			x.remWhere = where
		}
		x.mu.Unlock()
		x.sawRemoved.Store(true)
	}
}

func (x *inst) interval(n uint64) time.Duration {
	x.mu.Lock()
	nth := x.ivlCalls[n]
	x.ivlCalls[n]++
	x.mu.Unlock()
	where := "interval-call-outside-run"
	if n >= 1 && nth == 0 {
		where = "interval-call-inside-run" // run() asks for the next interval before the callback
	}
	x.latch(where)
	if x.ivlHook != nil {
		x.ivlHook(n, nth)
	}
	x.latch(where)
	x.g.r.Count("interval_calls", 1)
	if x.zeroPrepFrom >= 0 && nth >= 1 && int(n) >= x.zeroPrepFrom {
		x.g.r.Count("interval_below_1_answers_at_preparation", 1)
		return 0
	}
	if x.ivlOverride != nil {
		if d, ok := x.ivlOverride(n, nth); ok {
			return d
		}
	}
	return x.ivl(n)
}

func (x *inst) callback(ctx context.Context, _ uint64) (bool, error) {
	now := time.Now()
	g := x.g
	r := g.r
	w := map[string]any{"rig": g.name, "instance": x.n, "id": string(x.id), "fate_of_predecessor": x.fate}
	if x.sawStop.Load() {
		x.mu.Lock()
		where := x.sawWhere
		x.mu.Unlock()
		r.Violation("a:callback-started-after-stop-returned:stop-seen-at="+where,
			fmt.Sprintf("instance %d of id %q: the stop call covering it had returned (seen by the instance's own %s), yet its callback was started afterwards", x.n, x.id, where), w)
		r.Count("starts_after_stop_returned", 1)
	} else if x.sawRemoved.Load() {
		x.mu.Lock()
		where := x.remWhere
		x.mu.Unlock()
		r.Violation("a:callback-started-after-own-whenRemoved-hook-ran:seen-at="+where,
			fmt.Sprintf("instance %d of id %q: it was removed (its whenRemoved hook had run, seen by the instance's own %s), yet its callback was started afterwards", x.n, x.id, where), w)
		r.Count("starts_after_own_removal", 1)
	} else if x.stopReturned.Load() {
		r.Count("starts_possibly_concurrent_with_stop_not_judged", 1)
		x.latch("previous-callback-start")
	} else if x.removedCalls.Load() > 0 {
		r.Count("starts_possibly_concurrent_with_removal_not_judged", 1)
		x.latch("previous-callback-start")
	}
	if ctx.Err() != nil {
		r.Count("callbacks_started_with_cancelled_context", 1)
	}
	x.mu.Lock()
	k := len(x.starts)
	var prev time.Time
	if k > 0 {
		prev = x.starts[k-1]
	}
	x.starts = append(x.starts, now)
	x.inCallback = true
	x.mu.Unlock()
	x.nstarts.Add(1)
	g.ev('c', x.n)
	r.Count("callback_starts", 1)
	// (c) one-sided: t0 was taken before New was called
	if k == 0 {
		if d := now.Sub(x.t0); d < x.ivl(0) {
			r.Violation("c:callback-before-interval:first", fmt.Sprintf("first callback %v after New was called, interval(0)=%v", d, x.ivl(0)), w)
		}
	} else if d := now.Sub(prev); d < x.ivl(uint64(k)) {
		r.Violation("c:callback-before-interval:consecutive", fmt.Sprintf("callback %d started %v after callback %d started, interval(%d)=%v", k, d, k-1, k, x.ivl(uint64(k))), w)
	}
	keep, err := true, error(nil)
	if x.cbHook != nil {
		if hk, he, ok := x.cbHook(k); ok {
			keep, err = hk, he
		}
	}
	if x.rearmAt >= 0 && k == x.rearmAt {
		x.g.rearm(x)
	}
	switch x.slow {
	case 1:
		time.Sleep(200 * time.Microsecond)
	case 2:
		time.Sleep(1500 * time.Microsecond)
	}
	if k == x.keepUntil {
		keep = false
	}
	if k == x.errAt {
		err = errors.New("c34 callback error")
	}
	x.mu.Lock()
	x.inCallback = false
	x.mu.Unlock()
	x.latch("previous-callback-end")
	return keep, err
}

func (g *rig) newInst(id util.TimerID) *inst {
	g.mu.Lock()
	g.ninst++
	n := g.ninst
	g.mu.Unlock()
	return &inst{g: g, n: n, id: id, base: time.Millisecond, keepUntil: -1, errAt: -1, zeroAt: -1, zeroPrepFrom: -1, rearmAt: -1, immortal: true, ivlCalls: map[uint64]int{}}
}

func (g *rig) register(x *inst) (bool, error) {
	x.t0 = time.Now()
	added, err := g.ts.NewTimer(util.NewSimpleTimer(x.id, x.interval, x.callback, x.whenRemoved))
	g.ev('N', x.n)
	g.r.Count("timers_registered", 1)
	return added, err
}

func has(ids []util.TimerID, id util.TimerID) bool {
	for _, i := range ids {
		if i == id {
			return true
		}
	}
	return false
}

// probe: every instance the controller registered, did not stop or replace,
// and which cannot finish by itself, must be registered.
func (g *rig) probe(reg map[util.TimerID]*inst, via string) {
	ids := g.ts.TimerIDs()
	g.r.Count("membership_probes", 1)
	for id, y := range reg {
		if !y.immortal {
			continue
		}
		g.r.Count("membership_checks", 1)
		if y.fate != "" {
			g.r.Count("membership_checks_of_successors", 1)
		}
		if !has(ids, id) {
			fate := y.fate
			if fate == "" {
				fate = "none"
			}
			g.r.Violation("b:registered-timer-removed:predecessor-"+fate,
				fmt.Sprintf("instance %d registered under id %q (predecessor under that id: %s) was never stopped and never asked to be removed, but it is not registered any more (%s)", y.n, id, fate, via),
				map[string]any{"rig": g.name, "instance": y.n, "id": string(id), "registered_ids": ids})
			delete(reg, id)
		}
	}
}

func newRig(r *vlib.Run, name string, size uint64) (*rig, bool) {
	ts, err := util.NewSimpleTimers(size, time.Millisecond)
	if err != nil {
		r.Violation("constructor-error", err.Error(), nil)
		return nil, false
	}
	if err := ts.Start(context.Background()); err != nil {
		r.Inconclusive("timers daemon did not start: " + err.Error())
		return nil, false
	}
	return &rig{r: r, name: name, ts: ts}, true
}

func (g *rig) fingerprint() string {
	g.mu.Lock()
	defer g.mu.Unlock()
	h := fnv.New64a()
	h.Write(g.events)
	return fmt.Sprintf("%016x", h.Sum64())
}

// waitFires waits (bounded) until every given instance has started >= n more
// callbacks, probing membership meanwhile. false = not reached (never a verdict).
func (g *rig) waitFires(reg map[util.TimerID]*inst, n int64, via string) bool {
	target := map[*inst]int64{}
	for _, y := range reg {
		target[y] = y.nstarts.Load() + n
	}
	deadline := time.Now().Add(20 * time.Second)
	for {
		g.probe(reg, via)
		done := true
		for id, y := range reg {
			if y.nstarts.Load() < target[y] {
				done = false
			}
			_ = id
		}
		if done || len(reg) == 0 {
			return true
		}
		if time.Now().After(deadline) {
			return false
		}
		time.Sleep(500 * time.Microsecond)
	}
}

// ---------------------------------------------------------------------------

type caseInfo struct {
	Case     int    `json:"case"`
	MapSize  uint64 `json:"timers_map_size"`
	IDs      int    `json:"ids"`
	Steps    int    `json:"steps"`
	Stops    int    `json:"stop_calls"`
	News     int    `json:"new_calls"`
	Starts   int64  `json:"callback_starts"`
	ReusedID int    `json:"registrations_under_a_previously_used_id"`
}

func randomCase(r *vlib.Run, idx int) {
	rng := r.Rand(34, idx)
	size := uint64(1)
	if rng.Intn(2) == 0 {
		size = uint64(2 + rng.Intn(7))
	}
	g, ok := newRig(r, fmt.Sprintf("random-%d", idx), size)
	if !ok {
		return
	}
	nids := 2 + rng.Intn(5)
	ids := make([]util.TimerID, nids)
	for i := range ids {
		ids[i] = util.TimerID(fmt.Sprintf("t%d", i))
	}
	steps := 200 + rng.Intn(r.N(800, 1801))
	info := caseInfo{Case: idx, MapSize: size, IDs: nids, Steps: steps}
	reg := map[util.TimerID]*inst{}
	lastFate := map[util.TimerID]string{}
	var all []*inst

	stopCovered := func(cov []util.TimerID, call func()) {
		var xs []*inst
		for _, id := range cov {
			if x := reg[id]; x != nil {
				xs = append(xs, x)
				x.mu.Lock()
				if x.inCallback {
					r.Count("stops_while_callback_running", 1)
				}
				x.mu.Unlock()
			}
		}
		call()
		for _, x := range xs {
			x.stopReturned.Store(true)
			g.ev('S', x.n)
			delete(reg, x.id)
			lastFate[x.id] = "stopped"
		}
		r.Count("timers_stopped", len(xs))
		info.Stops++
	}

	finished := r.WithWatchdog(120*time.Second, g.name, func() {
		for s := 0; s < steps; s++ {
			switch k := rng.Intn(40); {
			case k < 11: // New under a (probably reused) id
				id := ids[rng.Intn(nids)]
				x := g.newInst(id)
				x.base = time.Duration(1+rng.Intn(5)) * time.Millisecond
				if rng.Intn(2) == 0 {
					x.step = time.Millisecond
				}
				x.slow = []int{0, 0, 0, 1, 2}[rng.Intn(5)]
				switch rng.Intn(7) {
				case 0:
					x.keepUntil, x.immortal = rng.Intn(3), false
				case 1:
					x.errAt, x.immortal = rng.Intn(3), false
				case 2:
					x.zeroAt, x.immortal = 1+rng.Intn(3), false
				case 3:
					x.zeroPrepFrom, x.immortal = rng.Intn(3), false
				}
				x.fate = lastFate[id]
				if prev := reg[id]; prev != nil {
					x.fate = "replaced"
					if !prev.immortal {
						x.fate = "replaced-and-finishing-by-itself"
					}
				}
				added, err := g.register(x)
				info.News++
				if err != nil || !added {
					r.Violation("New:not-added", fmt.Sprintf("New(%q) with a positive interval returned added=%v err=%v", id, added, err), nil)
					continue
				}
				if x.fate != "" {
					info.ReusedID++
					r.Count("registrations_under_previously_used_id", 1)
				}
				reg[id] = x
				if !x.immortal {
					lastFate[id] = "finishing-by-itself"
				}
				all = append(all, x)
			case k < 16:
				var cov []util.TimerID
				for _, id := range ids {
					if rng.Intn(3) == 0 {
						cov = append(cov, id)
					}
				}
				stopCovered(cov, func() { _ = g.ts.StopTimers(cov) })
				r.Count("calls_StopTimers", 1)
			case k < 17:
				var excl, cov []util.TimerID
				for _, id := range ids {
					if rng.Intn(2) == 0 {
						excl = append(excl, id)
					} else {
						cov = append(cov, id)
					}
				}
				stopCovered(cov, func() { _ = g.ts.StopOthers(excl) })
				r.Count("calls_StopOthers", 1)
			case k < 18:
				stopCovered(ids, func() { _ = g.ts.StopAllTimers() })
				r.Count("calls_StopAllTimers", 1)
			case k < 22:
				g.probe(reg, "probe during the run")
			default:
				time.Sleep(time.Duration(rng.Intn(1500)) * time.Microsecond)
			}
		}
		// closing phase: stop everything, register a fresh instance under every
		// id (successors of just-stopped timers), let them fire
		stopCovered(ids, func() { _ = g.ts.StopAllTimers() })
		for _, id := range ids {
			y := g.newInst(id)
			y.base = time.Duration(1+rng.Intn(2)) * time.Millisecond
			y.fate = lastFate[id]
			if y.fate == "" {
				y.fate = "none"
			}
			if added, err := g.register(y); err != nil || !added {
				r.Violation("New:not-added", fmt.Sprintf("New(%q) returned added=%v err=%v", id, added, err), nil)
				continue
			}
			reg[id] = y
			all = append(all, y)
		}
		if !g.waitFires(reg, 3, "closing phase") {
			r.Inconclusive(g.name + ": registered timers did not fire 3 times within 20s")
		}
		stopCovered(ids, func() { _ = g.ts.StopAllTimers() })
		time.Sleep(5 * time.Millisecond) // lets a wrongly surviving timer show itself
		_ = g.ts.Stop()
	})
	if !finished {
		return
	}
	for _, x := range all {
		info.Starts += x.nstarts.Load()
	}
	if info.Starts == 0 {
		r.Inconclusive(g.name + ": no callback was ever started")
	}
	r.Case(fmt.Sprintf("random:ids%d:size%d:%s", nids, size, g.fingerprint()))
	r.SetAdd("interleavings_seen", g.fingerprint())
	if idx < 3 {
		r.Sample(info)
	}
}

// ---------------------------------------------------------------------------
// concurrent registration: New() from a second controller and from timer
// callbacks (re-arming their own id) races Stop*() calls of the first
// controller on the same ids.
//
// Judged only where the statement fixes the outcome. For an instance Y that
// cannot finish by itself and whose New returned added=true, at a point where
// every New/Stop call has returned and no callback can re-arm any more:
//   rule 1: if every Stop* covering Y's id returned before Y's New was called
//           and every other New under that id returned before Y's New was
//           called, Y must be listed;
//   rule 2: if every other New under that id returned before Y's New was
//           called (nothing can have replaced Y) and Y is not listed, then Y
//           was removed as a timer, and removal calls its whenRemoved hook
//           before the removing call returns. A Y that is gone without that
//           was dropped from the registry by the removal of another timer.
// A New concurrent with a Stop* covering its id may or may not survive.

func (g *rig) registerLogged(x *inst) {
	x.t0 = time.Now()
	call := g.clock.Add(1)
	added, err := g.ts.NewTimer(util.NewSimpleTimer(x.id, x.interval, x.callback, x.whenRemoved))
	ret := g.clock.Add(1)
	g.mu.Lock()
	x.callClk, x.retClk, x.added = call, ret, added && err == nil
	g.news = append(g.news, x)
	g.events = append(g.events, 'N', byte(x.n), byte(x.n>>8))
	g.mu.Unlock()
	g.r.Count("timers_registered", 1)
	g.r.Count("timers_registered_concurrently_with_stops", 1)
}

func (g *rig) rearm(x *inst) {
	g.rearmMu.RLock()
	defer g.rearmMu.RUnlock()
	if g.noRearm {
		return
	}
	y := g.newInst(x.id)
	y.base = x.base
	y.fate = "re-armed-by-its-own-callback"
	g.r.Count("registrations_from_inside_a_callback", 1)
	g.registerLogged(y)
}

func (g *rig) setRearm(on bool) {
	g.rearmMu.Lock() // waits for callbacks which are inside New
	g.noRearm = !on
	g.rearmMu.Unlock()
}

func (g *rig) loggedStop(rec stopRec, call func()) {
	rec.call = g.clock.Add(1)
	call()
	rec.ret = g.clock.Add(1)
	g.mu.Lock()
	g.stops = append(g.stops, rec)
	g.events = append(g.events, 'S', byte(len(g.stops)), 0)
	g.mu.Unlock()
	g.r.Count("stop_calls_concurrent_with_registrations", 1)
}

// judge applies rule 1 and 2 to the instances registered since clock `since`.
func (g *rig) judge(since int64, via string) {
	ids := g.ts.TimerIDs()
	g.mu.Lock()
	defer g.mu.Unlock()
	g.r.Count("quiescent_judgements", 1)
	for _, y := range g.news {
		if y.callClk <= since || !y.added || !y.immortal {
			continue
		}
		stopMaybe, replMaybe := false, false
		for _, s := range g.stops {
			if s.ret > y.callClk && s.covers(y.id) {
				stopMaybe = true
				break
			}
		}
		for _, o := range g.news {
			if o != y && o.id == y.id && o.added && o.retClk > y.callClk {
				replMaybe = true
				break
			}
		}
		listed := has(ids, y.id)
		w := map[string]any{"rig": g.name, "instance": y.n, "id": string(y.id), "registered_ids": ids, "registered_by": y.fate, "whenRemoved_calls": y.removedCalls.Load(), "callback_starts": y.nstarts.Load()}
		switch {
		case replMaybe:
			g.r.Count("judged_skipped_possibly_replaced", 1)
		case !stopMaybe:
			g.r.Count("judged_must_be_listed", 1)
			if !listed {
				g.r.Violation("b:registered-timer-removed:no-stop-could-cover-it",
					fmt.Sprintf("instance %d under id %q: every stop covering the id had returned before its New was called, nothing was registered under the id afterwards, but it is not listed (%s)", y.n, y.id, via), w)
			}
		case listed:
			g.r.Count("judged_survived_a_concurrent_stop", 1)
		case y.removedCalls.Load() == 0:
			g.r.Violation("b:timer-dropped-from-registry-without-being-removed-itself",
				fmt.Sprintf("instance %d under id %q was registered (New returned added=true) concurrently with a stop of that id; nothing could have replaced it, all calls have returned, it is not listed, and its whenRemoved hook was never called: the removal of its predecessor took it out of the registry (%s)", y.n, y.id, via), w)
		default:
			g.r.Count("judged_stopped_by_a_concurrent_stop", 1)
		}
	}
}

func concurrentCase(r *vlib.Run, idx int) {
	rng := r.Rand(35, idx)
	size := uint64(1)
	if rng.Intn(2) == 0 {
		size = uint64(2 + rng.Intn(7))
	}
	g, ok := newRig(r, fmt.Sprintf("concurrent-%d", idx), size)
	if !ok {
		return
	}
	nids := 1 + rng.Intn(3)
	ids := make([]util.TimerID, nids)
	for i := range ids {
		ids[i] = util.TimerID(fmt.Sprintf("t%d", i))
	}
	rounds := 20 + rng.Intn(r.N(40, 200))
	finished := r.WithWatchdog(120*time.Second, g.name, func() {
		for round := 0; round < rounds; round++ {
			since := g.clock.Load()
			g.setRearm(true)
			ra, rb := r.Rand(35, idx, round, 0), r.Rand(35, idx, round, 1)
			var wg sync.WaitGroup
			wg.Add(2)
			go func() { // controller A: stops
				defer wg.Done()
				for k, n := 0, 1+ra.Intn(3); k < n; k++ {
					for y := ra.Intn(4); y > 0; y-- {
						runtime.Gosched()
					}
					switch ra.Intn(6) {
					case 0:
						g.loggedStop(stopRec{all: true}, func() { _ = g.ts.StopAllTimers() })
					case 1:
						excl := []util.TimerID{ids[ra.Intn(nids)]}
						g.loggedStop(stopRec{excl: excl}, func() { _ = g.ts.StopOthers(excl) })
					default:
						var cov []util.TimerID
						for _, id := range ids {
							if ra.Intn(2) == 0 {
								cov = append(cov, id)
							}
						}
						if len(cov) == 0 {
							cov = []util.TimerID{ids[0]}
						}
						g.loggedStop(stopRec{ids: cov}, func() { _ = g.ts.StopTimers(cov) })
					}
				}
			}()
			go func() { // controller B: registrations under the same ids
				defer wg.Done()
				for k, n := 0, 1+rb.Intn(4); k < n; k++ {
					for y := rb.Intn(4); y > 0; y-- {
						runtime.Gosched()
					}
					x := g.newInst(ids[rb.Intn(nids)])
					x.base = time.Duration(1+rb.Intn(3)) * time.Millisecond
					x.hookDelay = rb.Intn(3)
					x.fate = "second-controller"
					switch rb.Intn(6) {
					case 0:
						x.keepUntil, x.immortal = rb.Intn(2), false
					case 1:
						x.errAt, x.immortal = rb.Intn(2), false
					case 2, 3:
						x.rearmAt = rb.Intn(2)
					}
					g.registerLogged(x)
				}
			}()
			wg.Wait()
			if rng.Intn(2) == 0 {
				time.Sleep(time.Duration(1000+rng.Intn(2500)) * time.Microsecond) // lets timers fire and re-arm
			}
			g.setRearm(false)
			g.judge(since, "end of a round of concurrent New/Stop calls")
		}
		_ = g.ts.Stop()
	})
	if !finished {
		return
	}
	r.Case(fmt.Sprintf("concurrent:ids%d:size%d:%s", nids, size, g.fingerprint()))
	r.SetAdd("interleavings_seen", g.fingerprint())
	if idx == 0 {
		g.mu.Lock()
		r.Sample(map[string]any{"concurrent_case": idx, "rounds": rounds, "ids": nids, "registrations": len(g.news), "stop_calls": len(g.stops)})
		g.mu.Unlock()
	}
}

// directedRemovalWindow: the whenRemoved hook of X (user code that
// SimpleTimers runs while it removes X) is still running when another
// goroutine registers Y under the same id. The hook waits only until that New
// has been *called* and then a little longer, never for its return.
func directedRemovalWindow(r *vlib.Run, size uint64) {
	name := fmt.Sprintf("directed-new-during-whenRemoved-size%d", size)
	g, ok := newRig(r, name, size)
	if !ok {
		return
	}
	defer func() { _ = g.ts.Stop() }()
	id := util.TimerID("reused")
	inHook := make(chan struct{})
	newCalled := make(chan struct{})
	var once sync.Once
	var timedOut atomic.Bool
	x := g.newInst(id)
	x.base = 50 * time.Millisecond
	x.removedFn = func() {
		once.Do(func() {
			close(inHook)
			if !waitCh(newCalled, 10*time.Second) {
				timedOut.Store(true)
			}
			time.Sleep(2 * time.Millisecond)
		})
	}
	g.registerLogged(x)
	since := g.clock.Load()
	y := g.newInst(id)
	y.fate = "second-controller"
	var wg sync.WaitGroup
	wg.Add(2)
	go func() {
		defer wg.Done()
		cov := []util.TimerID{id}
		g.loggedStop(stopRec{ids: cov}, func() { _ = g.ts.StopTimers(cov) })
	}()
	go func() {
		defer wg.Done()
		if !waitCh(inHook, 10*time.Second) {
			timedOut.Store(true)
		}
		go func() {
			runtime.Gosched()
			close(newCalled)
		}()
		g.registerLogged(y)
	}()
	if !r.WithWatchdog(60*time.Second, name, wg.Wait) {
		return
	}
	if timedOut.Load() {
		r.Inconclusive(name + ": the schedule could not be set up")
		return
	}
	g.judge(since, name)
	r.Case("directed:" + name + ":" + g.fingerprint())
	r.Count("directed_schedules", 1)
}

// ---------------------------------------------------------------------------
// directed schedules

func waitCh(ch chan struct{}, d time.Duration) bool {
	select {
	case <-ch:
		return true
	case <-time.After(d):
		return false
	}
}

// directed runs one schedule: instance X is held at a chosen point of its
// run, the controller stops (or replaces) it and registers successor Y under
// the same id, then X continues.
//
//	hold = "interval-in-run": X is inside the interval function that run()
//	       calls after its stopped-check and before the callback
//	hold = "callback": X is inside its callback and then returns !keep / error
func directed(r *vlib.Run, idx int, hold string, action string, size uint64) {
	name := fmt.Sprintf("directed-%s-%s-size%d", hold, action, size)
	g, ok := newRig(r, name, size)
	if !ok {
		return
	}
	defer func() { _ = g.ts.Stop() }()
	id := util.TimerID("reused")
	held := make(chan struct{})
	resume := make(chan struct{})
	var once sync.Once
	var hookTimeout atomic.Bool
	holdNow := func() {
		once.Do(func() {
			close(held)
			if !waitCh(resume, 10*time.Second) {
				hookTimeout.Store(true)
			}
		})
	}
	x := g.newInst(id)
	x.immortal = false
	switch hold {
	case "interval-in-run":
		x.ivlHook = func(n uint64, nth int) {
			if n == 1 && nth == 0 {
				holdNow()
			}
		}
	default:
		x.cbHook = func(k int) (bool, error, bool) {
			if k == 0 {
				holdNow()
				if action == "replace-then-error" {
					return true, errors.New("c34 directed error"), true
				}
				return false, nil, true
			}
			return true, nil, false
		}
	}
	// a bystander under another id keeps the loop busy
	z := g.newInst("bystander")
	reg := map[util.TimerID]*inst{}
	if added, err := g.register(z); err == nil && added {
		reg[z.id] = z
	}
	if added, err := g.register(x); err != nil || !added {
		r.Violation("New:not-added", fmt.Sprintf("New returned added=%v err=%v", added, err), nil)
		return
	}
	if !waitCh(held, 20*time.Second) {
		r.Inconclusive(name + ": instance never reached the holding point")
		return
	}
	y := g.newInst(id)
	switch action {
	case "stop":
		_ = g.ts.StopTimers([]util.TimerID{id})
		x.stopReturned.Store(true)
		g.ev('S', x.n)
		y.fate = "stopped"
		r.Count("timers_stopped", 1)
	default:
		y.fate = "replaced-and-finishing-by-itself"
	}
	if added, err := g.register(y); err != nil || !added {
		r.Violation("New:not-added", fmt.Sprintf("New returned added=%v err=%v", added, err), nil)
		return
	}
	reg[id] = y
	r.Count("registrations_under_previously_used_id", 1)
	close(resume)
	if !g.waitFires(reg, 4, name) {
		if has(g.ts.TimerIDs(), id) {
			r.Inconclusive(name + ": successor registered but did not fire 4 times within 20s")
		}
	}
	g.probe(reg, name)
	if hookTimeout.Load() {
		r.Inconclusive(name + ": held instance was not resumed in time")
	}
	r.Case("directed:" + name + ":" + g.fingerprint())
	r.Count("directed_schedules", 1)
	if idx == 0 {
		r.Sample(map[string]any{"directed": name, "held_instance_callback_starts": x.nstarts.Load(), "successor_callback_starts": y.nstarts.Load(), "successor_registered": has(g.ts.TimerIDs(), id)})
	}
}

func TestC34(t *testing.T) {
	r := vlib.Start(t, "C34", vlib.LevelExploration)
	defer r.Finish()
	r.SetRule("case = one SimpleTimers daemon (resolution 1ms, map size 1..8) driven by one controller: 200-2000 seeded steps of New (intervals 1-5ms(+0..2ms by call number), callbacks instant/0.2ms/1.5ms, some instances finish by keep=false / error / interval 0 for a call number / an interval function that answers 0 only when the loop's preparation asks again), StopTimers / StopOthers / StopAllTimers over 2-6 reused ids, membership probes, pauses 0-1.5ms; then a closing phase registering a successor under every id right after StopAllTimers. Plus concurrent cases: 20-60 rounds in which a second controller registers under 1-3 ids and callbacks re-register their own id while the first controller runs StopTimers/StopOthers/StopAllTimers over them, judged at the quiescent end of each round. Plus directed schedules that hold an instance inside run() (in the interval function called between the stopped-check and the callback, or inside the callback) while the controller stops or replaces it and registers a successor under the same id. Plus self-ending cases (all 32 combinations, 3 (quick) / 40 (thorough) seeded repetitions each over map sizes 1/16/4/random 1-64 and 4-10 (4-64) always-due bystander timers (interval 1-2ms) that keep the loop walking): a predecessor ends on its own by {interval function consulting outside state answers 0 or a negative duration at its first preparation before any callback | the same at a later preparation after 1-3 callbacks | callback error | callback keep=false} x a successor registered under the same id {before the end | concurrently with the end: predecessor held at its end, for the interval-function ways inside the loop's traverse, until New was called by another goroutine | while the loop is held by a channel handshake inside the preparation of the next other timer it walks, loop and predecessor released in a seeded order | right after the end was signalled} x {NewTimer with whenRemoved hook | New}; nobody ever stops the successor or the bystanders. distinct = hash of the observed order of register/stop/callback-start events; non-trivial = every case (ids are always reused)")
	r.Assume("clause (a) is judged by happens-before: a callback start is a violation only if the instance's own earlier code had already seen that the covering stop call returned; starts that may be concurrent with the stop call are counted as starts_possibly_concurrent_with_stop_not_judged")
	r.Assume("clause (c) uses a one-sided bound: time from just before New (or from the previous callback start) to the callback start must be at least the interval; machine load can only lengthen it")
	r.Assume("in the single-controller cases one goroutine issues all New/Stop* calls, so the controller knows exactly which instance a stop covered; clause (a) is judged only there")
	r.Assume("in the concurrent cases (second controller and callbacks re-arming their own id while the first controller stops it) a registration concurrent with a stop covering its id may or may not survive; judged are only: a registration no stop could have covered and nothing replaced must be listed, and a registration that nothing replaced and that is gone must have had its own whenRemoved hook called (a removal runs the hook of the timer it removes before it returns)")

	r.Assume("self-ending cases: nothing stops the successor or the bystanders, nothing is registered over them and they cannot end by themselves, so whatever order the code took: until the harness stops the daemon their whenRemoved hook must not have run and they must be listed (definite), and they must go on firing (successor 3 more callbacks, bystanders 1, within 20s, else inconclusive). Whether the successor's New landed inside the very tick in which the predecessor ended is not observable from outside and is only counted (New returned while the loop was held / was pending on the map lock when the loop was released / no bystander callback had started between the end and the hold)")
	r.Assume("a callback start of an instance is a violation also if the instance's own earlier code had already seen that its whenRemoved hook ran (the hook runs after the timer's context was cancelled and run() checks the context before each callback); starts that may be concurrent with the removal are counted, not judged")

	// directed schedules (deterministic)
	di := 0
	for _, size := range []uint64{1, 4} {
		for _, d := range [][2]string{{"interval-in-run", "stop"}, {"callback", "stop"}, {"callback", "replace-then-error"}, {"callback", "replace-then-keep-false"}} {
			directed(r, di, d[0], d[1], size)
			di++
		}
	}

	for _, size := range []uint64{1, 4} {
		directedRemovalWindow(r, size)
	}

	n := r.N(160, 2400)
	vlib.Parallel(n, 8, func(i int) { randomCase(r, i) })
	nc := r.N(64, 1000)
	vlib.Parallel(nc, 8, func(i int) { concurrentCase(r, i) })

	selfEndCases(r)

	if r.Counter("callback_starts") == 0 || r.Counter("timers_stopped") == 0 {
		r.Inconclusive("no callback starts or no stops observed")
	}
}
