package c34

// Timers that end on their own, and a successor registered under the same id
// around that moment while the timers' loop is in the middle of a tick.
//
// A predecessor X ends by one of
//
//	way 0: its interval function (which consults outside state) answers < 1
//	       the first time the loop's preparation asks, before any callback
//	way 1: the same at a later preparation, after X ran 1-3 callbacks
//	way 2: its callback returns an error
//	way 3: its callback returns keep=false
//
// and a successor Y (which nobody ever stops, and which cannot end by itself)
// is registered under X's id by New or NewTimer
//
//	point 0 "before":              New(Y) has returned before X reaches its end
//	point 1 "concurrent-with-end": X is held at its end (ways 0/1: inside the
//	        interval function the loop's traverse is calling, X's map shard
//	        locked by the loop; ways 2/3: inside the callback) until New(Y) has
//	        been *called* by another goroutine, then ends
//	point 2 "loop-held-mid-tick":  after X's end was decided (ways 0/1) / while
//	        X is held in its ending callback (ways 2/3), the loop is held inside
//	        the interval function of the next other timer it prepares; New(Y) is
//	        called meanwhile; loop and X are released in a seeded order
//	point 3 "right-after":         New(Y) is called as soon as X signalled its end
//
// 4-64 (quick: 4-10) always-due bystander timers keep the loop walking. All holds are
// channel handshakes driven by the timers' own interval functions/callbacks.
//
// Judged (nothing here depends on which order the code happened to take):
// nobody stops Y or a bystander and nothing is registered over them, so until
// the harness stops the daemon their whenRemoved hook must not run, they must
// be listed, and they must go on firing (bounded progress: successor 3 more
// callbacks, bystanders 1; not reached within 20s => inconclusive, never a
// violation). X's callback must not start again
// once X's own code has seen that X was removed (see inst.latch).

import (
	"errors"
	"fmt"
	"runtime"
	"sync"
	"sync/atomic"
	"time"

	"github.com/spikeekips/mitum/util"
	"verifharness/vlib"
)

var (
	seWays   = []string{"interval<1-at-first-preparation", "interval<1-at-later-preparation", "callback-error", "callback-keep-false"}
	sePoints = []string{"before", "concurrent-with-end", "loop-held-mid-tick", "right-after"}
	seAPIs   = []string{"NewTimer", "New"}
)

const seCombos = 4 * 4 * 2

type gate struct {
	ch   chan struct{}
	once sync.Once
}

func newGate() *gate  { return &gate{ch: make(chan struct{})} }
func (g *gate) open() { g.once.Do(func() { close(g.ch) }) }
func (g *gate) isOpen() bool {
	select {
	case <-g.ch:
		return true
	default:
		return false
	}
}
func (g *gate) wait(d time.Duration) bool {
	return waitCh(g.ch, d)
}

func grace() {
	for i := 0; i < 20; i++ {
		runtime.Gosched()
	}
	time.Sleep(300 * time.Microsecond)
}

func (g *rig) registerVia(x *inst, api int) (bool, error) {
	if api == 0 {
		return g.register(x)
	}
	x.t0 = time.Now()
	added, err := g.ts.New(x.id, x.interval, x.callback) // no whenRemoved hook: judged by membership and progress only
	g.ev('N', x.n)
	g.r.Count("timers_registered", 1)
	return added, err
}

type selfEndInfo struct {
	Case            int    `json:"self_ending_case"`
	Way             string `json:"predecessor_ends_by"`
	Point           string `json:"successor_registered"`
	API             string `json:"registered_with"`
	MapSize         uint64 `json:"timers_map_size"`
	Bystanders      int    `json:"always_due_bystander_timers"`
	EndsAtCall      int    `json:"predecessor_ends_at_call_number"`
	XStarts         int64  `json:"predecessor_callback_starts"`
	XEndAsks        int64  `json:"predecessor_interval_below_1_answers"`
	XRemovedCalls   int64  `json:"predecessor_whenRemoved_calls"`
	NewWhileHeld    string `json:"new_call_vs_held_loop"`
	YStarts         int64  `json:"successor_callback_starts"`
	YRemovedCalls   int64  `json:"successor_whenRemoved_calls"`
	YListed         bool   `json:"successor_listed_at_the_end"`
	BystanderStarts int64  `json:"bystander_callback_starts"`
}

const seWait = 30 * time.Second

// waitProgress waits (bounded) until every given instance has started >=
// more(instance) further callbacks, probing membership meanwhile. false = not
// reached (never a verdict).
func (g *rig) waitProgress(reg map[util.TimerID]*inst, more func(*inst) int64, via string) bool {
	target := map[*inst]int64{}
	for _, z := range reg {
		target[z] = z.nstarts.Load() + more(z)
	}
	deadline := time.Now().Add(20 * time.Second)
	for {
		g.probe(reg, via)
		done := true
		for _, z := range reg {
			if z.nstarts.Load() < target[z] {
				done = false
			}
		}
		if done || len(reg) == 0 {
			return true
		}
		if time.Now().After(deadline) {
			return false
		}
		time.Sleep(time.Millisecond)
	}
}

func selfEndCase(r *vlib.Run, idx int) {
	rng := r.Rand(36, idx)
	way, point, api := idx%4, (idx/4)%4, (idx/16)%2
	rep := idx / seCombos
	size := []uint64{1, 16, 4}[rep%3]
	if rep >= 3 {
		size = uint64(1 + rng.Intn(64))
	}
	nbusy := 4 + rng.Intn(r.N(7, 61))
	endK := rng.Intn(3) // ways 2/3: the callback number that ends X; way 1: X's outside state flips in callback endK
	endVal := time.Duration(0)
	if rng.Intn(2) == 0 {
		endVal = -time.Duration(1+rng.Intn(5)) * time.Millisecond
	}
	releaseXFirst := rng.Intn(2) == 0
	name := fmt.Sprintf("self-end-%d:%s:%s:%s:size%d", idx, seWays[way], sePoints[point], seAPIs[api], size)
	g, ok := newRig(r, name, size)
	if !ok {
		return
	}
	info := selfEndInfo{Case: idx, Way: seWays[way], Point: sePoints[point], API: seAPIs[api], MapSize: size, Bystanders: nbusy, EndsAtCall: endK, NewWhileHeld: "loop-not-held"}
	if way == 0 {
		info.EndsAtCall = 0
	} else if way == 1 {
		info.EndsAtCall = endK + 1
	}

	var (
		ended       atomic.Bool // the outside state X's interval function consults
		endAsks     atomic.Int64
		holdArmed   atomic.Bool
		busyStarts  atomic.Int64
		startsAtArm atomic.Int64
		noStartTill atomic.Bool // no bystander callback started between arming and the hold
		timedOut    atomic.Bool
		endOnce     sync.Once
	)
	atEnd := newGate()      // X reached (ways 2/3, way 1 "before": is held at) its end
	newCalled := newGate()  // New(Y) is about to be called
	newRet := newGate()     // New(Y) returned
	loopHeld := newGate()   // the loop is held inside the preparation of another timer
	loopResume := newGate() // releases the loop
	xResume := newGate()    // releases X
	openAll := func() {
		for _, c := range []*gate{atEnd, newCalled, loopHeld, loopResume, xResume} {
			c.open()
		}
	}
	must := func(c *gate) {
		if !c.wait(seWait) {
			timedOut.Store(true)
		}
	}
	arm := func() {
		startsAtArm.Store(busyStarts.Load())
		holdArmed.Store(true)
	}

	id := util.TimerID("reused")
	x := g.newInst(id)
	x.immortal = false
	x.base = time.Duration(2+rng.Intn(3)) * time.Millisecond
	x.hookDelay = rng.Intn(3)
	if way == 0 && point != 0 {
		ended.Store(true) // NewTimer's own question (the first for call 0) still gets the plain interval
	}
	if way <= 1 {
		x.ivlOverride = func(_ uint64, nth int) (time.Duration, bool) {
			if nth < 1 || !ended.Load() {
				return 0, false
			}
			// asked by the loop's preparation, inside its traverse
			endAsks.Add(1)
			r.Count("interval_below_1_answers_at_preparation", 1)
			endOnce.Do(func() {
				switch point {
				case 1:
					atEnd.open()
					must(newCalled)
					grace()
				case 2:
					arm()
					atEnd.open()
				default:
					atEnd.open()
				}
			})
			return endVal, true
		}
	}
	x.cbHook = func(k int) (bool, error, bool) {
		if k != endK || way == 0 {
			return true, nil, false
		}
		if way == 1 {
			if point == 0 {
				atEnd.open()
				must(xResume) // the harness registers Y, then flips the state
				return true, nil, false
			}
			ended.Store(true)
			return true, nil, false
		}
		switch point {
		case 0:
			atEnd.open()
			must(xResume)
		case 1:
			atEnd.open()
			must(newCalled)
		case 2:
			arm()
			must(loopHeld)
			atEnd.open()
			must(xResume)
		default:
			atEnd.open()
		}
		if way == 2 {
			r.Count("predecessor_ends_by_callback_error", 1)
			return true, errors.New("c34 self-ending error"), true
		}
		r.Count("predecessor_ends_by_callback_keep_false", 1)
		return false, nil, true
	}

	reg := map[util.TimerID]*inst{}
	var busy []*inst
	y := g.newInst(id)
	y.base = time.Duration(1+rng.Intn(2)) * time.Millisecond
	y.hookDelay = rng.Intn(3)
	y.fate = "self-ended-by-" + seWays[way]
	var yAdded atomic.Bool
	var yErr atomic.Value
	regY := func() {
		newCalled.open()
		added, err := g.registerVia(y, api)
		yAdded.Store(added && err == nil)
		if err != nil {
			yErr.Store(err.Error())
		}
		newRet.open()
	}

	finished := r.WithWatchdog(180*time.Second, name, func() {
		defer func() { _ = g.ts.Stop() }()
		defer openAll()
		for i := 0; i < nbusy; i++ {
			b := g.newInst(util.TimerID(fmt.Sprintf("bystander-%d", i)))
			b.base = time.Duration(1+rng.Intn(2)) * time.Millisecond
			b.slow = []int{0, 0, 1}[rng.Intn(3)]
			b.ivlHook = func(_ uint64, nth int) {
				if nth >= 1 && holdArmed.CompareAndSwap(true, false) {
					// asked by the loop's preparation, inside its traverse
					noStartTill.Store(busyStarts.Load() == startsAtArm.Load())
					loopHeld.open()
					must(loopResume)
				}
			}
			b.cbHook = func(int) (bool, error, bool) {
				busyStarts.Add(1)
				return true, nil, false
			}
			if added, err := g.register(b); err != nil || !added {
				r.Violation("New:not-added", fmt.Sprintf("New returned added=%v err=%v", added, err), nil)
				return
			}
			reg[b.id] = b
			busy = append(busy, b)
		}
		if added, err := g.register(x); err != nil || !added {
			r.Violation("New:not-added", fmt.Sprintf("New returned added=%v err=%v", added, err), nil)
			return
		}

		if !(way == 0 && point == 0) {
			if !atEnd.wait(seWait) {
				r.Inconclusive(name + ": the predecessor never reached its end")
				return
			}
		}
		switch point {
		case 0, 3:
			regY()
			if point == 0 && way <= 1 {
				ended.Store(true)
			}
			xResume.open()
		case 1:
			go regY()
			must(newRet)
		case 2:
			if !loopHeld.wait(seWait) {
				r.Inconclusive(name + ": the loop never prepared another timer after the hold was armed")
				return
			}
			r.Count("loop_held_in_preparation_of_a_later_timer", 1)
			if noStartTill.Load() {
				r.Count("loop_held_before_any_callback_of_the_ending_tick_started", 1)
			}
			go regY()
			must(newCalled)
			select {
			case <-newRet.ch:
				info.NewWhileHeld = "New-returned-while-loop-held"
			case <-time.After(3 * time.Millisecond):
				info.NewWhileHeld = "New-pending-on-the-map-lock-when-loop-released"
			}
			r.Count("successor_"+info.NewWhileHeld, 1)
			if releaseXFirst {
				xResume.open()
				grace()
				loopResume.open()
			} else {
				loopResume.open()
				xResume.open()
			}
			must(newRet)
		}
		openAll()
		if timedOut.Load() || !newRet.isOpen() {
			r.Inconclusive(name + ": the schedule could not be set up")
			return
		}
		if !yAdded.Load() {
			r.Violation("New:not-added", fmt.Sprintf("New(%q) with a positive interval returned added=false or an error (%v)", id, yErr.Load()), nil)
			return
		}
		reg[id] = y
		r.Count("registrations_under_previously_used_id", 1)
		r.Count("successors_of_self_ended_timers_registered", 1)

		fired := g.waitProgress(reg, func(z *inst) int64 {
			if z == y {
				return 3
			}
			return 1
		}, name)
		never := append([]*inst{y}, busy...)
		removed := false
		for _, z := range never {
			r.Count("never_stopped_timers_judged", 1)
			if c := z.removedCalls.Load(); c > 0 {
				removed = true
				role := "bystander"
				if z == y {
					role = "successor"
				}
				r.Violation(fmt.Sprintf("b:whenRemoved-ran-for-never-stopped-%s:predecessor-ended-by=%s:registered=%s", role, seWays[way], sePoints[point]),
					fmt.Sprintf("instance %d under id %q (%s) was never stopped, nothing was registered over it and it cannot end by itself, but its whenRemoved hook ran %d time(s) (its context was cancelled; callback starts so far: %d). The timer under id %q before it ended by %s; the successor's New was %s", z.n, z.id, role, c, z.nstarts.Load(), id, seWays[way], sePoints[point]),
					map[string]any{"rig": g.name, "instance": z.n, "id": string(z.id), "registered_ids": g.ts.TimerIDs(), "predecessor_callback_starts": x.nstarts.Load(), "predecessor_whenRemoved_calls": x.removedCalls.Load()})
			}
		}
		g.probe(reg, name)
		info.YListed = has(g.ts.TimerIDs(), id)
		if !fired && !removed && info.YListed {
			r.Inconclusive(name + ": registered timers did not go on firing (successor 3 more callbacks, bystanders 1) within 20s")
		}
		info.XStarts, info.XEndAsks, info.XRemovedCalls = x.nstarts.Load(), endAsks.Load(), x.removedCalls.Load()
		info.YStarts, info.YRemovedCalls = y.nstarts.Load(), y.removedCalls.Load()
		info.BystanderStarts = busyStarts.Load()
		r.Count("successor_callback_starts", int(info.YStarts))
	})
	if !finished {
		openAll()
		return
	}
	r.Count("self_ending_cases", 1)
	r.SetAdd("self_ending_combinations_run", fmt.Sprintf("%s/%s/%s", seWays[way], sePoints[point], seAPIs[api]))
	r.Case(fmt.Sprintf("self-end:%s:%s:%s:size%d:%s", seWays[way], sePoints[point], seAPIs[api], size, g.fingerprint()))
	r.SetAdd("interleavings_seen", g.fingerprint())
	if idx == 9 {
		r.Sample(info)
	}
}

func selfEndCases(r *vlib.Run) {
	n := seCombos * r.N(3, 40)
	t0 := time.Now()
	vlib.Parallel(n, 16, func(i int) { selfEndCase(r, i) })
	r.Set("self_ending_cases_wall_s", time.Since(t0).Seconds()) // cost only, no verdict uses it
}
