package c35

import (
	"fmt"
	"strings"
	"sync/atomic"
	"testing"

	"github.com/spikeekips/mitum/base"
	"github.com/spikeekips/mitum/launch"
	"github.com/spikeekips/mitum/util/encoder"
	jsonenc "github.com/spikeekips/mitum/util/encoder/json"
	"verifharness/vlib"
)

// perms a table cell can hold; 0 = no entry
var cellPerms = []launch.ACLPerm{0, 1 /* x */, 2 /* o */, 3 /* oo */, 4 /* ooo */, 79 /* s */}

const (
	permX     = launch.ACLPerm(1)
	permSuper = launch.ACLPerm(79)
)

var scopes = []launch.ACLScope{"sa", "sb"} // scopes that can have entries
const unlisted = launch.ACLScope("sz")     // a scope that never has an entry
const defaultKey = "_default"              // the documented name of the default scope / default user

// row = perms of one user for [sa, sb, _default]
type row [3]launch.ACLPerm

func rowOf(i int) row {
	return row{cellPerms[i%6], cellPerms[(i/6)%6], cellPerms[(i/36)%6]}
}

func (r row) empty() bool { return r[0] == 0 && r[1] == 0 && r[2] == 0 }

func (r row) yaml(user string, b *strings.Builder) {
	if r.empty() {
		return
	}
	fmt.Fprintf(b, "%s:\n", user)
	names := []string{string(scopes[0]), string(scopes[1]), defaultKey}
	for k, p := range r {
		if p != 0 {
			fmt.Fprintf(b, "  %s: %s\n", names[k], p.String())
		}
	}
}

func (r row) String() string {
	return fmt.Sprintf("{sa:%s sb:%s _default:%s}", ps(r[0]), ps(r[1]), ps(r[2]))
}

func ps(p launch.ACLPerm) string {
	if p == 0 {
		return "-"
	}
	return p.String()
}

// model: the documented precedence.
func decide(user, def *row, scope launch.ACLScope) (decider string, perm launch.ACLPerm) {
	idx := -1
	for k, s := range scopes {
		if s == scope {
			idx = k
		}
	}
	if user != nil {
		if idx >= 0 && user[idx] != 0 {
			return "user/scope", user[idx]
		}
		if user[2] != 0 {
			return "user/_default", user[2]
		}
	}
	if def != nil {
		if idx >= 0 && def[idx] != 0 {
			return "defaultuser/scope", def[idx]
		}
		if def[2] != 0 {
			return "defaultuser/_default", def[2]
		}
	}
	return "none", 0
}

type table struct {
	U1, U2, Def row
}

func (t table) yaml(u1, u2 string) string {
	var b strings.Builder
	t.Def.yaml(defaultKey, &b)
	t.U1.yaml(u1, &b)
	t.U2.yaml(u2, &b)
	return b.String()
}

type users struct {
	u1, u2, stranger, super string
}

type tally struct {
	decisions, allowed, denied, assignedMismatch, requiredXObserved, requiredXSuperDenied int64
	byDecider                                                                             [5]int64
}

var deciderIdx = map[string]int{"user/scope": 0, "user/_default": 1, "defaultuser/scope": 2, "defaultuser/_default": 3, "none": 4}

// judge asks every question about the loaded table.
func judge(r *vlib.Run, acl *launch.ACL, t table, us users, tl *tally, via string) {
	type who struct {
		name string
		key  string
		row  *row
	}
	u1, u2 := t.U1, t.U2
	ws := []who{{"u1", us.u1, &u1}, {"u2", us.u2, &u2}, {"stranger", us.stranger, nil}}
	for k := range ws {
		if ws[k].row != nil && ws[k].row.empty() {
			ws[k].row = nil // a user without any entry is not in the table
		}
	}
	var def *row
	if !t.Def.empty() {
		d := t.Def
		def = &d
	}
	requireds := []launch.ACLPerm{2, 3, 4, 79}
	for _, w := range ws {
		for _, sc := range []launch.ACLScope{scopes[0], scopes[1], unlisted} {
			decider, perm := decide(w.row, def, sc)
			for _, req := range requireds {
				want := perm != 0 && perm != permX && perm >= req
				assigned, got := acl.Allow(w.key, sc, req)
				atomic.AddInt64(&tl.decisions, 1)
				atomic.AddInt64(&tl.byDecider[deciderIdx[decider]], 1)
				if got {
					atomic.AddInt64(&tl.allowed, 1)
				} else {
					atomic.AddInt64(&tl.denied, 1)
				}
				if got != want {
					kind := "deciding-perm-below-required"
					switch {
					case perm == permX:
						kind = "explicit-prohibit"
					case perm == 0:
						kind = "no-entry"
					case want:
						kind = "deciding-perm-reaches-required"
					}
					r.Violation(fmt.Sprintf("Allow:decider=%s:%s:allowed=%v:want=%v:%s", decider, kind, got, want, via),
						fmt.Sprintf("Allow(%s, %s, required=%s) = (%s, %v); the deciding entry is %s=%s so the statement says allowed=%v; table u1=%s u2=%s _default=%s",
							w.name, sc, req, ps(assigned), got, decider, ps(perm), want, t.U1, t.U2, t.Def),
						map[string]any{"table": t, "yaml": t.yaml(us.u1, us.u2), "user": w.name, "scope": sc, "required": req.String(), "assigned": assigned.String(), "allowed": got, "decider": decider})
				}
				if assigned != perm {
					atomic.AddInt64(&tl.assignedMismatch, 1)
				}
			}
			// required = prohibit is not a request a caller makes (callers ask
			// read=o / write=oo); only the prohibit clause is judged for it
			if perm == permX {
				_, got := acl.Allow(w.key, sc, permX)
				atomic.AddInt64(&tl.requiredXObserved, 1)
				if got {
					r.Violation("Allow:explicit-prohibit-allowed:required=x:"+via,
						fmt.Sprintf("Allow(%s, %s, required=x) allowed although the deciding entry %s is x", w.name, sc, decider),
						map[string]any{"table": t, "user": w.name, "scope": sc})
				}
			}
		}
	}
	// superuser
	for _, sc := range []launch.ACLScope{scopes[0], scopes[1], unlisted} {
		for _, req := range requireds {
			assigned, got := acl.Allow(us.super, sc, req)
			atomic.AddInt64(&tl.decisions, 1)
			if !got {
				r.Violation("Allow:superuser-denied:"+via, fmt.Sprintf("Allow(superuser, %s, required=%s) = (%s, false)", sc, req, ps(assigned)),
					map[string]any{"table": t, "scope": sc, "required": req.String()})
			}
			if assigned != permSuper {
				atomic.AddInt64(&tl.assignedMismatch, 1)
			}
		}
		if _, got := acl.Allow(us.super, sc, permX); !got {
			atomic.AddInt64(&tl.requiredXSuperDenied, 1) // observed, not judged (see assumptions)
		}
	}
}

func TestC35(t *testing.T) {
	r := vlib.Start(t, "C35", vlib.LevelExploration)
	defer r.Finish()
	r.SetRule("case = one ACL table loaded through YAMLACL.Import (users are real public-key strings) and asked every question Allow(user, scope, required); exhaustive: rows u1 and _default each range over all 6^3 assignments of {no entry, x, o, oo, ooo, s} to (scope sa, scope sb, _default), row u2 is a third row varying with the index; asked for users {u1, u2, stranger not in the table, superuser} x scopes {sa, sb, a scope with no entry} x required {o, oo, ooo, s} (+ required=x where the deciding entry is x); distinct = (u1 row, _default row); non-trivial = at least one row has an entry. Then sequences of imports into one YAMLACL; then decisions DURING re-import: an episode = one ACL, 2-4 tables (the three modelled rows + 0..N unrelated users, entries in varying document order: default user first / last / in between, so a user's entry is re-inserted after or before the default user's), one writer goroutine importing them over and over in a seed-fixed order (changed table, identical table, user removed and re-added) while 2-8 reader goroutines call Allow continuously; episode kinds hold fixed the user's own scope entry / the user's own _default / the default user's row / all modelled rows / nothing, everything else varies between the tables; every question (u1, u2, stranger, superuser) x scope x required whose decision by the statement is the same in ALL tables of the episode must get that answer at any time (no timing assumption), the other questions are judged by the writer between two of its own imports; distinct (during-import/...) = (episode kind, #tables, #readers, #entries, deciding levels answered) of episodes where answers were observed while an Import call was open. Last, String/UnmarshalText round trip of every valid perm 1..79")
	r.Assume("while one goroutine replaces the table through YAMLACL.Import the ACL holds, at every moment, either the table imported before or the one being imported: an answer that no table of the episode gives is a decision that does not follow the documented precedence")
	r.Assume("required=x (prohibit) is not a request any caller makes (callers ask ReadAllowACLPerm=o / WriteAllowACLPerm=oo); for it only 'explicit prohibit denies' is judged; the code denies the superuser for required=x, which is counted (required_x_superuser_denied) and not judged")
	r.Assume("the verdict is the allowed flag; the returned assigned perm is compared with the deciding entry and mismatches are only counted (assigned_mismatch)")
	r.Assume("the superuser has no row in the table (Import rejects that)")
	r.Exhaustive(true)

	enc := jsonenc.NewEncoder()
	if err := enc.Add(encoder.DecodeDetail{Hint: base.MPublickeyHint, Instance: &base.MPublickey{}}); err != nil {
		t.Fatal(err)
	}
	key := func(seed string) string {
		k, err := base.NewMPrivatekeyFromSeed("verif-c35-seed-" + seed + "-0123456789abcdef0123456789abcdef")
		if err != nil {
			t.Fatal(err)
		}
		return k.Publickey().String()
	}
	us := users{u1: key("u1"), u2: key("u2"), stranger: key("stranger"), super: key("super")}

	load := func(y *launch.YAMLACL, tb table, via string) bool {
		src := tb.yaml(us.u1, us.u2)
		if _, err := y.Import([]byte(src), enc); err != nil {
			r.Inconclusive(fmt.Sprintf("Import failed (%s): %v\n%s", via, err, src))
			return false
		}
		return true
	}

	// 1. exhaustive tables, fresh ACL each
	var tl tally
	const rows = 216
	vlib.Parallel(rows*rows, 16, func(n int) {
		i, j := n/rows, n%rows
		tb := table{U1: rowOf(i), Def: rowOf(j), U2: rowOf((i*7 + j*13 + 5) % rows)}
		acl, err := launch.NewACL(9, us.super)
		if err != nil {
			r.Inconclusive("NewACL: " + err.Error())
			return
		}
		if !load(launch.NewYAMLACL(acl), tb, "fresh") {
			return
		}
		r.Guard("Allow", tb, func() { judge(r, acl, tb, us, &tl, "fresh-import") })
		if !tb.U1.empty() || !tb.Def.empty() {
			r.Distinct(fmt.Sprintf("%d/%d", i, j))
		}
		if n == 7*rows+100 || n == 40*rows+3 || n == 215*rows+215 {
			r.Sample(map[string]any{"yaml": tb.yaml("<u1>", "<u2>"), "questions": "4 users x 3 scopes x required{o,oo,ooo,s}"})
		}
	})
	r.Set("tables_fresh", rows*rows)

	// 2. u2 as the asking user with all rows, against a subset of default rows (u2 row independent)
	nsub := r.N(2000, 46656)
	vlib.Parallel(nsub, 16, func(n int) {
		rng := r.Rand(2, n)
		tb := table{U1: rowOf(rng.Intn(rows)), U2: rowOf(rng.Intn(rows)), Def: rowOf(rng.Intn(rows))}
		acl, _ := launch.NewACL(9, us.super)
		if !load(launch.NewYAMLACL(acl), tb, "random") {
			return
		}
		r.Guard("Allow", tb, func() { judge(r, acl, tb, us, &tl, "fresh-import") })
	})
	r.Set("tables_random_three_rows", nsub)

	// 3. successive imports into the same ACL: the decision follows the table loaded last
	nseq := r.N(300, 6000)
	var imports int64
	vlib.Parallel(nseq, 16, func(n int) {
		rng := r.Rand(3, n)
		acl, _ := launch.NewACL(9, us.super)
		y := launch.NewYAMLACL(acl)
		var prev *table
		for k := 0; k < 2+rng.Intn(5); k++ {
			tb := table{U1: rowOf(rng.Intn(rows)), U2: rowOf(rng.Intn(rows)), Def: rowOf(rng.Intn(rows))}
			if prev != nil {
				switch rng.Intn(4) {
				case 0: // unchanged table
					tb = *prev
				case 1: // one row changed
					tb = *prev
					tb.U2 = rowOf(rng.Intn(rows))
				case 2: // one row dropped
					tb = *prev
					tb.U1 = row{}
				}
			}
			if tb.U1.empty() && tb.U2.empty() && tb.Def.empty() {
				tb.Def = row{2, 0, 0} // an empty document is "nothing to import", not an empty table
			}
			if !load(y, tb, "re-import") {
				return
			}
			atomic.AddInt64(&imports, 1)
			r.Guard("Allow", tb, func() { judge(r, acl, tb, us, &tl, "re-import") })
			c := tb
			prev = &c
		}
		if n == 0 {
			r.Sample(map[string]any{"phase": "re-import", "last_yaml": prev.yaml("<u1>", "<u2>")})
		}
	})
	r.Set("reimport_sequences", nseq)
	r.Set("reimport_imports", imports)

	// 4. decisions while another goroutine re-imports the ACL (concurrent_test.go)
	concurrentPhase(r, us, key, enc, &tl)

	// 5. text round trip for every valid perm
	for p := 1; p <= 79; p++ {
		perm := launch.ACLPerm(p)
		r.Eval(1)
		if err := perm.IsValid(nil); err != nil {
			r.Violation("ACLPerm:valid-perm-rejected", fmt.Sprintf("ACLPerm(%d).IsValid: %v", p, err), p)
			continue
		}
		s := perm.String()
		b, err := perm.MarshalText()
		if err != nil || string(b) != s {
			r.Violation("ACLPerm:MarshalText-differs-from-String", fmt.Sprintf("ACLPerm(%d): String %q MarshalText %q err %v", p, s, b, err), p)
		}
		var back launch.ACLPerm
		if err := back.UnmarshalText([]byte(s)); err != nil {
			r.Violation("ACLPerm:text-not-parsed", fmt.Sprintf("ACLPerm(%d) prints %q which does not parse: %v", p, s, err), p)
			continue
		}
		if back != perm {
			r.Violation("ACLPerm:text-roundtrip-changed", fmt.Sprintf("ACLPerm(%d) prints %q which parses to %d", p, s, back), p)
		}
		r.Distinct("perm/" + s)
	}
	r.Sample(map[string]any{"roundtrip": []string{launch.ACLPerm(1).String(), launch.ACLPerm(2).String(), launch.ACLPerm(3).String(), launch.ACLPerm(78).String(), launch.ACLPerm(79).String()}})
	r.Set("perms_roundtripped", 79)

	r.Eval(int(tl.decisions))
	r.Set("decisions", tl.decisions)
	r.Set("decisions_allowed", tl.allowed)
	r.Set("decisions_denied", tl.denied)
	r.Set("decisions_by_decider", map[string]int64{"user/scope": tl.byDecider[0], "user/_default": tl.byDecider[1], "defaultuser/scope": tl.byDecider[2], "defaultuser/_default": tl.byDecider[3], "no-entry": tl.byDecider[4]})
	r.Set("assigned_mismatch", tl.assignedMismatch)
	r.Set("required_x_with_deciding_x_asked", tl.requiredXObserved)
	r.Set("required_x_superuser_denied", tl.requiredXSuperDenied)
	if tl.decisions == 0 {
		r.Inconclusive("no decision observed")
	}
}
