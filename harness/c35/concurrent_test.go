package c35

import (
	"fmt"
	"runtime"
	"sort"
	"strings"
	"sync"
	"sync/atomic"
	"time"

	"github.com/spikeekips/mitum/launch"
	"github.com/spikeekips/mitum/util/encoder"
	"verifharness/vlib"
)

// Decisions while the table is being replaced.
//
// A node re-imports its ACL (YAMLACL.Import is the only exported way to change
// a live ACL) while requests are being decided. One episode = one ACL, a short
// list of tables T1..Tk, one writer goroutine importing them again and again
// in a seed-fixed order, 2..8 reader goroutines calling Allow continuously.
// At every moment the ACL holds one of the tables (the one imported last, or
// the one being imported), so for a probe (user, scope, required) whose
// documented decision is THE SAME in every table of the episode every answer
// observed at any time must be that decision; no timing assumption. Probes
// whose decision differs between the tables are judged only by the writer
// itself between two of its own imports (nobody else changes the ACL, so for
// the writer the table is the one it imported last).

// entry ids inside ctable.Order
const (
	entDef = 0
	entU1  = 1
	entU2  = 2
	entF0  = 3 // filler k is entF0+k
)

// ctable = the three modelled rows + unrelated users + the order of the
// entries in the imported document (= the order in which Import inserts them).
type ctable struct {
	table
	Fill  []row
	Order []int
}

func (t ctable) rowOf(ent int) row {
	switch ent {
	case entDef:
		return t.Def
	case entU1:
		return t.U1
	case entU2:
		return t.U2
	default:
		return t.Fill[ent-entF0]
	}
}

func (t ctable) yamlWith(name func(ent int) string) string {
	var b strings.Builder
	for _, ent := range t.Order {
		t.rowOf(ent).yaml(name(ent), &b)
	}
	return b.String()
}

func (t ctable) entries() int {
	n := 0
	for _, ent := range t.Order {
		if !t.rowOf(ent).empty() {
			n++
		}
	}
	return n
}

// position of an entry among the non-empty entries, -1 if absent
func (t ctable) pos(ent int) int {
	n := 0
	for _, e := range t.Order {
		if t.rowOf(e).empty() {
			continue
		}
		if e == ent {
			return n
		}
		n++
	}
	return -1
}

func (t ctable) same(o ctable) bool {
	return t.yamlWith(entName) == o.yamlWith(entName)
}

func entName(ent int) string {
	switch ent {
	case entDef:
		return defaultKey
	case entU1:
		return "<u1>"
	case entU2:
		return "<u2>"
	default:
		return fmt.Sprintf("<filler%d>", ent-entF0)
	}
}

type probe struct {
	who     string // u1, u2, stranger, superuser
	key     string
	scope   launch.ACLScope
	req     launch.ACLPerm
	want    bool
	decider string // the deciding level when it is the same in all tables, else "mixed"
	perm    launch.ACLPerm
	permOK  bool // the deciding entry is the same in all tables
}

// sigDecider uses the names of the statement
func sigDecider(d string) string {
	switch d {
	case "defaultuser/scope":
		return "default/scope"
	case "defaultuser/_default":
		return "default/_default"
	}
	return d
}

var concDeciders = []string{"user/scope", "user/_default", "default/scope", "default/_default", "none", "superuser", "mixed"}

type concTally struct {
	episodes, tables                                             int64
	imports, importsUpdated, importsNotUpdated, importsIdentical int64
	importsOverlapped                                            int64
	answers, answersDuringImport, assignedMismatch               int64
	probesStable, probesUnstable                                 int64
	userAfterDefault, userBeforeDefault, removedThenReadded      int64
	readersMin, readersMax                                       int64
	maxEntries                                                   int64
	byDecider                                                    [7]int64
	byDeciderDuring                                              [7]int64
	mu                                                           sync.Mutex
	kinds                                                        map[string]int
}

var episodeKinds = []string{"user-scope-entry-fixed", "user-default-entry-fixed", "defaultuser-fixed", "all-modelled-rows-fixed", "free"}

// genEpisode builds the tables of one episode. Which rows are held fixed is
// the episode kind; everything else varies from table to table (other users'
// rows, the default user's rows, unrelated users, presence of a user, order
// of the entries in the document).
func genEpisode(r *vlib.Run, n int, nfill int) (kind string, nread int, tabs []ctable) {
	const rows = 216
	rng := r.Rand(5, n)
	kind = episodeKinds[n%len(episodeKinds)]
	nread = 2 + rng.Intn(7)
	k := 2 + rng.Intn(3)
	fills := []int{0, 2, nfill / 2, nfill, nfill}
	nf := fills[rng.Intn(len(fills))]

	nonzero := func() launch.ACLPerm { return cellPerms[1+rng.Intn(5)] }
	base := table{U1: rowOf(rng.Intn(rows)), U2: rowOf(rng.Intn(rows)), Def: rowOf(rng.Intn(rows))}
	switch kind {
	case "user-scope-entry-fixed":
		base.U1[0] = nonzero()
	case "user-default-entry-fixed":
		base.U1[0] = 0
		base.U1[2] = nonzero()
	case "defaultuser-fixed":
		base.Def[0] = nonzero()
		base.Def[2] = nonzero()
	}

	vary := func(prev row) row {
		switch rng.Intn(4) {
		case 0:
			return row{} // the user is removed (re-added by a later table)
		case 1:
			return prev
		default:
			return rowOf(rng.Intn(rows))
		}
	}

	for i := 0; i < k; i++ {
		tb := ctable{table: base, Fill: make([]row, nf)}
		switch kind {
		case "user-scope-entry-fixed", "user-default-entry-fixed":
			tb.U2 = vary(base.U2)
			tb.Def = vary(base.Def)
		case "defaultuser-fixed":
			tb.U1 = vary(base.U1)
			tb.U2 = vary(base.U2)
		case "all-modelled-rows-fixed":
		default:
			tb.U1 = vary(base.U1)
			tb.U2 = vary(base.U2)
			tb.Def = vary(base.Def)
		}
		for f := range tb.Fill {
			tb.Fill[f] = rowOf(1 + rng.Intn(rows-1))
			if rng.Intn(5) == 0 {
				tb.Fill[f] = row{}
			}
		}
		// order of the entries = order of insertion inside Import
		var rest []int
		for e := entU1; e < entF0+nf; e++ {
			rest = append(rest, e)
		}
		rng.Shuffle(len(rest), func(a, b int) { rest[a], rest[b] = rest[b], rest[a] })
		switch rng.Intn(4) {
		case 0: // the default user last: every user is inserted before it
			tb.Order = append(rest, entDef)
		case 1: // anywhere
			at := rng.Intn(len(rest) + 1)
			tb.Order = append(append(append([]int{}, rest[:at]...), entDef), rest[at:]...)
		default: // the usual document: the default user first, users after it
			tb.Order = append([]int{entDef}, rest...)
		}
		if tb.entries() == 0 {
			// an empty document is "nothing to import", not an empty table
			if kind == "user-scope-entry-fixed" || kind == "user-default-entry-fixed" || nf == 0 {
				tb.U2 = row{0, 2, 0}
			} else {
				tb.Fill[0] = row{0, 2, 0}
			}
		}
		tabs = append(tabs, tb)
	}
	return kind, nread, tabs
}

// stableProbes computes, with the model of the statement, every question and
// splits them into those with one decision in all tables and the rest.
func stableProbes(tabs []ctable, us users) (stable []probe, unstable int) {
	requireds := []launch.ACLPerm{2, 3, 4, 79}
	whos := []struct{ name, key string }{{"u1", us.u1}, {"u2", us.u2}, {"stranger", us.stranger}}
	for _, w := range whos {
		for _, sc := range []launch.ACLScope{scopes[0], scopes[1], unlisted} {
			for _, req := range requireds {
				p := probe{who: w.name, key: w.key, scope: sc, req: req, permOK: true}
				ok := true
				for i, tb := range tabs {
					var ur, dr *row
					switch w.name {
					case "u1":
						if !tb.U1.empty() {
							c := tb.U1
							ur = &c
						}
					case "u2":
						if !tb.U2.empty() {
							c := tb.U2
							ur = &c
						}
					}
					if !tb.Def.empty() {
						c := tb.Def
						dr = &c
					}
					decider, perm := decide(ur, dr, sc)
					want := perm != 0 && perm != permX && perm >= req
					if i == 0 {
						p.want, p.decider, p.perm = want, sigDecider(decider), perm
						continue
					}
					if want != p.want {
						ok = false
						break
					}
					if sigDecider(decider) != p.decider {
						p.decider = "mixed"
					}
					if perm != p.perm {
						p.permOK = false
					}
				}
				if !ok {
					unstable++
					continue
				}
				stable = append(stable, p)
			}
		}
	}
	for _, sc := range []launch.ACLScope{scopes[0], scopes[1], unlisted} {
		for _, req := range requireds {
			stable = append(stable, probe{who: "superuser", key: us.super, scope: sc, req: req, want: true, decider: "superuser", perm: permSuper, permOK: true})
		}
	}
	return stable, unstable
}

func deciderIndex(d string) int {
	for i, s := range concDeciders {
		if s == d {
			return i
		}
	}
	return len(concDeciders) - 1
}

// runEpisode: readers + one writer on one ACL. Bounded by operation counts:
// the writer does nimports imports, the readers stop when the writer is done
// (or after maxReaderCalls calls each, whichever comes first).
func runEpisode(r *vlib.Run, n int, nfill, nimports int, us users, fillers []string, enc encoder.Encoder, tl *tally, ct *concTally) {
	const maxReaderCalls = int64(400_000_000)

	kind, nread, tabs := genEpisode(r, n, nfill)
	name := func(ent int) string {
		switch ent {
		case entDef:
			return defaultKey
		case entU1:
			return us.u1
		case entU2:
			return us.u2
		default:
			return fillers[ent-entF0]
		}
	}
	docs := make([][]byte, len(tabs))
	for i, tb := range tabs {
		docs[i] = []byte(tb.yamlWith(name))
	}
	stable, unstable := stableProbes(tabs, us)

	// evidence about the shape of the tables
	var after, before, readd, maxent int64
	for i, tb := range tabs {
		if e := int64(tb.entries()); e > maxent {
			maxent = e
		}
		for _, ent := range []int{entU1, entU2} {
			pu, pd := tb.pos(ent), tb.pos(entDef)
			if pu >= 0 && pd >= 0 {
				if pu > pd {
					after++
				} else {
					before++
				}
			}
			next := tabs[(i+1)%len(tabs)]
			if pu < 0 && next.pos(ent) >= 0 {
				readd++
			}
		}
	}

	acl, err := launch.NewACL(9, us.super)
	if err != nil {
		r.Inconclusive("NewACL: " + err.Error())
		return
	}
	y := launch.NewYAMLACL(acl)
	if _, err := y.Import(docs[0], enc); err != nil {
		r.Inconclusive(fmt.Sprintf("Import failed (concurrent phase, first table): %v\n%s", err, docs[0]))
		return
	}
	cur := 0

	var (
		done      atomic.Bool
		importing atomic.Bool
		passes    atomic.Int64 // completed reader passes over the probe list
		started   atomic.Int64
		wg        sync.WaitGroup
		vmu       sync.Mutex
		reported  = map[string]bool{}
	)
	type rstat struct {
		answers, during, mismatch int64
		byDecider, byDuring       [7]int64
	}
	rstats := make([]rstat, nread)
	dIdx := make([]int, len(stable))
	for i, p := range stable {
		dIdx[i] = deciderIndex(p.decider)
	}

	report := func(p probe, assigned launch.ACLPerm, got, during bool) {
		sig := fmt.Sprintf("Allow:during-import:decider=%s:allowed=%v:want=%v", p.decider, got, p.want)
		vmu.Lock()
		seen := reported[sig]
		reported[sig] = true
		vmu.Unlock()
		if seen {
			return
		}
		var ys []string
		var ts []string
		for _, tb := range tabs {
			ys = append(ys, tb.yamlWith(entName))
			ts = append(ts, fmt.Sprintf("u1=%s u2=%s _default=%s", tb.U1, tb.U2, tb.Def))
		}
		r.Violation(sig,
			fmt.Sprintf("Allow(%s, %s, required=%s) = (%s, %v) while another goroutine was re-importing the ACL; the statement gives allowed=%v in EVERY table the ACL held during the episode (deciding level %s, deciding entry %s), so no table explains the answer; tables: %s",
				p.who, p.scope, p.req, ps(assigned), got, p.want, p.decider, ps(p.perm), strings.Join(ts, " | ")),
			map[string]any{"episode": n, "kind": kind, "readers": nread, "tables_yaml": ys, "user": p.who, "scope": p.scope, "required": p.req.String(),
				"assigned": assigned.String(), "allowed": got, "want": p.want, "decider": p.decider, "import_call_open_when_answer_returned": during})
	}

	for g := 0; g < nread; g++ {
		wg.Add(1)
		go func(g int) {
			defer wg.Done()
			st := &rstats[g]
			first := true
			r.Guard("Allow:during-import", map[string]any{"episode": n, "kind": kind}, func() {
				off := g * 7 // readers start at different probes
				for !done.Load() && st.answers < maxReaderCalls {
					for i := range stable {
						j := (i + off) % len(stable)
						p := &stable[j]
						assigned, got := acl.Allow(p.key, p.scope, p.req)
						during := importing.Load()
						st.answers++
						st.byDecider[dIdx[j]]++
						if during {
							st.during++
							st.byDuring[dIdx[j]]++
						}
						if got != p.want {
							report(*p, assigned, got, during)
						}
						if p.permOK && assigned != p.perm {
							st.mismatch++
						}
					}
					passes.Add(1)
					runtime.Gosched() // more goroutines than processors: let the writer run
					if first {
						first = false
						started.Add(1)
					}
				}
			})
			if first {
				started.Add(1) // never block the writer on a reader that ended early
			}
		}(g)
	}

	var imports, updatedN, notUpdated, identical, overlapped int64
	wrng := r.Rand(6, n)
	r.Guard("Import:concurrent-with-Allow", map[string]any{"episode": n, "kind": kind}, func() {
		// every reader has answered at least once before the first re-import
		for started.Load() < int64(nread) {
			runtime.Gosched()
		}
		for k := 0; k < nimports; k++ {
			next := (cur + 1 + wrng.Intn(len(tabs))) % len(tabs) // == cur with chance 1/len: identical table
			if len(tabs) > 1 && k%2 == 0 && next == cur {
				next = (cur + 1) % len(tabs)
			}
			same := tabs[next].same(tabs[cur])
			p0 := passes.Load()
			importing.Store(true)
			updated, err := y.Import(docs[next], enc)
			importing.Store(false)
			if passes.Load() > p0 {
				overlapped++
			}
			if err != nil {
				r.Inconclusive(fmt.Sprintf("Import failed (concurrent phase): %v\n%s", err, docs[next]))
				return
			}
			imports++
			if updated {
				updatedN++
			} else {
				notUpdated++
			}
			if same {
				identical++
			}
			cur = next
			// quiescent for the writer: nobody else changes the ACL
			judge(r, acl, tabs[cur].table, us, tl, "between-imports-with-concurrent-readers")
		}
	})
	done.Store(true)
	wg.Wait()
	r.Guard("Allow", tabs[cur].table, func() { judge(r, acl, tabs[cur].table, us, tl, "after-concurrent-imports") })

	var answers, during, mismatch int64
	var byD, byDD [7]int64
	for g := range rstats {
		answers += rstats[g].answers
		during += rstats[g].during
		mismatch += rstats[g].mismatch
		for i := range byD {
			byD[i] += rstats[g].byDecider[i]
			byDD[i] += rstats[g].byDuring[i]
		}
	}
	var ds []string
	for i, c := range byD {
		if c > 0 {
			ds = append(ds, concDeciders[i])
		}
	}
	sort.Strings(ds)
	r.Eval(int(answers))
	if during > 0 {
		r.Distinct(fmt.Sprintf("during-import/%s/tables=%d/readers=%d/entries=%d/deciders=%s", kind, len(tabs), nread, maxent, strings.Join(ds, ",")))
	}
	r.SetAdd("concurrent_episode_shapes", fmt.Sprintf("%s/%d/%d/%d", kind, len(tabs), nread, maxent))

	ct.mu.Lock()
	defer ct.mu.Unlock()
	ct.episodes++
	ct.tables += int64(len(tabs))
	ct.imports += imports
	ct.importsUpdated += updatedN
	ct.importsNotUpdated += notUpdated
	ct.importsIdentical += identical
	ct.importsOverlapped += overlapped
	ct.answers += answers
	ct.answersDuringImport += during
	ct.assignedMismatch += mismatch
	ct.probesStable += int64(len(stable))
	ct.probesUnstable += int64(unstable)
	ct.userAfterDefault += after
	ct.userBeforeDefault += before
	ct.removedThenReadded += readd
	if ct.readersMin == 0 || int64(nread) < ct.readersMin {
		ct.readersMin = int64(nread)
	}
	if int64(nread) > ct.readersMax {
		ct.readersMax = int64(nread)
	}
	if maxent > ct.maxEntries {
		ct.maxEntries = maxent
	}
	for i := range byD {
		ct.byDecider[i] += byD[i]
		ct.byDeciderDuring[i] += byDD[i]
	}
	if ct.kinds == nil {
		ct.kinds = map[string]int{}
	}
	ct.kinds[kind]++
	if n < 2 {
		var ys []string
		for _, tb := range tabs {
			ys = append(ys, tb.yamlWith(entName))
		}
		r.Sample(map[string]any{"phase": "decisions during re-import", "kind": kind, "readers": nread, "imports": imports,
			"tables_yaml": ys, "probes_with_one_decision_in_all_tables": len(stable), "probes_judged_only_between_imports": unstable,
			"answers": answers, "answers_while_import_call_open": during})
	}
}

// concurrentPhase drives the episodes and writes the evidence counters.
func concurrentPhase(r *vlib.Run, us users, key func(string) string, enc encoder.Encoder, tl *tally) {
	nepisodes := r.N(40, 400)
	nimports := r.N(75, 200)
	nfill := r.N(12, 40)
	workers := 4

	fillers := make([]string, nfill)
	for i := range fillers {
		fillers[i] = key(fmt.Sprintf("filler-%d", i))
	}

	var ct concTally
	t0 := time.Now()
	ok := r.WithWatchdog(time.Duration(r.N(40, 120))*time.Minute, "decisions during re-import", func() {
		vlib.Parallel(nepisodes, workers, func(n int) {
			runEpisode(r, n, nfill, nimports, us, fillers, enc, tl, &ct)
		})
	})
	if !ok {
		return
	}

	ct.mu.Lock()
	defer ct.mu.Unlock()
	r.Set("concurrent_phase_wall_s", time.Since(t0).Seconds()) // evidence only, never part of a verdict
	r.Set("concurrent_episodes", ct.episodes)
	r.Set("concurrent_episode_kinds", ct.kinds)
	r.Set("concurrent_tables", ct.tables)
	r.Set("concurrent_table_max_entries", ct.maxEntries)
	r.Set("concurrent_readers_min_max", []int64{ct.readersMin, ct.readersMax})
	r.Set("concurrent_imports", ct.imports)
	r.Set("concurrent_imports_updated", ct.importsUpdated)
	r.Set("concurrent_imports_not_updated", ct.importsNotUpdated)
	r.Set("concurrent_imports_of_identical_table", ct.importsIdentical)
	r.Set("concurrent_imports_with_reader_pass_completed_inside", ct.importsOverlapped)
	r.Set("concurrent_answers_judged", ct.answers)
	r.Set("concurrent_answers_while_import_call_open", ct.answersDuringImport)
	r.Set("concurrent_assigned_mismatch", ct.assignedMismatch)
	r.Set("concurrent_probes_one_decision_in_all_tables", ct.probesStable)
	r.Set("concurrent_probes_judged_only_between_imports", ct.probesUnstable)
	r.Set("concurrent_tables_user_inserted_after_defaultuser", ct.userAfterDefault)
	r.Set("concurrent_tables_user_inserted_before_defaultuser", ct.userBeforeDefault)
	r.Set("concurrent_user_removed_then_readded", ct.removedThenReadded)
	by, byd := map[string]int64{}, map[string]int64{}
	for i, d := range concDeciders {
		by[d] = ct.byDecider[i]
		byd[d] = ct.byDeciderDuring[i]
	}
	r.Set("concurrent_answers_by_decider", by)
	r.Set("concurrent_answers_while_import_call_open_by_decider", byd)
	if ct.answersDuringImport == 0 || ct.importsOverlapped == 0 {
		r.Inconclusive("no Allow answer was observed while an Import call was open: the concurrent phase observed nothing that could refute the property")
	}
}
