package c36

import (
	"context"
	"encoding/json"
	"fmt"
	"hash/fnv"
	"net"
	"sort"
	"strconv"
	"strings"
	"sync"
	"testing"
	"time"

	"github.com/spikeekips/mitum/base"
	isaacnetwork "github.com/spikeekips/mitum/isaac/network"
	"github.com/spikeekips/mitum/launch"
	"github.com/spikeekips/mitum/util"
	"github.com/spikeekips/mitum/util/valuehash"
	"golang.org/x/time/rate"
	"verifharness/vlib"
)

// ---------------------------------------------------------------------------
// rule values

type ruleSpec struct {
	Kind  string        `json:"kind"` // normal | nolimit | zero
	Burst int           `json:"burst,omitempty"`
	D     time.Duration `json:"per,omitempty"`
}

func (s ruleSpec) rule() launch.RateLimiterRule {
	switch s.Kind {
	case "nolimit":
		return launch.NoLimitRateLimiterRule()
	case "zero":
		return launch.LimitRateLimiterRule()
	default:
		return launch.NewRateLimiterRule(s.D, s.Burst)
	}
}

// text the handler reports for a limiter (same arithmetic as the repo's
// humanizeRateLimiter, on the exported Limit/Burst of the rule)
func (s ruleSpec) text() string {
	ru := s.rule()
	switch {
	case ru.Limit == rate.Inf:
		return "nolimit"
	case ru.Limit == 0, ru.Burst < 1:
		return "0"
	default:
		return fmt.Sprintf("%d/%s", ru.Burst, time.Duration(float64(ru.Burst)/float64(ru.Limit)*float64(time.Second)).String())
	}
}

func (s ruleSpec) String() string {
	if s.Kind != "normal" {
		return s.Kind
	}
	return fmt.Sprintf("%d/%s", s.Burst, s.D)
}

type ruleMapSpec struct {
	D *ruleSpec           `json:"default,omitempty"`
	M map[string]ruleSpec `json:"handlers,omitempty"`
}

func (m ruleMapSpec) real() launch.RateLimiterRuleMap {
	var d *launch.RateLimiterRule
	if m.D != nil {
		x := m.D.rule()
		d = &x
	}
	var mm map[string]launch.RateLimiterRule
	if m.M != nil {
		mm = map[string]launch.RateLimiterRule{}
		for k, v := range m.M {
			mm[k] = v.rule()
		}
	}
	return launch.NewRateLimiterRuleMap(d, mm)
}

func (m ruleMapSpec) resolve(handler string) (ruleSpec, bool) {
	if v, ok := m.M[handler]; ok {
		return v, true
	}
	if m.D != nil {
		return *m.D, true
	}
	return ruleSpec{}, false
}

func (m ruleMapSpec) empty() bool { return m.D == nil && len(m.M) < 1 }

var (
	builtinDefault  = ruleSpec{Kind: "normal", Burst: 33, D: 3 * time.Second}
	builtinSuffrage = ruleSpec{Kind: "normal", Burst: 900, D: 3 * time.Second}
)

// ---------------------------------------------------------------------------
// configuration = what the operator set (the model side of the rule sets)

type netRule struct {
	IPNet string      `json:"ipnet"`
	Map   ruleMapSpec `json:"rules"`
	ipnet *net.IPNet
}

type config struct {
	ClientID   map[string]ruleMapSpec `json:"clientid,omitempty"` // nil = no rule set
	Nets       []netRule              `json:"nets,omitempty"`
	netsSet    bool
	Nodes      map[string]ruleMapSpec `json:"nodes,omitempty"`
	Suffrage   *ruleMapSpec           `json:"suffrage,omitempty"` // nil = the built-in suffrage rule set
	DefaultMap *ruleMapSpec           `json:"defaultmap,omitempty"`
}

type want struct {
	Type string
	Rule ruleSpec
	Desc string
}

// precedence stated by the property
func (c *config) want(ip net.IP, handler, cid string, node base.Address, inConsensus func(string) bool) want {
	if c.ClientID != nil && cid != "" {
		if m, ok := c.ClientID[cid]; ok {
			if ru, ok := m.resolve(handler); ok {
				return want{"clientid", ru, fmt.Sprintf(`{"client_id":%q}`, cid)}
			}
		}
	}
	if c.netsSet {
		for _, n := range c.Nets {
			if n.ipnet.Contains(ip) {
				// every generated net rule map resolves for every handler
				ru, _ := n.Map.resolve(handler)
				return want{"net", ru, fmt.Sprintf(`{"net":%q}`, n.ipnet)}
			}
		}
	}
	if node != nil && c.Nodes != nil {
		if m, ok := c.Nodes[node.String()]; ok {
			if ru, ok := m.resolve(handler); ok {
				return want{"node", ru, ""}
			}
		}
	}
	if node != nil && inConsensus(node.String()) {
		switch {
		case c.Suffrage == nil:
			return want{"suffrage", builtinSuffrage, ""}
		case !c.Suffrage.empty():
			if ru, ok := c.Suffrage.resolve(handler); ok {
				return want{"suffrage", ru, ""}
			}
		}
	}
	if c.DefaultMap == nil {
		return want{"defaultmap", builtinDefault, ""}
	}
	if ru, ok := c.DefaultMap.resolve(handler); ok {
		return want{"defaultmap", ru, ""}
	}
	return want{"default", builtinDefault, ""}
}

// ---------------------------------------------------------------------------
// stream description

type reqSpec struct {
	Addr      int    `json:"addr"`
	Handler   string `json:"handler"`
	CID       string `json:"client_id,omitempty"`
	Challenge bool   `json:"node_challenge,omitempty"` // inner handler reports the challenged node (real AddNode path)
}

type event struct {
	Kind string `json:"kind"` // addnode | set-clientid | set-nets | set-nodes | set-suffrage | set-defaultmap | consensus
	Addr int    `json:"addr,omitempty"`
	Node int    `json:"node,omitempty"`
	In   bool   `json:"in,omitempty"`
	// new value for set-*
	ClientID   map[string]ruleMapSpec `json:"clientid,omitempty"`
	Nets       []netRule              `json:"nets,omitempty"`
	Nodes      map[string]ruleMapSpec `json:"nodes,omitempty"`
	Suffrage   *ruleMapSpec           `json:"suffrage,omitempty"`
	DefaultMap *ruleMapSpec           `json:"defaultmap,omitempty"`
	Unset      bool                   `json:"unset,omitempty"`
}

type phase struct {
	Goroutines int       `json:"goroutines"` // 1 = sequential
	Reqs       []reqSpec `json:"requests"`
	After      []event   `json:"then,omitempty"`
}

type stream struct {
	Name      string   `json:"name"`
	Cfg       config   `json:"initial_rules"`
	Addrs     []string `json:"addrs"`
	NodeOf    []int    `json:"node_of_addr"` // node index that answers node challenges from this addr
	Consensus []int    `json:"consensus_nodes"`
	Phases    []phase  `json:"phases"`
}

var handlers = []string{"hA", "hB"}

var testNodes = func() []base.Address {
	var l []base.Address
	for i := 0; i < 4; i++ {
		l = append(l, base.NewStringAddress(fmt.Sprintf("verifc36node%d", i)))
	}
	return l
}()

func udp(s string) *net.UDPAddr {
	a, err := net.ResolveUDPAddr("udp", s)
	if err != nil {
		panic(err)
	}
	a.IP = a.IP.To4()
	return a
}

// ---------------------------------------------------------------------------
// observation

type obs struct {
	Req      reqSpec `json:"request"`
	G        int     `json:"goroutine"`
	Tb, Ta   int64   // ns since stream start: before the call / after the reply
	Allowed  bool    `json:"allowed"`
	Type     string  `json:"ruleset_type"`
	Desc     string  `json:"ruleset_desc"`
	Limiter  string  `json:"limiter"`
	epoch    int
	phase    int
	hasRes   bool
	errOther string
}

func doRequest(h *launch.RateLimitHandler, start time.Time, addr *net.UDPAddr, q reqSpec, node base.Address) obs {
	o := obs{Req: q}
	ctx := context.WithValue(context.Background(), launch.RateLimiterLimiterNameContextKey, q.Handler)
	if q.CID != "" {
		ctx = context.WithValue(ctx, launch.RateLimiterClientIDContextKey, q.CID)
	}
	called := false
	o.Tb = int64(time.Since(start))
	rctx, err := h.Func(ctx, addr, func(ctx context.Context) (context.Context, error) {
		called = true
		if q.Challenge && node != nil {
			return context.WithValue(ctx, isaacnetwork.ContextKeyNodeChallengedNode, node), nil
		}
		return ctx, nil
	})
	o.Ta = int64(time.Since(start))
	o.Allowed = called
	if err != nil && called {
		o.errOther = err.Error()
	}
	if rctx != nil {
		if f, ok := rctx.Value(launch.RateLimiterResultContextKey).(func() launch.RateLimiterResult); ok {
			res := f()
			o.hasRes = true
			o.Type, o.Desc, o.Limiter = res.RulesetType, res.RulesetDesc, res.Limiter
			if res.Allowed != called {
				o.errOther = fmt.Sprintf("result.Allowed=%v but inner handler called=%v", res.Allowed, called)
			}
		}
	}
	return o
}

// parse "burst/duration" reported by the handler
func parseLimiter(s string) (kind string, burst int, perSec float64, ok bool) {
	switch s {
	case "nolimit":
		return "nolimit", 0, 0, true
	case "0":
		return "zero", 0, 0, true
	}
	i := strings.Index(s, "/")
	if i < 0 {
		return "", 0, 0, false
	}
	b, err := strconv.Atoi(s[:i])
	if err != nil {
		return "", 0, 0, false
	}
	d, err := time.ParseDuration(s[i+1:])
	if err != nil || d <= 0 {
		return "", 0, 0, false
	}
	return "normal", b, float64(b) / d.Seconds(), true
}

// ---------------------------------------------------------------------------
// running one stream against the real handler

type runner struct {
	r  *vlib.Run
	st *stream

	h     *launch.RateLimitHandler
	rules *launch.RateLimiterRules
	cfg   config

	mu        sync.Mutex // consensus set, read by the rule sets from request goroutines
	consensus map[string]bool
	stver     int

	nodeOf map[int]base.Address // model: node bound to addr (first AddNode wins)
	seen   map[int]bool         // addr has a pool entry

	addrs []*net.UDPAddr
	all   []obs
	cnt   map[string]int
	start time.Time
	soft  []softEvent
}

func (x *runner) inConsensus(n string) bool {
	x.mu.Lock()
	defer x.mu.Unlock()
	return x.consensus[n]
}

func (x *runner) applyClientID() {
	if x.cfg.ClientID == nil {
		_ = x.rules.SetClientIDRuleSet(nil)
		return
	}
	m := map[string]launch.RateLimiterRuleMap{}
	for k, v := range x.cfg.ClientID {
		m[k] = v.real()
	}
	_ = x.rules.SetClientIDRuleSet(launch.NewClientIDRateLimiterRuleSet(m))
}

func (x *runner) applyNets() {
	if !x.cfg.netsSet {
		_ = x.rules.SetNetRuleSet(nil)
		return
	}
	rs := launch.NewNetRateLimiterRuleSet()
	for i := range x.cfg.Nets {
		n := &x.cfg.Nets[i]
		if n.ipnet == nil {
			_, ipn, err := net.ParseCIDR(n.IPNet)
			if err != nil {
				panic(err)
			}
			n.ipnet = ipn
		}
		rs.Add(n.ipnet, n.Map.real())
	}
	_ = x.rules.SetNetRuleSet(rs)
}

func (x *runner) applyNodes() {
	if x.cfg.Nodes == nil {
		_ = x.rules.SetNodeRuleSet(nil)
		return
	}
	m := map[string]launch.RateLimiterRuleMap{}
	for k, v := range x.cfg.Nodes {
		m[k] = v.real()
	}
	_ = x.rules.SetNodeRuleSet(launch.NewNodeRateLimiterRuleSet(m))
}

func (x *runner) applySuffrage() {
	if x.cfg.Suffrage == nil {
		return // built-in rule set installed by NewRateLimiterRules
	}
	_ = x.rules.SetSuffrageRuleSet(launch.NewSuffrageRateLimiterRuleSet(x.cfg.Suffrage.real()))
}

func (x *runner) applyDefaultMap() {
	if x.cfg.DefaultMap == nil {
		return
	}
	_ = x.rules.SetDefaultRuleMap(x.cfg.DefaultMap.real())
}

func newRunner(r *vlib.Run, st *stream) (*runner, error) {
	x := &runner{r: r, st: st, cfg: st.Cfg, consensus: map[string]bool{}, nodeOf: map[int]base.Address{}, seen: map[int]bool{}, cnt: map[string]int{}}
	x.cfg.netsSet = st.Cfg.Nets != nil
	for _, a := range st.Addrs {
		x.addrs = append(x.addrs, udp(a))
	}
	for _, n := range st.Consensus {
		x.consensus[testNodes[n].String()] = true
	}
	x.rules = launch.NewRateLimiterRules()
	x.rules.SetIsInConsensusNodesFunc(func() (util.Hash, func(base.Address) bool, error) {
		x.mu.Lock()
		st := valuehash.NewSHA256([]byte(fmt.Sprintf("suffrage-state-%d", x.stver)))
		x.mu.Unlock()
		return st, func(a base.Address) bool { return x.inConsensus(a.String()) }, nil
	})
	x.applyClientID()
	x.applyNets()
	x.applyNodes()
	x.applySuffrage()
	x.applyDefaultMap()
	args := launch.NewRateLimitHandlerArgs()
	args.Rules = x.rules
	h, err := launch.NewRateLimitHandler(args) // the shrink daemon is not started: no address expires in a stream
	if err != nil {
		return nil, err
	}
	x.h = h
	return x, nil
}

func (x *runner) applyEvent(e event) {
	x.cnt["event_"+e.Kind]++
	switch e.Kind {
	case "addnode":
		created := x.h.AddNode(x.addrs[e.Addr], testNodes[e.Node])
		if _, bound := x.nodeOf[e.Addr]; !bound && x.seen[e.Addr] {
			x.nodeOf[e.Addr] = testNodes[e.Node]
			if !created {
				x.cnt["addnode_not_created_unexpected"]++
			}
		}
	case "consensus":
		x.mu.Lock()
		x.consensus[testNodes[e.Node].String()] = e.In
		x.stver++
		x.mu.Unlock()
	case "set-clientid":
		x.cfg.ClientID = e.ClientID
		if e.Unset {
			x.cfg.ClientID = nil
		}
		x.applyClientID()
	case "set-nets":
		x.cfg.Nets, x.cfg.netsSet = e.Nets, !e.Unset
		x.applyNets()
	case "set-nodes":
		x.cfg.Nodes = e.Nodes
		if e.Unset {
			x.cfg.Nodes = nil
		}
		x.applyNodes()
	case "set-suffrage":
		x.cfg.Suffrage = e.Suffrage
		x.applySuffrage()
	case "set-defaultmap":
		x.cfg.DefaultMap = e.DefaultMap
		x.applyDefaultMap()
	// soft events: no rule, member or node binding changes
	case "statehash": // the suffrage state hash changes, members unchanged
		x.mu.Lock()
		x.stver++
		x.mu.Unlock()
	case "reset-clientid": // an identical rule set is set again
		x.applyClientID()
	case "reset-nets":
		x.applyNets()
	case "reset-nodes":
		x.applyNodes()
	case "reset-suffrage":
		x.applySuffrage()
	case "reset-defaultmap":
		x.applyDefaultMap()
	}
	if isSoft(e.Kind) {
		x.soft = append(x.soft, softEvent{int64(time.Since(x.start)), e.Kind})
	}
}

// soft events leave every rule, the consensus members and the node bindings
// as they are; the rule serving a request stays the same rule, so they do not
// start a new enforcement window.
func isSoft(kind string) bool { return kind == "statehash" || strings.HasPrefix(kind, "reset-") }

type softEvent struct {
	t    int64
	kind string
}

type keyState struct {
	has     bool
	lastCID string
	events  []string // kinds of configuration events since the previous request on this key
}

func (x *runner) run() {
	r := x.r
	start := time.Now()
	x.start = start
	epoch := 0
	keys := map[string]*keyState{}
	order := fnv.New64a()

	for pi, ph := range x.st.Phases {
		G := ph.Goroutines
		if G < 1 {
			G = 1
		}
		res := make([][]obs, G)
		var wg sync.WaitGroup
		for g := 0; g < G; g++ {
			g := g
			wg.Add(1)
			go func() {
				defer wg.Done()
				for k := g; k < len(ph.Reqs); k += G {
					q := ph.Reqs[k]
					var node base.Address
					if q.Challenge && x.st.NodeOf[q.Addr] >= 0 {
						node = testNodes[x.st.NodeOf[q.Addr]]
					}
					o := doRequest(x.h, start, x.addrs[q.Addr], q, node)
					o.G, o.epoch, o.phase = g, epoch, pi
					res[g] = append(res[g], o)
				}
			}()
		}
		wg.Wait()

		var merged []obs
		for g := range res {
			merged = append(merged, res[g]...)
		}
		sort.SliceStable(merged, func(a, b int) bool { return merged[a].Tb < merged[b].Tb })
		for _, o := range merged {
			fmt.Fprintf(order, "%d", o.G)
		}

		// selection oracle: the configuration is constant during a phase; in a
		// sequential phase a node challenge answered by a request takes effect
		// after that request.
		for _, o := range merged {
			q := o.Req
			key := fmt.Sprintf("%d/%s", q.Addr, q.Handler)
			ks := keys[key]
			if ks == nil {
				ks = &keyState{}
				keys[key] = ks
			}
			w := x.cfg.want(x.addrs[q.Addr].IP, q.Handler, q.CID, x.nodeOf[q.Addr], x.inConsensus)
			x.cnt["requests"]++
			x.cnt["want_"+w.Type]++
			if o.Allowed {
				x.cnt["allowed"]++
			} else {
				x.cnt["denied"]++
			}
			if q.CID != "" {
				x.cnt["requests_with_client_id"]++
			}
			switch {
			case o.errOther != "":
				r.Violation("handler:inconsistent-reply", o.errOther, map[string]any{"stream": x.st, "observed": o})
			case !o.hasRes:
				r.Violation("handler:no-result-in-context", "RateLimitHandler.Func put no RateLimiterResult into the context", map[string]any{"stream": x.st, "observed": o})
			case o.Type != w.Type || o.Limiter != w.Rule.text():
				after := "none"
				switch {
				case !ks.has:
					after = "first-request"
				case ks.lastCID != q.CID && len(ks.events) > 0:
					after = "client-id-change+" + strings.Join(uniq(ks.events), "+")
				case ks.lastCID != q.CID:
					after = "client-id-change"
				case len(ks.events) > 0:
					after = strings.Join(uniq(ks.events), "+")
				}
				detail := ""
				if o.Type == w.Type {
					detail = ":other-rule-of-same-type"
				}
				r.Violation(fmt.Sprintf("select:want=%s:got=%s%s", w.Type, o.Type, detail),
					fmt.Sprintf("request addr=%s handler=%s client_id=%q node=%v was served by ruleset %q limiter %s (%s); precedence says %q rule %s (%s) [stream %s phase %d; since the previous request of this addr+handler: %s]",
						x.st.Addrs[q.Addr], q.Handler, q.CID, x.nodeOf[q.Addr], o.Type, o.Limiter, o.Desc, w.Type, w.Rule.text(), w.Desc, x.st.Name, pi, after),
					map[string]any{"stream": x.st, "phase": pi, "observed": o, "want_type": w.Type, "want_limiter": w.Rule.text(), "after": after})
			default:
				x.cnt["selection_ok"]++
				if o.Desc != w.Desc {
					x.cnt["desc_mismatch"]++
				}
			}
			ks.has, ks.lastCID, ks.events = true, q.CID, nil
			x.seen[q.Addr] = true
			o.epoch = epoch
			x.all = append(x.all, o)
			// real AddNode path
			if o.Allowed && q.Challenge && x.st.NodeOf[q.Addr] >= 0 {
				if _, bound := x.nodeOf[q.Addr]; !bound {
					x.nodeOf[q.Addr] = testNodes[x.st.NodeOf[q.Addr]]
					x.cnt["event_addnode_by_challenge"]++
					epoch++ // (only in sequential phases, see generator)
					for _, k := range keys {
						k.events = append(k.events, "addnode")
					}
				}
			}
		}

		for _, e := range ph.After {
			x.applyEvent(e)
			for _, k := range keys {
				k.events = append(k.events, e.Kind)
			}
		}
		for _, e := range ph.After {
			if !isSoft(e.Kind) {
				epoch++
				break
			}
		}
	}
	r.SetAdd("interleavings_seen", fmt.Sprintf("%x", order.Sum64()))
	x.enforcement()
}

func uniq(l []string) []string {
	m := map[string]bool{}
	var o []string
	for _, s := range l {
		if !m[s] {
			m[s] = true
			o = append(o, s)
		}
	}
	sort.Strings(o)
	return o
}

// enforcement: within one configuration epoch, all requests of one
// (addr, handler) that the handler itself reports as served under the same
// rule (type, desc, limiter) are limited by that rule: for every window,
// allowed <= burst + rate*window (+1). The window is over-estimated (from
// before the first call to after the last reply), so load only loosens it.
func (x *runner) enforcement() {
	r := x.r
	type gk struct {
		epoch              int
		addr               int
		handler            string
		typ, desc, limiter string
	}
	groups := map[gk][]obs{}
	perKey := map[string][]obs{} // epoch/addr/handler -> all observations (to see rule switches)
	for _, o := range x.all {
		if !o.hasRes {
			continue
		}
		k := gk{o.epoch, o.Req.Addr, o.Req.Handler, o.Type, o.Desc, o.Limiter}
		groups[k] = append(groups[k], o)
		pk := fmt.Sprintf("%d/%d/%s", o.epoch, o.Req.Addr, o.Req.Handler)
		perKey[pk] = append(perKey[pk], o)
	}
	for k, l := range groups {
		kind, burst, perSec, ok := parseLimiter(k.limiter)
		if !ok {
			r.Violation("enforce:unparsable-limiter-text", fmt.Sprintf("limiter text %q", k.limiter), map[string]any{"stream": x.st})
			continue
		}
		x.cnt["enforcement_groups"]++
		var allowed []obs
		for _, o := range l {
			if o.Allowed {
				allowed = append(allowed, o)
			}
		}
		switch kind {
		case "nolimit":
			x.cnt["nolimit_requests"] += len(l)
			x.cnt["nolimit_denied"] += len(l) - len(allowed) // observed only: the statement bounds from above
			continue
		case "zero":
			x.cnt["zero_rate_requests"] += len(l)
			if len(allowed) > 0 {
				r.Violation("enforce:zero-rate-rule-allowed", fmt.Sprintf("%d request(s) allowed under a rule with rate 0 / burst 0 (%s %s) [stream %s]", len(allowed), k.typ, k.desc, x.st.Name),
					map[string]any{"stream": x.st, "group": l})
			}
			continue
		}
		sort.SliceStable(allowed, func(a, b int) bool { return allowed[a].Tb < allowed[b].Tb })
		if len(allowed) > x.cnt["max_allowed_in_group"] {
			x.cnt["max_allowed_in_group"] = len(allowed)
		}
		if len(l) > len(allowed) {
			x.cnt["groups_with_denials"]++
		}
		pk := perKey[fmt.Sprintf("%d/%d/%s", k.epoch, k.addr, k.handler)]
	scan:
		for i := range allowed {
			maxTa := int64(0)
			for j := i; j < len(allowed); j++ {
				if allowed[j].Ta > maxTa {
					maxTa = allowed[j].Ta
				}
				count := float64(j - i + 1)
				win := float64(maxTa-allowed[i].Tb) / 1e9
				bound := float64(burst) + perSec*win + 1
				if count <= bound {
					continue
				}
				// how many requests of the same addr+handler were served under
				// another rule inside the window (each can have re-created the limiter)
				switches := 0
				for _, o := range pk {
					if (o.Type != k.typ || o.Desc != k.desc || o.Limiter != k.limiter) && o.Ta >= allowed[i].Tb && o.Tb <= maxTa {
						switches++
					}
				}
				var softKinds []string
				for _, e := range x.soft {
					if e.t >= allowed[i].Tb && e.t <= maxTa {
						softKinds = append(softKinds, e.kind)
					}
				}
				sig := "enforce:allowed-exceeds-burst+rate*window:single-rule-run"
				why := "no request under another rule in between"
				if len(softKinds) > 0 {
					sig = "enforce:allowed-exceeds-burst+rate*window:bucket-refilled-while-rule-unchanged:after=" + strings.Join(uniq(softKinds), "+")
					why = fmt.Sprintf("the rule serving these requests did not change; in between only: %v (suffrage state hash changed with the same members / an identical rule set was set again)", softKinds)
				}
				if switches > 0 && count <= float64(switches+1)*float64(burst)+perSec*win+1 {
					sig = "enforce:allowed-exceeds-burst+rate*window:bucket-refilled-by-interleaved-requests-under-another-rule"
					why = fmt.Sprintf("%d request(s) from the same address to the same handler were served under another rule in between (e.g. with / without a client id); each switch gave this rule a full burst again", switches)
				}
				r.Violation(sig,
					fmt.Sprintf("addr=%s handler=%s rule %s %s limiter %s: %.0f requests allowed within %.6fs, bound burst+rate*window+1 = %.3f; %s [stream %s]",
						x.st.Addrs[k.addr], k.handler, k.typ, k.desc, k.limiter, count, win, bound, why, x.st.Name),
					map[string]any{"stream": x.st, "addr": x.st.Addrs[k.addr], "handler": k.handler, "ruleset_type": k.typ, "ruleset_desc": k.desc, "limiter": k.limiter,
						"allowed_in_window": count, "window_s": win, "bound": bound, "rule_switches_in_window": switches, "requests_of_addr_handler_in_epoch": pk})
				break scan
			}
		}
	}
}

// ---------------------------------------------------------------------------
// generation

type gen struct {
	rng interface {
		Intn(int) int
	}
	n int // rule counter: every drawn rule value is distinct within a stream
}

func (g *gen) ruleV() ruleSpec {
	g.n++
	switch x := g.rng.Intn(20); {
	case x == 0:
		return ruleSpec{Kind: "nolimit"}
	case x == 1:
		return ruleSpec{Kind: "zero"}
	case x < 5: // fast refill
		b := 1 + g.rng.Intn(4)
		return ruleSpec{Kind: "normal", Burst: b, D: time.Duration(b) * time.Duration(2+g.n) * time.Millisecond}
	default: // slow refill: one token per (10+n) seconds
		b := 1 + g.rng.Intn(5)
		return ruleSpec{Kind: "normal", Burst: b, D: time.Duration(b) * time.Duration(10+g.n) * time.Second}
	}
}

func (g *gen) ruleMap(mustResolve bool) ruleMapSpec {
	var m ruleMapSpec
	switch g.rng.Intn(4) {
	case 0: // default only
		d := g.ruleV()
		m.D = &d
	case 1: // default + one handler
		d := g.ruleV()
		m.D = &d
		m.M = map[string]ruleSpec{handlers[g.rng.Intn(2)]: g.ruleV()}
	case 2: // both handlers
		m.M = map[string]ruleSpec{handlers[0]: g.ruleV(), handlers[1]: g.ruleV()}
	default: // one handler only: does not resolve for the other one
		if mustResolve {
			d := g.ruleV()
			m.D = &d
		} else {
			m.M = map[string]ruleSpec{handlers[g.rng.Intn(2)]: g.ruleV()}
		}
	}
	return m
}

var cidsWithRules = []string{"c1", "c2"}

const cidUnknown = "c9" // never has a rule

func (g *gen) clientID() map[string]ruleMapSpec {
	m := map[string]ruleMapSpec{}
	for _, c := range cidsWithRules {
		if g.rng.Intn(4) > 0 {
			m[c] = g.ruleMap(false)
		}
	}
	return m
}

var netPool = []string{"10.1.1.0/24", "10.1.0.0/16", "10.0.0.0/8", "192.168.7.0/24", "10.2.0.0/16"}
var addrPool = []string{"10.1.1.5:4001", "10.1.1.6:4001", "10.1.2.7:4002", "10.2.3.4:4003", "192.168.7.9:4004", "172.16.0.1:4005", "10.1.1.5:4999"}

func (g *gen) nets() []netRule {
	var l []netRule
	perm := []int{0, 1, 2, 3, 4}
	for i := len(perm) - 1; i > 0; i-- {
		j := g.rng.Intn(i + 1)
		perm[i], perm[j] = perm[j], perm[i]
	}
	n := 1 + g.rng.Intn(3)
	for _, p := range perm[:n] {
		_, ipn, _ := net.ParseCIDR(netPool[p])
		l = append(l, netRule{IPNet: netPool[p], Map: g.ruleMap(true), ipnet: ipn})
	}
	return l
}

func (g *gen) nodes() map[string]ruleMapSpec {
	m := map[string]ruleMapSpec{}
	for i := range testNodes {
		if g.rng.Intn(2) == 0 {
			m[testNodes[i].String()] = g.ruleMap(false)
		}
	}
	return m
}

func genStream(r *vlib.Run, s int) *stream {
	rng := r.Rand(1, s)
	g := &gen{rng: rng}
	st := &stream{Name: fmt.Sprintf("random-%d", s)}
	if rng.Intn(10) < 7 {
		st.Cfg.ClientID = g.clientID()
	}
	if rng.Intn(10) < 6 {
		st.Cfg.Nets = g.nets()
	}
	if rng.Intn(10) < 6 {
		st.Cfg.Nodes = g.nodes()
	}
	if rng.Intn(2) == 0 {
		m := g.ruleMap(false)
		st.Cfg.Suffrage = &m
	}
	if rng.Intn(2) == 0 {
		m := g.ruleMap(false)
		st.Cfg.DefaultMap = &m
	}
	na := 1 + rng.Intn(6)
	perm := rng.Perm(len(addrPool))
	for _, p := range perm[:na] {
		st.Addrs = append(st.Addrs, addrPool[p])
		if rng.Intn(3) > 0 {
			st.NodeOf = append(st.NodeOf, rng.Intn(len(testNodes)))
		} else {
			st.NodeOf = append(st.NodeOf, -1)
		}
	}
	for i := range testNodes {
		if rng.Intn(2) == 0 {
			st.Consensus = append(st.Consensus, i)
		}
	}
	cids := []string{"", "", "c1", "c2", cidUnknown}
	ncid := rng.Intn(4) // client ids 0-3
	pick := func() string {
		if ncid == 0 {
			return ""
		}
		return cids[rng.Intn(2+ncid)]
	}
	total := 200
	nph := 4 + rng.Intn(5)
	for p := 0; p < nph; p++ {
		n := total / nph
		ph := phase{Goroutines: 1}
		if rng.Intn(2) == 0 {
			ph.Goroutines = 2 + rng.Intn(7)
		}
		// a few hot keys per phase so that limits are reached
		nk := 1 + rng.Intn(3)
		type hot struct {
			a   int
			h   string
			cid string
		}
		var hk []hot
		for k := 0; k < nk; k++ {
			hk = append(hk, hot{rng.Intn(na), handlers[rng.Intn(2)], pick()})
		}
		for k := 0; k < n; k++ {
			x := hk[rng.Intn(nk)]
			q := reqSpec{Addr: x.a, Handler: x.h, CID: x.cid}
			if ph.Goroutines == 1 {
				// sequential: client id varies per request (alternating with / without)
				if rng.Intn(3) > 0 {
					q.CID = pick()
				}
				q.Challenge = rng.Intn(12) == 0
			} else {
				// concurrent: one client id per (addr, handler) in this phase, so that
				// the rule of every request is schedule-independent
				for _, y := range hk {
					if y.a == x.a && y.h == x.h {
						q.CID = y.cid
						break
					}
				}
			}
			ph.Reqs = append(ph.Reqs, q)
		}
		if p < nph-1 && rng.Intn(3) > 0 {
			var e event
			switch rng.Intn(11) {
			case 0, 1:
				a := rng.Intn(na)
				nd := st.NodeOf[a]
				if nd < 0 {
					nd = rng.Intn(len(testNodes))
					st.NodeOf[a] = nd
				}
				e = event{Kind: "addnode", Addr: a, Node: nd}
			case 2:
				e = event{Kind: "consensus", Node: rng.Intn(len(testNodes)), In: rng.Intn(2) == 0}
			case 3:
				e = event{Kind: "set-clientid", ClientID: g.clientID(), Unset: rng.Intn(4) == 0}
			case 4:
				e = event{Kind: "set-nets", Nets: g.nets(), Unset: rng.Intn(4) == 0}
				if e.Unset {
					e.Nets = nil
				}
			case 5:
				e = event{Kind: "set-nodes", Nodes: g.nodes(), Unset: rng.Intn(4) == 0}
			case 6:
				m := g.ruleMap(false)
				e = event{Kind: "set-suffrage", Suffrage: &m}
			case 7:
				m := g.ruleMap(false)
				e = event{Kind: "set-defaultmap", DefaultMap: &m}
			case 8, 9:
				e = event{Kind: "statehash"}
			default:
				e = event{Kind: []string{"reset-clientid", "reset-nets", "reset-nodes", "reset-suffrage", "reset-defaultmap"}[rng.Intn(5)]}
			}
			if e.Unset {
				e.ClientID, e.Nodes = nil, nil
			}
			ph.After = append(ph.After, e)
		}
		st.Phases = append(st.Phases, ph)
	}
	return st
}

// directed streams: the situations every run must exercise
func directed() []*stream {
	slow := func(b, sec int) *ruleSpec {
		return &ruleSpec{Kind: "normal", Burst: b, D: time.Duration(sec) * time.Second}
	}
	rm := func(d *ruleSpec) ruleMapSpec { return ruleMapSpec{D: d} }
	net8 := func() []netRule {
		_, ipn, _ := net.ParseCIDR("10.0.0.0/8")
		return []netRule{{IPNet: "10.0.0.0/8", Map: rm(slow(5, 50)), ipnet: ipn}}
	}
	n0 := testNodes[0].String()
	seq := func(reqs ...reqSpec) phase { return phase{Goroutines: 1, Reqs: reqs} }
	var l []*stream
	// a request with a matching client id after the net limiter of the address was cached
	l = append(l, &stream{Name: "directed-net-then-clientid", Addrs: []string{"10.1.1.5:4001"}, NodeOf: []int{-1},
		Cfg:    config{ClientID: map[string]ruleMapSpec{"c1": rm(slow(2, 40))}, Nets: net8()},
		Phases: []phase{seq(reqSpec{0, "hA", "", false}, reqSpec{0, "hA", "c1", false}, reqSpec{0, "hA", "", false})}})
	// same with a node limiter
	l = append(l, &stream{Name: "directed-node-then-clientid", Addrs: []string{"10.1.1.5:4001"}, NodeOf: []int{0},
		Cfg: config{ClientID: map[string]ruleMapSpec{"c1": rm(slow(2, 40))}, Nodes: map[string]ruleMapSpec{n0: rm(slow(4, 80))}},
		Phases: []phase{
			{Goroutines: 1, Reqs: []reqSpec{{0, "hA", "", false}}, After: []event{{Kind: "addnode", Addr: 0, Node: 0}}},
			seq(reqSpec{0, "hA", "", false}, reqSpec{0, "hA", "c1", false}, reqSpec{0, "hA", "", false})}})
	// another client id after a client-id limiter was cached
	l = append(l, &stream{Name: "directed-clientid-then-other-clientid", Addrs: []string{"10.1.1.5:4001"}, NodeOf: []int{-1},
		Cfg:    config{ClientID: map[string]ruleMapSpec{"c1": rm(slow(2, 40)), "c2": rm(slow(3, 90))}},
		Phases: []phase{seq(reqSpec{0, "hA", "c1", false}, reqSpec{0, "hA", "c2", false}, reqSpec{0, "hA", cidUnknown, false}, reqSpec{0, "hA", "", false})}})
	// a higher-precedence rule set installed after a node limiter was cached
	l = append(l, &stream{Name: "directed-node-then-net-ruleset", Addrs: []string{"10.1.1.5:4001"}, NodeOf: []int{0},
		Cfg: config{Nodes: map[string]ruleMapSpec{n0: rm(slow(4, 80))}},
		Phases: []phase{
			{Goroutines: 1, Reqs: []reqSpec{{0, "hA", "", false}}, After: []event{{Kind: "addnode", Addr: 0, Node: 0}}},
			{Goroutines: 1, Reqs: []reqSpec{{0, "hA", "", false}}, After: []event{{Kind: "set-nets", Nets: net8()}}},
			seq(reqSpec{0, "hA", "", false})}})
	// suffrage node, then a node rule set is installed
	l = append(l, &stream{Name: "directed-suffrage-then-node-ruleset", Addrs: []string{"172.16.0.1:4005"}, NodeOf: []int{0}, Consensus: []int{0},
		Cfg: config{},
		Phases: []phase{
			{Goroutines: 1, Reqs: []reqSpec{{0, "hA", "", true}}},
			{Goroutines: 1, Reqs: []reqSpec{{0, "hA", "", false}}, After: []event{{Kind: "set-nodes", Nodes: map[string]ruleMapSpec{n0: rm(slow(4, 80))}}}},
			seq(reqSpec{0, "hA", "", false})}})
	// enforcement: one address alternating with / without client id
	var alt []reqSpec
	for i := 0; i < 20; i++ {
		alt = append(alt, reqSpec{0, "hA", "c1", false}, reqSpec{0, "hA", "", false})
	}
	l = append(l, &stream{Name: "directed-alternating-clientid", Addrs: []string{"172.16.0.1:4005"}, NodeOf: []int{-1},
		Cfg:    config{ClientID: map[string]ruleMapSpec{"c1": rm(slow(1, 30))}, DefaultMap: &ruleMapSpec{D: slow(2, 40)}},
		Phases: []phase{seq(alt...)}})
	// enforcement while the rule stays the same rule: the suffrage state hash
	// changes (members unchanged), identical rule sets are set again
	rep := func(n int, q reqSpec) []reqSpec {
		var l []reqSpec
		for i := 0; i < n; i++ {
			l = append(l, q)
		}
		return l
	}
	l = append(l, &stream{Name: "directed-suffrage-statehash-changes", Addrs: []string{"172.16.0.1:4005"}, NodeOf: []int{0}, Consensus: []int{0},
		Cfg: config{Suffrage: &ruleMapSpec{D: slow(3, 60)}},
		Phases: []phase{
			{Goroutines: 1, Reqs: []reqSpec{{0, "hA", "", true}}},
			{Goroutines: 1, Reqs: rep(6, reqSpec{0, "hA", "", false}), After: []event{{Kind: "statehash"}}},
			{Goroutines: 1, Reqs: rep(6, reqSpec{0, "hA", "", false}), After: []event{{Kind: "statehash"}}},
			{Goroutines: 1, Reqs: rep(6, reqSpec{0, "hA", "", false}), After: []event{{Kind: "reset-suffrage"}}},
			seq(rep(6, reqSpec{0, "hA", "", false})...)}})
	l = append(l, &stream{Name: "directed-identical-rulesets-set-again", Addrs: []string{"10.1.1.5:4001", "172.16.0.1:4005", "172.16.0.1:4999"}, NodeOf: []int{-1, 0, -1},
		Cfg: config{ClientID: map[string]ruleMapSpec{"c1": rm(slow(3, 60))}, Nets: net8(), Nodes: map[string]ruleMapSpec{n0: rm(slow(4, 80))}, DefaultMap: &ruleMapSpec{D: slow(2, 40)}},
		Phases: []phase{
			{Goroutines: 1, Reqs: []reqSpec{{1, "hA", "", true}}},
			{Goroutines: 1, Reqs: append(append(append(rep(6, reqSpec{0, "hA", "c1", false}), rep(8, reqSpec{0, "hB", "", false})...), rep(7, reqSpec{1, "hA", "", false})...), rep(5, reqSpec{2, "hA", "", false})...),
				After: []event{{Kind: "reset-clientid"}, {Kind: "reset-nets"}, {Kind: "reset-nodes"}, {Kind: "reset-defaultmap"}, {Kind: "statehash"}}},
			seq(append(append(append(rep(6, reqSpec{0, "hA", "c1", false}), rep(8, reqSpec{0, "hB", "", false})...), rep(7, reqSpec{1, "hA", "", false})...), rep(5, reqSpec{2, "hA", "", false})...)...)}})
	// enforcement: plain bursts, sequential and 8 goroutines
	var burst []reqSpec
	for i := 0; i < 30; i++ {
		burst = append(burst, reqSpec{0, "hA", "c1", false})
	}
	l = append(l, &stream{Name: "directed-burst", Addrs: []string{"172.16.0.1:4005"}, NodeOf: []int{-1},
		Cfg:    config{ClientID: map[string]ruleMapSpec{"c1": rm(slow(3, 60))}},
		Phases: []phase{seq(burst...), {Goroutines: 8, Reqs: burst}}})
	return l
}

func TestC36(t *testing.T) {
	r := vlib.Start(t, "C36", vlib.LevelExploration)
	defer r.Finish()
	r.SetRule("case = one stream of ~200 requests through a real RateLimitHandler.Func (fresh handler + RateLimiterRules): random client-id / net / node / suffrage / default-map rule sets (all rule values distinct within a stream; nolimit and zero rules included), 1-6 udp addresses, 2 handler names, client ids {none, c1, c2, unknown}, 4-8 phases that are sequential (client id varies per request) or run by 2-8 goroutines (one client id per addr+handler in that phase), and between phases AddNode / consensus-set change / rule-set replacement / suffrage state hash change with the same members / the identical rule set set again; selection judged per request from the RateLimiterResult in the context, enforcement judged per (configuration epoch, addr, handler, reported rule); distinct = hash of the stream; non-trivial = has a request with a client id and a configuration event. Directed streams first.")
	r.Assume("a net rule map always resolves for every handler used (which net 'matches' when the first containing net has no rule for the handler is not stated)")
	r.Assume("enforcement is judged inside one configuration epoch only (no rule-set replacement with other content, AddNode or consensus membership change in between; a suffrage state hash change with unchanged members and setting an identical rule set again do NOT start a new epoch, the rule is the same rule), against the rule the handler itself reports; bound allowed <= burst + rate*(t_after_last - t_before_first) + 1, so load can only loosen it; 'nolimit allows all' is not demanded by the statement and only counted")
	r.Assume("in concurrent phases all requests of one addr+handler carry the same client id, because the reported RateLimiterResult is read lazily from the limiter object shared per addr+handler")
	r.Assume("address expiry (shrink daemon) is not running during a stream")

	total := map[string]int{}
	var tmu sync.Mutex
	runOne := func(st *stream, sample bool) {
		h := fnv.New64a()
		if b, err := json.Marshal(st); err == nil {
			_, _ = h.Write(b)
		}
		nt := false
		hasCID, hasEvent := false, false
		for _, ph := range st.Phases {
			for _, q := range ph.Reqs {
				if q.CID != "" {
					hasCID = true
				}
			}
			if len(ph.After) > 0 {
				hasEvent = true
			}
		}
		nt = hasCID && (hasEvent || strings.HasPrefix(st.Name, "directed"))
		if nt {
			r.Case(fmt.Sprintf("%x", h.Sum64()))
		} else {
			r.Eval(1)
		}
		var x *runner
		ok := r.WithWatchdog(180*time.Second, "stream "+st.Name, func() {
			r.Guard("stream", st.Name, func() {
				var err error
				x, err = newRunner(r, st)
				if err != nil {
					r.Inconclusive("NewRateLimitHandler: " + err.Error())
					x = nil
					return
				}
				x.run()
			})
		})
		if !ok || x == nil {
			return
		}
		tmu.Lock()
		for k, v := range x.cnt {
			if k == "max_allowed_in_group" {
				if v > total[k] {
					total[k] = v
				}
				continue
			}
			total[k] += v
		}
		tmu.Unlock()
		if sample {
			var first []obs
			for i, o := range x.all {
				if i >= 4 {
					break
				}
				first = append(first, o)
			}
			r.Sample(map[string]any{"stream": st.Name, "addrs": st.Addrs, "phases": len(st.Phases), "requests": len(x.all), "first_observations": first})
		}
	}

	for i, st := range directed() {
		runOne(st, i == 0 || i == 5 || i == 6)
	}
	n := r.N(500, 10000)
	vlib.Parallel(n, 8, func(s int) {
		runOne(genStream(r, s), s < 3)
	})
	r.Set("streams", n+len(directed()))
	for k, v := range total {
		r.Set(k, v)
	}
	if total["requests"] == 0 || total["enforcement_groups"] == 0 {
		r.Inconclusive("no request observed")
	}
}
