package c37

import (
	"fmt"
	"hash/fnv"
	"net"
	"runtime"
	"sort"
	"strings"
	"sync"
	"sync/atomic"
	"testing"
	"time"

	"github.com/spikeekips/mitum/base"
	"github.com/spikeekips/mitum/network/quicmemberlist"
	"verifharness/vlib"
)

// ---------------------------------------------------------------------------
// fixtures: a fixed universe of nodes and udp addresses; members are built by
// the real quicmemberlist.NewMember.

type nodeT struct {
	addr base.Address
	pub  base.Publickey
}

type slot struct {
	node int
	udp  *net.UDPAddr
	id   string // ip:port
}

var (
	nodes   []nodeT
	nodesMu sync.Mutex
)

func node(i int) nodeT {
	nodesMu.Lock()
	defer nodesMu.Unlock()
	for len(nodes) <= i {
		nodes = append(nodes, nodeT{
			addr: base.NewStringAddress(fmt.Sprintf("verifnode%02d", len(nodes))),
			pub:  base.NewMPrivatekey().Publickey(),
		})
	}
	return nodes[i]
}

func mkslot(n, j int) slot {
	udp := &net.UDPAddr{IP: net.IPv4(10, 37, byte(n+1), byte(j+1)), Port: 4000 + n*16 + j}
	return slot{node: n, udp: udp, id: fmt.Sprintf("%s:%d", udp.IP.String(), udp.Port)}
}

// members are immutable values; they are built once by the real NewMember
// (its JSON meta encoding is very slow under the race detector) and reused:
// 3 distinct Member values ("generations") per address.
var (
	memberCache   = map[string]quicmemberlist.Member{}
	memberCacheMu sync.Mutex
)

func mkmember(s slot, n, gen int) quicmemberlist.Member {
	name := fmt.Sprintf("%s@node%d#%d", s.id, n, gen%3)
	memberCacheMu.Lock()
	defer memberCacheMu.Unlock()
	if m, ok := memberCache[name]; ok {
		return m
	}
	m, err := quicmemberlist.NewMember(name, s.udp, node(n).addr, node(n).pub, "", true)
	if err != nil {
		panic(err)
	}
	memberCache[name] = m
	return m
}

// ---------------------------------------------------------------------------
// model: addr -> present (+ generations joined since last leave)

type model struct {
	slots   []slot
	present []bool
	gens    []map[string]bool // member names set since the last leave / node change
	cur     []int             // node the address joined under last (home node before any join)
	prev    []int             // node it was under before the last node change
	nnodes  int
}

func newModel(slots []slot, nnodes int) *model {
	m := &model{slots: slots, present: make([]bool, len(slots)), gens: make([]map[string]bool, len(slots)), nnodes: nnodes}
	m.cur, m.prev = make([]int, len(slots)), make([]int, len(slots))
	for i := range m.gens {
		m.gens[i] = map[string]bool{}
		m.cur[i], m.prev[i] = slots[i].node, slots[i].node
	}
	return m
}

func (m *model) nodeLen(n int) int {
	c := 0
	for i := range m.slots {
		if m.cur[i] == n && m.present[i] {
			c++
		}
	}
	return c
}

func (m *model) total() int {
	c := 0
	for i := range m.slots {
		if m.present[i] {
			c++
		}
	}
	return c
}

type op struct {
	Kind string // join | rejoin | join-other-node | rejoin-other-node | leave | leave-absent
	Slot int
	Gen  int
	Node int // node the address joins under (joins); node it is under (leaves, informational)
}

func (o op) isJoin() bool { return o.Kind != "leave" && o.Kind != "leave-absent" }

// viol reports a violation once per signature; the (expensive) witness is
// only built for the first instance, repeats are counted.
var reported sync.Map

func viol(r *vlib.Run, c counts, sig string, what string, hist func() any) {
	if _, dup := reported.LoadOrStore(sig, true); dup {
		c["violation_repeats_"+sig]++
		return
	}
	r.Violation(sig, what, hist())
}

type counts map[string]int

func (c counts) flush(r *vlib.Run) {
	for k, v := range c {
		r.Count(k, v)
	}
}

func dir(got, want int) string {
	if got > want {
		return "over"
	}
	return "under"
}

// sweep compares every observable of the pool with the model. `by` is the
// kind of the operation just executed (sequential phase) or "quiescence".
// listsOK=false means the per-node lists already deviated in this history and
// are not judged again (later mismatches are consequences of the first one).
func sweep(r *vlib.Run, c counts, p *quicmemberlist.VerifMembersPool, m *model, by string, hist func() any, listsOK *bool, prefix string, traverse bool) {
	// presence, lookup
	for i, s := range m.slots {
		c["obs_Exists"]++
		if got := p.Exists(s.udp); got != m.present[i] {
			viol(r, c, fmt.Sprintf("%sExists:got=%v:want=%v:by=%s", prefix, got, m.present[i], by), fmt.Sprintf("Exists(%s)=%v but the address is present=%v (joined and not left)", s.id, got, m.present[i]), hist)
		}
		c["obs_Get"]++
		mem, found := p.Get(s.udp)
		switch {
		case found != m.present[i]:
			viol(r, c, fmt.Sprintf("%sGet:found=%v:present=%v", prefix, found, m.present[i]), fmt.Sprintf("Get(%s) found=%v but the address is present=%v", s.id, found, m.present[i]), hist)
		case found:
			if mem == nil || !m.gens[i][mem.Name()] || !mem.Address().Equal(node(m.cur[i]).addr) {
				viol(r, c, prefix+"Get:wrong-member", fmt.Sprintf("Get(%s) returned a member that was not joined at this address since its last leave: %v", s.id, mem), hist)
			}
		}
	}
	// totals
	seen := map[string]int{}
	c["obs_Len"]++
	if got, want := p.Len(), m.total(); got != want {
		viol(r, c, fmt.Sprintf("%sLen:%s:by=%s", prefix, dir(got, want), by), fmt.Sprintf("Len()=%d, present members=%d", got, want), hist)
	}
	// Traverse walks all 512 shards of the pool: done every few steps and at
	// the end of every history
	for i, s := range m.slots {
		if !traverse {
			break
		}
		if i == 0 {
			c["obs_Traverse"]++
			p.Traverse(func(mem quicmemberlist.Member) bool {
				seen[fmt.Sprintf("%s:%d", mem.Addr().IP.String(), mem.Addr().Port)]++
				return true
			})
		}
		n := seen[s.id]
		delete(seen, s.id)
		switch {
		case n > 1:
			viol(r, c, prefix+"Traverse:duplicate", fmt.Sprintf("Traverse listed %s %d times", s.id, n), hist)
		case n == 1 && !m.present[i]:
			viol(r, c, prefix+"Traverse:lists-absent:by="+by, fmt.Sprintf("Traverse listed %s which is not present", s.id), hist)
		case n == 0 && m.present[i]:
			viol(r, c, prefix+"Traverse:misses-present:by="+by, fmt.Sprintf("Traverse did not list present member %s", s.id), hist)
		}
	}
	if len(seen) > 0 {
		viol(r, c, prefix+"Traverse:unknown-member", fmt.Sprintf("Traverse listed members never joined: %v", seen), hist)
	}

	// per-node lists
	if !*listsOK {
		return
	}
	for n := 0; n < m.nnodes; n++ {
		c["obs_MembersLen"]++
		want := m.nodeLen(n)
		if got := p.MembersLen(node(n).addr); got != want {
			*listsOK = false
			viol(r, c, fmt.Sprintf("%sMembersLen:%s:by=%s", prefix, dir(got, want), by), fmt.Sprintf("MembersLen(node%d)=%d but the node has %d present address(es)", n, got, want), hist)
			return
		}
	}
	for i, s := range m.slots {
		// probed under the node it is (was last) under, its home node and the node it moved away from
		probed := map[int]bool{}
		for _, n := range []int{m.cur[i], s.node, m.prev[i]} {
			if probed[n] || n >= m.nnodes {
				continue
			}
			probed[n] = true
			c["obs_MembersLenOthers"]++
			wantLen := m.nodeLen(n)
			wantFound := m.present[i] && m.cur[i] == n
			wantOthers := wantLen
			if wantFound {
				wantOthers--
			}
			gl, go_, gf := p.MembersLenOthers(node(n).addr, s.udp)
			switch {
			case gl != wantLen:
				*listsOK = false
				viol(r, c, fmt.Sprintf("%sMembersLenOthers:len:%s:by=%s", prefix, dir(gl, wantLen), by), fmt.Sprintf("MembersLenOthers(node%d,%s) len=%d, present addresses of the node=%d", n, s.id, gl, wantLen), hist)
				return
			case gf != wantFound:
				*listsOK = false
				viol(r, c, fmt.Sprintf("%sMembersLenOthers:found=%v:present-under-node=%v:by=%s", prefix, gf, wantFound, by), fmt.Sprintf("MembersLenOthers(node%d,%s) found=%v, the address is present under this node=%v", n, s.id, gf, wantFound), hist)
				return
			case go_ != wantOthers:
				*listsOK = false
				viol(r, c, fmt.Sprintf("%sMembersLenOthers:others:%s:by=%s", prefix, dir(go_, wantOthers), by), fmt.Sprintf("MembersLenOthers(node%d,%s) others=%d, want %d (the address is listed %d time(s))", n, s.id, go_, wantOthers, gl-go_), hist)
				return
			}
		}
	}
	// a node / address never joined
	if got := p.MembersLen(base.NewStringAddress("verifnode-never")); got != 0 {
		viol(r, c, prefix+"MembersLen:unknown-node", fmt.Sprintf("MembersLen(unknown node)=%d", got), hist)
	}
}

// apply executes one operation against the pool and the model and judges the
// returned value.
func apply(r *vlib.Run, c counts, p *quicmemberlist.VerifMembersPool, m *model, o op, hist func() any, prefix string) {
	s := m.slots[o.Slot]
	switch {
	case o.isJoin():
		mem := mkmember(s, o.Node, o.Gen)
		was := m.present[o.Slot]
		m.present[o.Slot] = true
		if m.cur[o.Slot] != o.Node {
			m.prev[o.Slot], m.cur[o.Slot] = m.cur[o.Slot], o.Node
			m.gens[o.Slot] = map[string]bool{} // last join wins: members of the old node are gone
		}
		m.gens[o.Slot][mem.Name()] = true
		c["op_"+o.Kind]++
		added := p.Set(mem)
		if added == was {
			viol(r, c, fmt.Sprintf("%sSet:added=%v:was-present=%v", prefix, added, was), fmt.Sprintf("Set(%s) added=%v while the address was present=%v", s.id, added, was), hist)
		}
	default:
		was := m.present[o.Slot]
		m.present[o.Slot] = false
		m.gens[o.Slot] = map[string]bool{}
		c["op_"+o.Kind]++
		removed, err := p.Remove(s.udp)
		if err != nil {
			viol(r, c, prefix+"Remove:error", fmt.Sprintf("Remove(%s) error %v", s.id, err), hist)
		}
		if removed != was {
			viol(r, c, fmt.Sprintf("%sRemove:removed=%v:was-present=%v", prefix, removed, was), fmt.Sprintf("Remove(%s) removed=%v while the address was present=%v", s.id, removed, was), hist)
		}
	}
}

func genOps(rngIntn func(int) int, slots []slot, idx []int, present map[int]bool, cur map[int]int, nn, n int, gen *int) []op {
	var ops []op
	for len(ops) < n {
		si := idx[rngIntn(len(idx))]
		if _, ok := cur[si]; !ok {
			cur[si] = slots[si].node
		}
		other := (cur[si] + 1 + rngIntn(nn-1)) % nn
		var k string
		nd := cur[si]
		x := rngIntn(20)
		switch {
		case present[si] && x < 9:
			k = "leave"
		case present[si] && x < 17:
			k = "rejoin"
		case present[si]:
			k, nd = "rejoin-other-node", other // same address joins under another node, no leave in between
		case x < 3:
			k = "leave-absent"
		case x < 17:
			k = "join"
		default:
			k, nd = "join-other-node", other // after a leave (or first join) under another node
		}
		*gen++
		o := op{Kind: k, Slot: si, Gen: *gen, Node: nd}
		ops = append(ops, o)
		if o.isJoin() {
			present[si], cur[si] = true, nd
		} else {
			present[si] = false
		}
	}
	return ops
}

func fingerprint(slots []slot, ops []op) (fp string, nontrivial bool) {
	h := fnv.New64a()
	present := map[int]bool{}
	cur := map[int]int{}
	for j := range slots {
		cur[j] = slots[j].node
	}
	var rejoin, leaveWithSibling bool
	for _, o := range ops {
		fmt.Fprintf(h, "%s/%d/%d;", o.Kind, o.Slot, o.Node)
		switch {
		case o.isJoin():
			if present[o.Slot] {
				rejoin = true
			}
			present[o.Slot], cur[o.Slot] = true, o.Node
		case o.Kind == "leave":
			for j := range slots {
				if j != o.Slot && cur[j] == cur[o.Slot] && present[j] {
					leaveWithSibling = true
				}
			}
			present[o.Slot] = false
		}
	}
	return fmt.Sprintf("%x", h.Sum64()), rejoin && leaveWithSibling
}

func histOf(slots []slot, ops []op, upto int) func() any {
	return func() any {
		lo := 0
		if upto > 60 {
			lo = upto - 60
		}
		var l []string
		for i := lo; i <= upto && i < len(ops); i++ {
			l = append(l, fmt.Sprintf("%d:%s(node%d,%s)", i, ops[i].Kind, ops[i].Node, slots[ops[i].Slot].id))
		}
		return map[string]any{"slots": len(slots), "step": upto, "ops_tail": l}
	}
}

func TestC37(t *testing.T) {
	r := vlib.Start(t, "C37", vlib.LevelExploration)
	defer r.Finish()
	r.SetRule("case = one history of join / re-join / join-or-re-join-under-another-node / leave / leave-of-absent operations on a fresh membersPool over 2-5 nodes x 1-4 udp addresses (members built by the real NewMember), every observable (Exists, Get, Len, Traverse, MembersLen, MembersLenOthers for every node and address) compared with the model after every operation; then histories with 1 writer + 3 concurrent readers (4 goroutines), readers judging untouched addresses and count bounds, full comparison at quiescence; distinct = hash of the (kind, address) sequence; non-trivial = contains a re-join and a leave while a sibling address of the same node is present")
	r.Assume("a re-join is a Set for an address that is present (a new Member value), under the same node or under another node (last join wins: the address then belongs to the new node only)")
	r.Assume("Get may return any Member value joined at that address since its last leave")
	r.Assume("concurrent phase: one writer goroutine (the real callers whenJoined/whenLeft serialise Set/Remove under Memberlist.joinedLock) and 3 reader goroutines; readers judge exactly only addresses the writer does not touch in that phase and bounds for the counts; everything is judged exactly at quiescence")

	// directed history first: the three behaviours every run must exercise
	{
		slots := []slot{mkslot(0, 0), mkslot(0, 1), mkslot(1, 0)}
		// lookup + re-join
		runSequential(r, slots, 2, []op{{"join", 0, 1, 0}, {"join", 1, 2, 0}, {"join", 2, 3, 1}, {"rejoin", 0, 4, 0}, {"rejoin", 0, 5, 0}, {"leave", 0, 6, 0}}, true)
		// leave while a sibling address of the same node stays
		runSequential(r, slots, 2, []op{{"join", 0, 1, 0}, {"join", 1, 2, 0}, {"join", 2, 3, 1}, {"leave", 1, 4, 0}, {"leave-absent", 1, 5, 0}, {"leave", 0, 6, 0}, {"join", 1, 7, 0}}, true)
		// the same address joins under another node without leaving, leaves, joins under the first node again
		runSequential(r, slots, 2, []op{{"join", 0, 1, 0}, {"join", 1, 2, 0}, {"rejoin-other-node", 0, 3, 1}, {"leave", 0, 4, 1}, {"join-other-node", 0, 5, 0}, {"leave", 1, 6, 0}}, true)
		// ... and with a leave in between
		runSequential(r, slots, 2, []op{{"join", 0, 1, 0}, {"join", 1, 2, 0}, {"leave", 0, 3, 0}, {"join-other-node", 0, 4, 1}, {"rejoin-other-node", 0, 5, 0}, {"leave", 0, 6, 0}}, true)
	}

	nseq := r.N(300, 6000)
	vlib.Parallel(nseq, 8, func(i int) {
		rng := r.Rand(1, i)
		nn := 2 + rng.Intn(4)
		var slots []slot
		for n := 0; n < nn; n++ {
			na := 1 + rng.Intn(4)
			for j := 0; j < na; j++ {
				slots = append(slots, mkslot(n, j))
			}
		}
		idx := make([]int, len(slots))
		for k := range idx {
			idx[k] = k
		}
		gen := 0
		ops := genOps(rng.Intn, slots, idx, map[int]bool{}, map[int]int{}, nn, 50+rng.Intn(r.N(151, 251)), &gen)
		runSequential(r, slots, nn, ops, i < 2)
	})

	ncon := r.N(150, 3000)
	for i := 0; i < ncon; i++ {
		i := i
		ok := r.WithWatchdog(120*time.Second, fmt.Sprintf("concurrent history %d", i), func() { runConcurrent(r, i) })
		if !ok {
			break
		}
	}
}

func runSequential(r *vlib.Run, slots []slot, nn int, ops []op, sample bool) {
	fp, nt := fingerprint(slots, ops)
	if nt {
		r.Case("seq/" + fp)
	} else {
		r.Eval(1)
	}
	if sample {
		var l []string
		for k, o := range ops {
			if k >= 12 {
				l = append(l, "...")
				break
			}
			l = append(l, fmt.Sprintf("%s(node%d,%s)", o.Kind, o.Node, slots[o.Slot].id))
		}
		r.Sample(map[string]any{"phase": "sequential", "nodes": nn, "addresses": len(slots), "ops": len(ops), "head": l})
	}
	p := quicmemberlist.NewVerifMembersPool()
	m := newModel(slots, nn)
	listsOK := true
	c := counts{}
	defer c.flush(r)
	for k, o := range ops {
		h := histOf(slots, ops, k)
		by := o.Kind
		if o.Kind == "leave" {
			if m.nodeLen(m.cur[o.Slot]) > 1 {
				by = "leave-with-sibling-present"
			} else {
				by = "leave-last-of-node"
			}
		}
		r.Guard("sequential:"+o.Kind, o, func() {
			apply(r, c, p, m, o, h, "")
			sweep(r, c, p, m, by, h, &listsOK, "", k%8 == 7 || k == len(ops)-1)
		})
	}
}

// runConcurrent: one writer goroutine (the real callers whenJoined/whenLeft
// serialise Set/Remove under Memberlist.joinedLock) and 3 reader goroutines
// (Members/Exists/... are called from anywhere). Readers judge only what is
// schedule-independent: addresses the writer does not touch in this phase
// ("stable"), and bounds for the counts.
func runConcurrent(r *vlib.Run, i int) {
	const R = 3
	rng := r.Rand(2, i)
	nn := 2 + rng.Intn(4)
	var slots []slot
	for n := 0; n < nn; n++ {
		na := 2 + rng.Intn(3)
		for j := 0; j < na; j++ {
			slots = append(slots, mkslot(n, j))
		}
	}
	// stable slots: about one third, spread over the nodes
	var stable, moving []int
	for k := range slots {
		if rng.Intn(3) == 0 {
			stable = append(stable, k)
		} else {
			moving = append(moving, k)
		}
	}
	if len(stable) == 0 {
		stable, moving = moving[:1], moving[1:]
	}
	if len(moving) == 0 {
		moving, stable = stable[:1], stable[1:]
	}
	all := make([]int, len(slots))
	for k := range all {
		all[k] = k
	}
	gen := 0
	present := map[int]bool{}
	cur := map[int]int{}
	prefix := genOps(rng.Intn, slots, all, present, cur, nn, 10+rng.Intn(30), &gen)
	wops := genOps(rng.Intn, slots, moving, present, cur, nn, 20+rng.Intn(60), &gen)

	fp, nt := fingerprint(slots, append(append([]op{}, prefix...), wops...))
	if nt {
		r.Case("con/" + fp)
	} else {
		r.Eval(1)
	}
	if i < 2 {
		r.Sample(map[string]any{"phase": "concurrent", "writer_ops": len(wops), "readers": R, "nodes": nn, "addresses": len(slots), "stable_addresses": len(stable), "prefix_ops": len(prefix)})
	}

	p := quicmemberlist.NewVerifMembersPool()
	m := newModel(slots, nn)
	c0 := counts{}
	defer c0.flush(r)
	listsOK := true
	for k, o := range prefix {
		h := histOf(slots, prefix, k)
		r.Guard("concurrent:prefix:"+o.Kind, o, func() { apply(r, c0, p, m, o, h, "") })
	}
	{
		h := histOf(slots, prefix, len(prefix)-1)
		r.Guard("concurrent:prefix:sweep", i, func() { sweep(r, c0, p, m, "prefix", h, &listsOK, "", true) })
	}
	if !listsOK {
		// the table already deviated sequentially (reported above): nothing
		// schedule-related can be learnt from this history
		return
	}

	// what readers may rely on
	isStable := map[int]bool{}
	for _, k := range stable {
		isStable[k] = true
	}
	stablePresentOfNode := make([]int, nn)
	stableNode := append([]int{}, m.cur...) // node of every address before the concurrent phase (stable ones keep it)
	stablePresent := 0
	for k, s := range slots {
		switch {
		case isStable[k] && m.present[k]:
			stablePresentOfNode[stableNode[k]]++
			stablePresent++
		}
		_ = s
	}
	stableIsPresent := make([]bool, len(slots))
	copy(stableIsPresent, m.present)

	var seq int64
	order := make([]byte, len(wops)+R*40+8)
	mark := func(b byte) {
		n := atomic.AddInt64(&seq, 1)
		if int(n) <= len(order) {
			order[n-1] = b
		}
	}
	var wg sync.WaitGroup
	start := make(chan struct{})

	wg.Add(1)
	go func() { // writer
		defer wg.Done()
		c := counts{}
		defer c.flush(r)
		<-start
		for k, o := range wops {
			h := func() any {
				return map[string]any{"phase": "concurrent-writer", "history": i, "step": k, "op": fmt.Sprintf("%s(node%d,%s)", o.Kind, o.Node, slots[o.Slot].id)}
			}
			mark('w')
			r.Guard("concurrent:"+o.Kind, o, func() {
				apply(r, c, p, m, o, h, "concurrent:")
				s := slots[o.Slot]
				c["obs_Exists"]++
				if got := p.Exists(s.udp); got != m.present[o.Slot] {
					viol(r, c, fmt.Sprintf("concurrent:Exists:got=%v:want=%v", got, m.present[o.Slot]), fmt.Sprintf("Exists(%s)=%v right after %s by the only writer", s.id, got, o.Kind), h)
				}
				c["obs_Get"]++
				if _, found := p.Get(s.udp); found != m.present[o.Slot] {
					viol(r, c, fmt.Sprintf("concurrent:Get:found=%v:present=%v", found, m.present[o.Slot]), fmt.Sprintf("Get(%s) found=%v right after %s by the only writer", s.id, found, o.Kind), h)
				}
			})
			runtime.Gosched()
		}
	}()
	for g := 0; g < R; g++ {
		g := g
		rr := r.Rand(3, i, g)
		wg.Add(1)
		go func() { // reader
			defer wg.Done()
			c := counts{}
			defer c.flush(r)
			<-start
			for it := 0; it < 40; it++ {
				k := stable[rr.Intn(len(stable))]
				s := slots[k]
				sn := stableNode[k]
				want := stableIsPresent[k]
				h := func() any {
					return map[string]any{"phase": "concurrent-reader", "history": i, "reader": g, "iteration": it, "address": s.id, "node": sn, "stable_present": want}
				}
				mark(byte('0' + g))
				r.Guard("concurrent:reader", it, func() {
					c["obs_Exists"]++
					if got := p.Exists(s.udp); got != want {
						viol(r, c, fmt.Sprintf("concurrent:reader:Exists:got=%v:want=%v", got, want), fmt.Sprintf("Exists(%s)=%v while the writer never touches this address (present=%v)", s.id, got, want), h)
					}
					c["obs_Get"]++
					if _, found := p.Get(s.udp); found != want {
						viol(r, c, fmt.Sprintf("concurrent:reader:Get:found=%v:present=%v", found, want), fmt.Sprintf("Get(%s) found=%v while the writer never touches this address (present=%v)", s.id, found, want), h)
					}
					c["obs_MembersLenOthers"]++
					gl, _, gf := p.MembersLenOthers(node(sn).addr, s.udp)
					lo, hi := stablePresentOfNode[sn], stablePresentOfNode[sn]+len(moving) // any moved address can be under any node
					if gf != want {
						viol(r, c, fmt.Sprintf("concurrent:reader:MembersLenOthers:found=%v:present=%v", gf, want), fmt.Sprintf("MembersLenOthers(node%d,%s) found=%v while the writer only joins/leaves other addresses (present=%v)", sn, s.id, gf, want), h)
					}
					if gl < lo || gl > hi {
						viol(r, c, "concurrent:reader:MembersLenOthers:len-out-of-bounds:"+dir(gl, lo), fmt.Sprintf("MembersLenOthers(node%d) len=%d outside [%d,%d]", sn, gl, lo, hi), h)
					}
					c["obs_MembersLen"]++
					if got := p.MembersLen(node(sn).addr); got < lo || got > hi {
						viol(r, c, "concurrent:reader:MembersLen:out-of-bounds:"+dir(got, lo), fmt.Sprintf("MembersLen(node%d)=%d outside [%d,%d] (untouched present addresses .. plus all addresses the writer moves)", sn, got, lo, hi), h)
					}
					c["obs_Len"]++
					if got := p.Len(); got < stablePresent || got > stablePresent+len(moving) {
						viol(r, c, "concurrent:reader:Len:out-of-bounds:"+dir(got, stablePresent), fmt.Sprintf("Len()=%d outside [%d,%d]", got, stablePresent, stablePresent+len(moving)), h)
					}
					if it%8 == 0 {
						c["obs_Traverse"]++
						seen := map[string]int{}
						p.Traverse(func(mem quicmemberlist.Member) bool {
							seen[fmt.Sprintf("%s:%d", mem.Addr().IP.String(), mem.Addr().Port)]++
							return true
						})
						for _, k2 := range stable {
							n := seen[slots[k2].id]
							if (n == 1) != stableIsPresent[k2] || n > 1 {
								viol(r, c, fmt.Sprintf("concurrent:reader:Traverse:listed=%d:present=%v", n, stableIsPresent[k2]), fmt.Sprintf("Traverse listed untouched address %s %d time(s), present=%v", slots[k2].id, n, stableIsPresent[k2]), h)
							}
						}
						for id, n := range seen {
							if n > 1 {
								viol(r, c, "concurrent:reader:Traverse:duplicate", fmt.Sprintf("Traverse listed %s %d times", id, n), h)
							}
						}
					}
				})
				runtime.Gosched()
			}
		}()
	}
	close(start)
	wg.Wait()

	ord := strings.TrimRight(string(order), "\x00")
	r.SetAdd("interleavings_seen", ord)
	if strings.Contains(strings.Trim(ord, "w"), "w") {
		r.Count("histories_with_reader_writer_overlap", 1)
	}

	h := func() any {
		var pres []string
		for k, s := range slots {
			if m.present[k] {
				pres = append(pres, fmt.Sprintf("node%d/%s", m.cur[k], s.id))
			}
		}
		sort.Strings(pres)
		return map[string]any{"phase": "concurrent-quiescence", "history": i, "present": pres, "order": ord}
	}
	r.Guard("concurrent:quiescence", i, func() {
		sweep(r, c0, p, m, "quiescence", h, &listsOK, "concurrent:", true)
	})
}
