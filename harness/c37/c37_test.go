package c37

import (
	"bytes"
	"fmt"
	"hash/fnv"
	"math/rand"
	"net"
	"net/netip"
	"runtime"
	"sort"
	"strings"
	"sync"
	"sync/atomic"
	"testing"
	"time"

	"github.com/spikeekips/mitum/base"
	"github.com/spikeekips/mitum/network/quicmemberlist"
	"verifharness/vlib"
)

// ---------------------------------------------------------------------------
// fixtures: a fixed universe of nodes and udp addresses; members are built by
// the real quicmemberlist.NewMember.

type nodeT struct {
	addr base.Address
	pub  base.Publickey
}

// A member address is the logical (ip, port) pair. Go has several byte forms
// of the same address (4-byte vs 16-byte IPv4-in-IPv6 net.IP; literal vs
// parsed vs resolved vs netip-derived values): every form of one slot is the
// same address (same canonical id, IP.Equal, String() equal, no zone). Every
// operation and every probe draws the form of its address argument
// independently of the form the address joined in.
type addrForm struct {
	name string
	udp  *net.UDPAddr
	ckey string // evidence counter key
}

type slot struct {
	node  int
	id    string // canonical logical address: netip unmapped ip + port
	v6    bool
	forms []addrForm
}

// canon: the logical address of a udp address (IPv4-mapped == IPv4).
func canon(udp *net.UDPAddr) string {
	a, ok := netip.AddrFromSlice(udp.IP)
	if !ok {
		return "invalid-ip/" + udp.String()
	}
	return netip.AddrPortFrom(a.Unmap(), uint16(udp.Port)).String()
}

// sameBytes: both values hold the ip in the same byte form.
func sameBytes(a, b *net.UDPAddr) bool { return bytes.Equal(a.IP, b.IP) }

var (
	nodes   []nodeT
	nodesMu sync.Mutex
)

func node(i int) nodeT {
	nodesMu.Lock()
	defer nodesMu.Unlock()
	for len(nodes) <= i {
		nodes = append(nodes, nodeT{
			addr: base.NewStringAddress(fmt.Sprintf("verifnode%02d", len(nodes))),
			pub:  base.NewMPrivatekey().Publickey(),
		})
	}
	return nodes[i]
}

func mkslot(n, j int, v6 bool) slot {
	port := 4000 + n*16 + j
	s := slot{node: n, v6: v6}
	add := func(name string, udp *net.UDPAddr) {
		s.forms = append(s.forms, addrForm{name: name, udp: udp, ckey: "addr_arg_form_" + name})
	}
	resolve := func(hostport string) *net.UDPAddr {
		udp, err := net.ResolveUDPAddr("udp", hostport) // ip literal: no lookup involved
		if err != nil {
			panic(fmt.Sprintf("harness: resolve %q: %v", hostport, err))
		}
		return udp
	}
	if !v6 {
		b4 := [4]byte{10, 37, byte(n + 1), byte(j + 1)}
		text := fmt.Sprintf("%d.%d.%d.%d", b4[0], b4[1], b4[2], b4[3])
		add("v4-4byte", &net.UDPAddr{IP: net.IP{b4[0], b4[1], b4[2], b4[3]}, Port: port})
		add("v4-16byte-mapped", &net.UDPAddr{IP: net.IPv4(b4[0], b4[1], b4[2], b4[3]), Port: port})
		add("v4-parsed-text", &net.UDPAddr{IP: net.ParseIP(text), Port: port})
		add("v4-resolved-string", resolve(fmt.Sprintf("%s:%d", text, port)))
		add("v4-netip-unmapped", net.UDPAddrFromAddrPort(netip.AddrPortFrom(netip.AddrFrom4(b4), uint16(port))))
		add("v4-netip-mapped", net.UDPAddrFromAddrPort(netip.AddrPortFrom(netip.AddrFrom16(netip.AddrFrom4(b4).As16()), uint16(port))))
	} else {
		b16 := [16]byte{0xfd, 0x37, 0, 0, 0, 0, 0, 0, 0, 0, 0, 0, 0, byte(n + 1), 0, byte(j + 1)}
		add("v6-16byte", &net.UDPAddr{IP: append(net.IP{}, b16[:]...), Port: port})
		add("v6-parsed-text", &net.UDPAddr{IP: net.ParseIP(fmt.Sprintf("fd37:0:0:0:0:0:%x:%x", n+1, j+1)), Port: port})
		add("v6-resolved-string", resolve(fmt.Sprintf("[fd37::%x:%x]:%d", n+1, j+1, port)))
		add("v6-netip", net.UDPAddrFromAddrPort(netip.AddrPortFrom(netip.AddrFrom16(b16), uint16(port))))
	}
	s.id = canon(s.forms[0].udp)
	for _, f := range s.forms { // harness self-check: all forms are one and the same address
		if f.udp == nil || f.udp.Zone != "" || f.udp.Port != port || canon(f.udp) != s.id || !f.udp.IP.Equal(s.forms[0].udp.IP) || f.udp.String() != s.forms[0].udp.String() {
			panic(fmt.Sprintf("harness: form %s of %s is not the same address: %#v", f.name, s.id, f.udp))
		}
	}
	return s
}

// universeV6: which (node, index) positions of the address universe of this
// run hold an IPv6 address: one of every four, which ones is fixed by the seed
// (a fixed universe keeps the number of Member values to build bounded).
var v6off int // drawn once per run, before any history

func universeV6(n, j int) bool { return (n+j+v6off)%4 == 3 }

// members are immutable values; they are built once by the real NewMember
// (its JSON meta encoding is very slow under the race detector) and reused:
// per address and node: 3 distinct Member values ("generations") for an IPv6
// address, 2 for each of the two byte forms of an IPv4 address (the Member
// keeps the *net.UDPAddr it was built with).
// Each value is built once; different values are built concurrently by the
// workers (the cache lock is not held while NewMember runs).
type memberEntry struct {
	once sync.Once
	m    quicmemberlist.Member
}

var memberCache sync.Map // name -> *memberEntry

func mkmember(s slot, n, gen, form int) quicmemberlist.Member {
	udp := s.forms[form].udp
	g := gen % 3
	if !s.v6 {
		g = gen % 2
	}
	name := fmt.Sprintf("%s@node%d#%d/%dB", s.id, n, g, len(udp.IP))
	v, ok := memberCache.Load(name)
	if !ok {
		v, _ = memberCache.LoadOrStore(name, &memberEntry{})
	}
	e := v.(*memberEntry) //nolint:forcetypeassert // only *memberEntry is stored
	e.once.Do(func() {
		nd := node(n)
		m, err := quicmemberlist.NewMember(name, udp, nd.addr, nd.pub, "", true)
		if err != nil {
			panic(err)
		}
		e.m = m
	})
	return e.m
}

// ---------------------------------------------------------------------------
// model: addr -> present (+ generations joined since last leave)

type model struct {
	slots    []slot
	present  []bool
	gens     []map[string]bool // member names set since the last leave / node change
	cur      []int             // node the address joined under last (home node before any join)
	prev     []int             // node it was under before the last node change
	joinedAs []int             // form of the address argument of its last join (-1: never joined)
	nnodes   int
}

// other: form f of the address is another byte form than the one the address
// (last) joined in.
func (m *model) other(slot, f int) bool {
	j := m.joinedAs[slot]
	return j >= 0 && !sameBytes(m.slots[slot].forms[j].udp, m.slots[slot].forms[f].udp)
}

const (
	opOther    = "+other-ip-form"       // the operation named its address in another byte form than the last join
	probeOther = ":probe=other-ip-form" // the lookup named the address in another byte form than the last join
)

func sfx(other bool, s string) string {
	if other {
		return s
	}
	return ""
}

// picker draws the form(s) a probe names an address in.
type picker struct {
	rng *rand.Rand
	buf []int
}

func (pk *picker) one(s slot) int { return pk.rng.Intn(len(s.forms)) }

// forms: every form (all) or one drawn form.
func (pk *picker) forms(s slot, all bool) []int {
	pk.buf = pk.buf[:0]
	if !all {
		return append(pk.buf, pk.one(s))
	}
	for f := range s.forms {
		pk.buf = append(pk.buf, f)
	}
	return pk.buf
}

func newModel(slots []slot, nnodes int) *model {
	m := &model{slots: slots, present: make([]bool, len(slots)), gens: make([]map[string]bool, len(slots)), nnodes: nnodes}
	m.cur, m.prev, m.joinedAs = make([]int, len(slots)), make([]int, len(slots)), make([]int, len(slots))
	for i := range m.gens {
		m.gens[i] = map[string]bool{}
		m.cur[i], m.prev[i], m.joinedAs[i] = slots[i].node, slots[i].node, -1
	}
	return m
}

func (m *model) nodeLen(n int) int {
	c := 0
	for i := range m.slots {
		if m.cur[i] == n && m.present[i] {
			c++
		}
	}
	return c
}

func (m *model) total() int {
	c := 0
	for i := range m.slots {
		if m.present[i] {
			c++
		}
	}
	return c
}

type op struct {
	Kind string // join | rejoin | join-other-node | rejoin-other-node | leave | leave-absent
	Slot int
	Gen  int
	Node int // node the address joins under (joins); node it is under (leaves, informational)
	Form int // which form of the address the operation's argument is in
}

func (o op) isJoin() bool { return o.Kind != "leave" && o.Kind != "leave-absent" }

// viol reports a violation once per signature; the (expensive) witness is
// only built for the first instance, repeats are counted.
var reported sync.Map

func viol(r *vlib.Run, c counts, sig string, what string, hist func() any) {
	if _, dup := reported.LoadOrStore(sig, true); dup {
		c["violation_repeats_"+sig]++
		return
	}
	r.Violation(sig, what, hist())
}

type counts map[string]int

func (c counts) flush(r *vlib.Run) {
	for k, v := range c {
		r.Count(k, v)
	}
}

func dir(got, want int) string {
	if got > want {
		return "over"
	}
	return "under"
}

// sweep compares every observable of the pool with the model. `by` is the
// kind of the operation just executed (sequential phase) or "quiescence".
// listsOK=false means the per-node lists already deviated in this history and
// are not judged again (later mismatches are consequences of the first one).
// Every address-keyed probe names the address in a form drawn by pk (allForms:
// in every form), independent of the form it joined in.
func sweep(r *vlib.Run, c counts, p *quicmemberlist.VerifMembersPool, m *model, by string, hist func() any, listsOK *bool, prefix string, traverse bool, pk *picker, allForms bool) {
	note := func(i, f int) (other bool) {
		c[m.slots[i].forms[f].ckey]++
		if other = m.other(i, f); other {
			if m.present[i] {
				c["probes_other_ip_form_of_present"]++
			} else {
				c["probes_other_ip_form_of_absent"]++
			}
		}
		return other
	}
	// presence, lookup
	for i, s := range m.slots {
		for _, f := range pk.forms(s, allForms) {
			udp, fn := s.forms[f].udp, s.forms[f].name
			po := sfx(note(i, f), probeOther)
			c["obs_Exists"]++
			if got := p.Exists(udp); got != m.present[i] {
				viol(r, c, fmt.Sprintf("%sExists:got=%v:want=%v:by=%s%s", prefix, got, m.present[i], by, po), fmt.Sprintf("Exists(%s as %s)=%v but the address is present=%v (joined and not left)", s.id, fn, got, m.present[i]), hist)
			}
		}
		for _, f := range pk.forms(s, allForms) {
			udp, fn := s.forms[f].udp, s.forms[f].name
			po := sfx(note(i, f), probeOther)
			c["obs_Get"]++
			mem, found := p.Get(udp)
			switch {
			case found != m.present[i]:
				viol(r, c, fmt.Sprintf("%sGet:found=%v:present=%v%s", prefix, found, m.present[i], po), fmt.Sprintf("Get(%s as %s) found=%v but the address is present=%v", s.id, fn, found, m.present[i]), hist)
			case found:
				if mem == nil || !m.gens[i][mem.Name()] || !mem.Address().Equal(node(m.cur[i]).addr) {
					viol(r, c, prefix+"Get:wrong-member"+po, fmt.Sprintf("Get(%s as %s) returned a member that was not joined at this address since its last leave: %v", s.id, fn, mem), hist)
				}
			}
		}
	}
	// totals
	seen := map[string]int{}
	c["obs_Len"]++
	if got, want := p.Len(), m.total(); got != want {
		viol(r, c, fmt.Sprintf("%sLen:%s:by=%s", prefix, dir(got, want), by), fmt.Sprintf("Len()=%d, present members=%d", got, want), hist)
	}
	// Traverse walks all 512 shards of the pool: done every few steps and at
	// the end of every history. Listed members are identified by their
	// logical address, whatever form their Addr() is in.
	for i, s := range m.slots {
		if !traverse {
			break
		}
		if i == 0 {
			c["obs_Traverse"]++
			p.Traverse(func(mem quicmemberlist.Member) bool {
				seen[canon(mem.Addr())]++
				return true
			})
		}
		n := seen[s.id]
		delete(seen, s.id)
		switch {
		case n > 1:
			viol(r, c, prefix+"Traverse:duplicate:by="+by, fmt.Sprintf("Traverse listed %s %d times", s.id, n), hist)
		case n == 1 && !m.present[i]:
			viol(r, c, prefix+"Traverse:lists-absent:by="+by, fmt.Sprintf("Traverse listed %s which is not present", s.id), hist)
		case n == 0 && m.present[i]:
			viol(r, c, prefix+"Traverse:misses-present:by="+by, fmt.Sprintf("Traverse did not list present member %s", s.id), hist)
		}
	}
	if len(seen) > 0 {
		viol(r, c, prefix+"Traverse:unknown-member", fmt.Sprintf("Traverse listed members never joined: %v", seen), hist)
	}

	// per-node lists
	if !*listsOK {
		return
	}
	for n := 0; n < m.nnodes; n++ {
		c["obs_MembersLen"]++
		want := m.nodeLen(n)
		if got := p.MembersLen(node(n).addr); got != want {
			*listsOK = false
			viol(r, c, fmt.Sprintf("%sMembersLen:%s:by=%s", prefix, dir(got, want), by), fmt.Sprintf("MembersLen(node%d)=%d but the node has %d present address(es)", n, got, want), hist)
			return
		}
	}
	for i, s := range m.slots {
		// probed under the node it is (was last) under, its home node and the node it moved away from
		probed := map[int]bool{}
		for _, n := range []int{m.cur[i], s.node, m.prev[i]} {
			if probed[n] || n >= m.nnodes {
				continue
			}
			probed[n] = true
			wantLen := m.nodeLen(n)
			wantFound := m.present[i] && m.cur[i] == n
			wantOthers := wantLen
			if wantFound {
				wantOthers--
			}
			for _, f := range pk.forms(s, allForms) {
				udp, fn := s.forms[f].udp, s.forms[f].name
				po := sfx(note(i, f), probeOther)
				c["obs_MembersLenOthers"]++
				gl, go_, gf := p.MembersLenOthers(node(n).addr, udp)
				switch {
				case gl != wantLen:
					*listsOK = false
					viol(r, c, fmt.Sprintf("%sMembersLenOthers:len:%s:by=%s", prefix, dir(gl, wantLen), by), fmt.Sprintf("MembersLenOthers(node%d,%s as %s) len=%d, present addresses of the node=%d", n, s.id, fn, gl, wantLen), hist)
					return
				case gf != wantFound:
					*listsOK = false
					viol(r, c, fmt.Sprintf("%sMembersLenOthers:found=%v:present-under-node=%v:by=%s%s", prefix, gf, wantFound, by, po), fmt.Sprintf("MembersLenOthers(node%d,%s as %s) found=%v, the address is present under this node=%v", n, s.id, fn, gf, wantFound), hist)
					return
				case go_ != wantOthers:
					*listsOK = false
					viol(r, c, fmt.Sprintf("%sMembersLenOthers:others:%s:by=%s%s", prefix, dir(go_, wantOthers), by, po), fmt.Sprintf("MembersLenOthers(node%d,%s as %s) others=%d, want %d (the address is listed %d time(s))", n, s.id, fn, go_, wantOthers, gl-go_), hist)
					return
				}
			}
		}
	}
	// a node / address never joined
	if got := p.MembersLen(base.NewStringAddress("verifnode-never")); got != 0 {
		viol(r, c, prefix+"MembersLen:unknown-node", fmt.Sprintf("MembersLen(unknown node)=%d", got), hist)
	}
}

// apply executes one operation against the pool and the model and judges the
// returned value.
func apply(r *vlib.Run, c counts, p *quicmemberlist.VerifMembersPool, m *model, o op, hist func() any, prefix string) {
	s := m.slots[o.Slot]
	fn := s.forms[o.Form].name
	other := m.other(o.Slot, o.Form)
	oo := sfx(other, opOther)
	c[s.forms[o.Form].ckey]++
	if other {
		c["ops_other_ip_form_"+o.Kind]++
	}
	switch {
	case o.isJoin():
		mem := mkmember(s, o.Node, o.Gen, o.Form)
		was := m.present[o.Slot]
		m.present[o.Slot] = true
		m.joinedAs[o.Slot] = o.Form
		if m.cur[o.Slot] != o.Node {
			m.prev[o.Slot], m.cur[o.Slot] = m.cur[o.Slot], o.Node
			m.gens[o.Slot] = map[string]bool{} // last join wins: members of the old node are gone
		}
		m.gens[o.Slot][mem.Name()] = true
		c["op_"+o.Kind]++
		added := p.Set(mem)
		if added == was {
			viol(r, c, fmt.Sprintf("%sSet:added=%v:was-present=%v%s", prefix, added, was, oo), fmt.Sprintf("Set(%s as %s) added=%v while the address was present=%v", s.id, fn, added, was), hist)
		}
	default:
		was := m.present[o.Slot]
		m.present[o.Slot] = false
		m.gens[o.Slot] = map[string]bool{}
		c["op_"+o.Kind]++
		removed, err := p.Remove(s.forms[o.Form].udp)
		if err != nil {
			viol(r, c, prefix+"Remove:error"+oo, fmt.Sprintf("Remove(%s as %s) error %v", s.id, fn, err), hist)
		}
		if removed != was {
			viol(r, c, fmt.Sprintf("%sRemove:removed=%v:was-present=%v%s", prefix, removed, was, oo), fmt.Sprintf("Remove(%s as %s) removed=%v while the address was present=%v", s.id, fn, removed, was), hist)
		}
	}
}

func genOps(rngIntn func(int) int, slots []slot, idx []int, present map[int]bool, cur map[int]int, nn, n int, gen *int) []op {
	var ops []op
	for len(ops) < n {
		si := idx[rngIntn(len(idx))]
		if _, ok := cur[si]; !ok {
			cur[si] = slots[si].node
		}
		other := (cur[si] + 1 + rngIntn(nn-1)) % nn
		var k string
		nd := cur[si]
		x := rngIntn(20)
		switch {
		case present[si] && x < 9:
			k = "leave"
		case present[si] && x < 17:
			k = "rejoin"
		case present[si]:
			k, nd = "rejoin-other-node", other // same address joins under another node, no leave in between
		case x < 3:
			k = "leave-absent"
		case x < 17:
			k = "join"
		default:
			k, nd = "join-other-node", other // after a leave (or first join) under another node
		}
		*gen++
		// the form of the address argument: drawn independently for every operation
		o := op{Kind: k, Slot: si, Gen: *gen, Node: nd, Form: rngIntn(len(slots[si].forms))}
		ops = append(ops, o)
		if o.isJoin() {
			present[si], cur[si] = true, nd
		} else {
			present[si] = false
		}
	}
	return ops
}

// shape of a history: what the fingerprint / evidence say about it.
type shape struct {
	fp                                        string
	nontrivial                                bool
	otherRejoin, otherLeave, otherLeaveAbsent bool // operation on an address in another byte form than its last join
}

func fingerprint(slots []slot, ops []op) shape {
	h := fnv.New64a()
	present := map[int]bool{}
	cur := map[int]int{}
	joinedAs := map[int]int{}
	for j := range slots {
		cur[j] = slots[j].node
		fmt.Fprintf(h, "%s;", slots[j].id)
	}
	var sh shape
	var rejoin, leaveWithSibling bool
	for _, o := range ops {
		fmt.Fprintf(h, "%s/%d/%d/%s;", o.Kind, o.Slot, o.Node, slots[o.Slot].forms[o.Form].name)
		ja, joined := joinedAs[o.Slot]
		other := joined && !sameBytes(slots[o.Slot].forms[ja].udp, slots[o.Slot].forms[o.Form].udp)
		switch {
		case o.isJoin():
			if present[o.Slot] {
				rejoin = true
				sh.otherRejoin = sh.otherRejoin || other
			}
			present[o.Slot], cur[o.Slot], joinedAs[o.Slot] = true, o.Node, o.Form
		case o.Kind == "leave":
			for j := range slots {
				if j != o.Slot && cur[j] == cur[o.Slot] && present[j] {
					leaveWithSibling = true
				}
			}
			sh.otherLeave = sh.otherLeave || other
			present[o.Slot] = false
		default:
			sh.otherLeaveAbsent = sh.otherLeaveAbsent || other
		}
	}
	sh.fp, sh.nontrivial = fmt.Sprintf("%x", h.Sum64()), rejoin && leaveWithSibling
	return sh
}

// record registers one history as a case and counts what it contains.
func (sh shape) record(r *vlib.Run, phase string, slots []slot) {
	if sh.nontrivial {
		r.Case(phase + "/" + sh.fp)
	} else {
		r.Eval(1)
	}
	n6 := 0
	for _, s := range slots {
		if s.v6 {
			n6++
		}
	}
	r.Count("addresses_ipv6", n6)
	r.Count("addresses_ipv4", len(slots)-n6)
	for k, b := range map[string]bool{"histories_with_rejoin_in_other_ip_form": sh.otherRejoin, "histories_with_leave_in_other_ip_form": sh.otherLeave, "histories_with_leave_of_absent_in_other_ip_form": sh.otherLeaveAbsent} {
		if b {
			r.Count(k, 1)
		}
	}
}

func opString(slots []slot, o op) string {
	s := slots[o.Slot]
	return fmt.Sprintf("%s(node%d,%s as %s)", o.Kind, o.Node, s.id, s.forms[o.Form].name)
}

func histOf(slots []slot, ops []op, upto int) func() any {
	return func() any {
		lo := 0
		if upto > 60 {
			lo = upto - 60
		}
		var l []string
		for i := lo; i <= upto && i < len(ops); i++ {
			l = append(l, fmt.Sprintf("%d:%s", i, opString(slots, ops[i])))
		}
		return map[string]any{"slots": len(slots), "step": upto, "ops_tail": l}
	}
}

func TestC37(t *testing.T) {
	r := vlib.Start(t, "C37", vlib.LevelExploration)
	defer r.Finish()
	r.SetRule("case = one history of join / re-join / join-or-re-join-under-another-node / leave / leave-of-absent operations on a fresh membersPool over 2-5 nodes x 1-4 udp addresses, three of four IPv4 and one of four IPv6 (members built by the real NewMember). Every operation and every lookup names its address in a form drawn independently of the form the address joined in: IPv4 as 4-byte net.IP, 16-byte IPv4-in-IPv6 net.IP, net.ParseIP of the text, net.ResolveUDPAddr of \"ip:port\", net.UDPAddrFromAddrPort of the unmapped and of the v4-mapped netip address; IPv6 (no zone) as literal bytes, parsed text, resolved string, netip-derived. The model is keyed by the logical address (netip unmapped ip + port). Every observable (Exists, Get, Len, Traverse, MembersLen, MembersLenOthers for every node and address) is compared with the model after every operation, at the end of a history with every address named in every form; then histories with 1 writer + 3 concurrent readers (4 goroutines), readers judging untouched addresses and count bounds, full comparison at quiescence; distinct = hash of the addresses and the (kind, address, node, address form) sequence; non-trivial = contains a re-join and a leave while a sibling address of the same node is present")
	r.Assume("a re-join is a Set for an address that is present (a new Member value), under the same node or under another node (last join wins: the address then belongs to the new node only)")
	r.Assume("Get may return any Member value joined at that address since its last leave")
	r.Assume("concurrent phase: one writer goroutine (the real callers whenJoined/whenLeft serialise Set/Remove under Memberlist.joinedLock) and 3 reader goroutines; readers judge exactly only addresses the writer does not touch in that phase and bounds for the counts; everything is judged exactly at quiescence")
	r.Assume("a member address is the logical (ip, port) pair: two zone-less *net.UDPAddr values with equal Port and IP.Equal ips (4-byte and 16-byte IPv4-in-IPv6 form of one IPv4 address; separately built values of one IPv6 address) are the same address; '+other-ip-form' / ':probe=other-ip-form' in a signature = the operation / lookup named the address in another byte form than its last join did")

	v6off = r.Rand(9).Intn(4)
	r.Set("ipv6_positions_of_the_universe", fmt.Sprintf("(node+index+%d)%%4==3", v6off))

	// directed history first: the three behaviours every run must exercise
	{
		slots := []slot{mkslot(0, 0, false), mkslot(0, 1, false), mkslot(1, 0, false)}
		// lookup + re-join
		runSequential(r, slots, 2, []op{{"join", 0, 1, 0, 1}, {"join", 1, 2, 0, 1}, {"join", 2, 3, 1, 1}, {"rejoin", 0, 4, 0, 1}, {"rejoin", 0, 5, 0, 1}, {"leave", 0, 6, 0, 1}}, true, -1)
		// leave while a sibling address of the same node stays
		runSequential(r, slots, 2, []op{{"join", 0, 1, 0, 1}, {"join", 1, 2, 0, 1}, {"join", 2, 3, 1, 1}, {"leave", 1, 4, 0, 1}, {"leave-absent", 1, 5, 0, 1}, {"leave", 0, 6, 0, 1}, {"join", 1, 7, 0, 1}}, true, -2)
		// the same address joins under another node without leaving, leaves, joins under the first node again
		runSequential(r, slots, 2, []op{{"join", 0, 1, 0, 1}, {"join", 1, 2, 0, 1}, {"rejoin-other-node", 0, 3, 1, 1}, {"leave", 0, 4, 1, 1}, {"join-other-node", 0, 5, 0, 1}, {"leave", 1, 6, 0, 1}}, true, -3)
		// ... and with a leave in between
		runSequential(r, slots, 2, []op{{"join", 0, 1, 0, 1}, {"join", 1, 2, 0, 1}, {"leave", 0, 3, 0, 1}, {"join-other-node", 0, 4, 1, 1}, {"rejoin-other-node", 0, 5, 0, 1}, {"leave", 0, 6, 0, 1}}, true, -4)

		// the same behaviours with every operation naming its address in
		// another form than the previous one did (forms: see mkslot; IPv4
		// 0,3*,4 hold 4 bytes, 1,2,5 hold 16), IPv4 and IPv6 addresses
		slots = []slot{mkslot(0, 0, false), mkslot(0, 1, false), mkslot(1, 0, true), mkslot(1, 1, true)}
		// join, lookup, re-join, leave, leave again
		runSequential(r, slots, 2, []op{{"join", 0, 1, 0, 0}, {"join", 1, 2, 0, 1}, {"join", 2, 3, 1, 0}, {"join", 3, 4, 1, 2}, {"rejoin", 0, 5, 0, 1}, {"rejoin", 1, 6, 0, 4}, {"rejoin", 2, 7, 1, 3}, {"leave", 0, 8, 0, 0}, {"leave-absent", 0, 9, 0, 2}, {"leave", 2, 10, 1, 1}, {"leave", 1, 11, 0, 5}, {"join", 0, 12, 0, 5}, {"leave", 0, 13, 0, 3}, {"leave", 3, 14, 1, 0}}, true, -5)
		// join under another node in another form, with and without a leave in between
		runSequential(r, slots, 2, []op{{"join", 0, 1, 0, 1}, {"join", 1, 2, 0, 0}, {"join", 2, 3, 1, 1}, {"rejoin-other-node", 0, 4, 1, 0}, {"rejoin-other-node", 2, 5, 0, 3}, {"leave", 0, 6, 1, 2}, {"join-other-node", 0, 7, 0, 4}, {"rejoin", 0, 8, 0, 5}, {"leave", 1, 9, 0, 1}, {"leave", 0, 10, 0, 3}, {"leave", 2, 11, 0, 0}}, true, -6)
	}

	nseq := r.N(300, 6000)
	vlib.Parallel(nseq, 8, func(i int) {
		rng := r.Rand(1, i)
		nn := 2 + rng.Intn(4)
		var slots []slot
		for n := 0; n < nn; n++ {
			na := 1 + rng.Intn(4)
			for j := 0; j < na; j++ {
				slots = append(slots, mkslot(n, j, universeV6(n, j)))
			}
		}
		idx := make([]int, len(slots))
		for k := range idx {
			idx[k] = k
		}
		gen := 0
		ops := genOps(rng.Intn, slots, idx, map[int]bool{}, map[int]int{}, nn, 50+rng.Intn(r.N(151, 251)), &gen)
		runSequential(r, slots, nn, ops, i < 2, i)
	})

	ncon := r.N(150, 3000)
	for i := 0; i < ncon; i++ {
		i := i
		ok := r.WithWatchdog(120*time.Second, fmt.Sprintf("concurrent history %d", i), func() { runConcurrent(r, i) })
		if !ok {
			break
		}
	}
}

// runSequential: i < 0 marks a directed history (every lookup names every
// address in every form after every operation); otherwise lookups draw one
// form each, and every form at the end of the history (thorough tier: also at
// every step that traverses).
func runSequential(r *vlib.Run, slots []slot, nn int, ops []op, sample bool, i int) {
	sh := fingerprint(slots, ops)
	sh.record(r, "seq", slots)
	if sample {
		var l []string
		for k, o := range ops {
			if k >= 12 {
				l = append(l, "...")
				break
			}
			l = append(l, opString(slots, o))
		}
		r.Sample(map[string]any{"phase": "sequential", "nodes": nn, "addresses": len(slots), "ops": len(ops), "head": l})
	}
	p := quicmemberlist.NewVerifMembersPool()
	m := newModel(slots, nn)
	pk := &picker{rng: r.Rand(4, i)}
	listsOK := true
	c := counts{}
	defer c.flush(r)
	for k, o := range ops {
		h := histOf(slots, ops, k)
		by := o.Kind
		if o.Kind == "leave" {
			if m.nodeLen(m.cur[o.Slot]) > 1 {
				by = "leave-with-sibling-present"
			} else {
				by = "leave-last-of-node"
			}
		}
		by += sfx(m.other(o.Slot, o.Form), opOther)
		last := k == len(ops)-1
		traverse := k%8 == 7 || last
		all := i < 0 || last || (traverse && r.Thorough())
		r.Guard("sequential:"+o.Kind, o, func() {
			apply(r, c, p, m, o, h, "")
			sweep(r, c, p, m, by, h, &listsOK, "", traverse, pk, all)
		})
	}
}

// runConcurrent: one writer goroutine (the real callers whenJoined/whenLeft
// serialise Set/Remove under Memberlist.joinedLock) and 3 reader goroutines
// (Members/Exists/... are called from anywhere). Readers judge only what is
// schedule-independent: addresses the writer does not touch in this phase
// ("stable"), and bounds for the counts.
func runConcurrent(r *vlib.Run, i int) {
	const R = 3
	rng := r.Rand(2, i)
	nn := 2 + rng.Intn(4)
	var slots []slot
	for n := 0; n < nn; n++ {
		na := 2 + rng.Intn(3)
		for j := 0; j < na; j++ {
			slots = append(slots, mkslot(n, j, universeV6(n, j)))
		}
	}
	// stable slots: about one third, spread over the nodes
	var stable, moving []int
	for k := range slots {
		if rng.Intn(3) == 0 {
			stable = append(stable, k)
		} else {
			moving = append(moving, k)
		}
	}
	if len(stable) == 0 {
		stable, moving = moving[:1], moving[1:]
	}
	if len(moving) == 0 {
		moving, stable = stable[:1], stable[1:]
	}
	all := make([]int, len(slots))
	for k := range all {
		all[k] = k
	}
	gen := 0
	present := map[int]bool{}
	cur := map[int]int{}
	prefix := genOps(rng.Intn, slots, all, present, cur, nn, 10+rng.Intn(30), &gen)
	wops := genOps(rng.Intn, slots, moving, present, cur, nn, 20+rng.Intn(60), &gen)

	fingerprint(slots, append(append([]op{}, prefix...), wops...)).record(r, "con", slots)
	if i < 2 {
		r.Sample(map[string]any{"phase": "concurrent", "writer_ops": len(wops), "readers": R, "nodes": nn, "addresses": len(slots), "stable_addresses": len(stable), "prefix_ops": len(prefix)})
	}

	p := quicmemberlist.NewVerifMembersPool()
	m := newModel(slots, nn)
	pk := &picker{rng: r.Rand(5, i)}
	c0 := counts{}
	defer c0.flush(r)
	listsOK := true
	for k, o := range prefix {
		h := histOf(slots, prefix, k)
		r.Guard("concurrent:prefix:"+o.Kind, o, func() { apply(r, c0, p, m, o, h, "") })
	}
	{
		h := histOf(slots, prefix, len(prefix)-1)
		r.Guard("concurrent:prefix:sweep", i, func() { sweep(r, c0, p, m, "prefix", h, &listsOK, "", true, pk, true) })
	}
	if !listsOK {
		// the table already deviated sequentially (reported above): nothing
		// schedule-related can be learnt from this history
		return
	}

	// what readers may rely on
	isStable := map[int]bool{}
	for _, k := range stable {
		isStable[k] = true
	}
	stablePresentOfNode := make([]int, nn)
	stableNode := append([]int{}, m.cur...) // node of every address before the concurrent phase (stable ones keep it)
	stablePresent := 0
	for k, s := range slots {
		switch {
		case isStable[k] && m.present[k]:
			stablePresentOfNode[stableNode[k]]++
			stablePresent++
		}
		_ = s
	}
	stableIsPresent := make([]bool, len(slots))
	copy(stableIsPresent, m.present)
	// is form f of untouched address k another byte form than it joined in
	stableOther := make([][]bool, len(slots))
	for k, s := range slots {
		stableOther[k] = make([]bool, len(s.forms))
		for f := range s.forms {
			stableOther[k][f] = m.other(k, f)
		}
	}

	var seq int64
	order := make([]byte, len(wops)+R*40+8)
	mark := func(b byte) {
		n := atomic.AddInt64(&seq, 1)
		if int(n) <= len(order) {
			order[n-1] = b
		}
	}
	var wg sync.WaitGroup
	start := make(chan struct{})

	wg.Add(1)
	go func() { // writer
		defer wg.Done()
		c := counts{}
		defer c.flush(r)
		wr := r.Rand(6, i)
		<-start
		for k, o := range wops {
			h := func() any {
				return map[string]any{"phase": "concurrent-writer", "history": i, "step": k, "op": opString(slots, o)}
			}
			mark('w')
			r.Guard("concurrent:"+o.Kind, o, func() {
				apply(r, c, p, m, o, h, "concurrent:")
				s := slots[o.Slot]
				probe := func() (*net.UDPAddr, string, string) {
					fi := wr.Intn(len(s.forms))
					c[s.forms[fi].ckey]++
					other := m.other(o.Slot, fi)
					if other {
						c["concurrent_writer_probes_other_ip_form"]++
					}
					return s.forms[fi].udp, s.forms[fi].name, sfx(other, probeOther)
				}
				c["obs_Exists"]++
				udp, fn, po := probe()
				if got := p.Exists(udp); got != m.present[o.Slot] {
					viol(r, c, fmt.Sprintf("concurrent:Exists:got=%v:want=%v%s", got, m.present[o.Slot], po), fmt.Sprintf("Exists(%s as %s)=%v right after %s by the only writer", s.id, fn, got, opString(slots, o)), h)
				}
				c["obs_Get"]++
				udp, fn, po = probe()
				if _, found := p.Get(udp); found != m.present[o.Slot] {
					viol(r, c, fmt.Sprintf("concurrent:Get:found=%v:present=%v%s", found, m.present[o.Slot], po), fmt.Sprintf("Get(%s as %s) found=%v right after %s by the only writer", s.id, fn, found, opString(slots, o)), h)
				}
			})
			runtime.Gosched()
		}
	}()
	for g := 0; g < R; g++ {
		g := g
		rr := r.Rand(3, i, g)
		wg.Add(1)
		go func() { // reader
			defer wg.Done()
			c := counts{}
			defer c.flush(r)
			<-start
			for it := 0; it < 40; it++ {
				k := stable[rr.Intn(len(stable))]
				s := slots[k]
				sn := stableNode[k]
				want := stableIsPresent[k]
				h := func() any {
					return map[string]any{"phase": "concurrent-reader", "history": i, "reader": g, "iteration": it, "address": s.id, "node": sn, "stable_present": want}
				}
				mark(byte('0' + g))
				// every lookup names the address in a form drawn on its own
				probe := func() (*net.UDPAddr, string, string) {
					fi := rr.Intn(len(s.forms))
					c[s.forms[fi].ckey]++
					if stableOther[k][fi] {
						c["concurrent_reader_probes_other_ip_form"]++
					}
					return s.forms[fi].udp, s.forms[fi].name, sfx(stableOther[k][fi], probeOther)
				}
				r.Guard("concurrent:reader", it, func() {
					c["obs_Exists"]++
					udp, fn, po := probe()
					if got := p.Exists(udp); got != want {
						viol(r, c, fmt.Sprintf("concurrent:reader:Exists:got=%v:want=%v%s", got, want, po), fmt.Sprintf("Exists(%s as %s)=%v while the writer never touches this address (present=%v)", s.id, fn, got, want), h)
					}
					c["obs_Get"]++
					udp, fn, po = probe()
					if _, found := p.Get(udp); found != want {
						viol(r, c, fmt.Sprintf("concurrent:reader:Get:found=%v:present=%v%s", found, want, po), fmt.Sprintf("Get(%s as %s) found=%v while the writer never touches this address (present=%v)", s.id, fn, found, want), h)
					}
					c["obs_MembersLenOthers"]++
					udp, fn, po = probe()
					gl, _, gf := p.MembersLenOthers(node(sn).addr, udp)
					lo, hi := stablePresentOfNode[sn], stablePresentOfNode[sn]+len(moving) // any moved address can be under any node
					if gf != want {
						viol(r, c, fmt.Sprintf("concurrent:reader:MembersLenOthers:found=%v:present=%v%s", gf, want, po), fmt.Sprintf("MembersLenOthers(node%d,%s as %s) found=%v while the writer only joins/leaves other addresses (present=%v)", sn, s.id, fn, gf, want), h)
					}
					if gl < lo || gl > hi {
						viol(r, c, "concurrent:reader:MembersLenOthers:len-out-of-bounds:"+dir(gl, lo), fmt.Sprintf("MembersLenOthers(node%d) len=%d outside [%d,%d]", sn, gl, lo, hi), h)
					}
					c["obs_MembersLen"]++
					if got := p.MembersLen(node(sn).addr); got < lo || got > hi {
						viol(r, c, "concurrent:reader:MembersLen:out-of-bounds:"+dir(got, lo), fmt.Sprintf("MembersLen(node%d)=%d outside [%d,%d] (untouched present addresses .. plus all addresses the writer moves)", sn, got, lo, hi), h)
					}
					c["obs_Len"]++
					if got := p.Len(); got < stablePresent || got > stablePresent+len(moving) {
						viol(r, c, "concurrent:reader:Len:out-of-bounds:"+dir(got, stablePresent), fmt.Sprintf("Len()=%d outside [%d,%d]", got, stablePresent, stablePresent+len(moving)), h)
					}
					if it%8 == 0 {
						c["obs_Traverse"]++
						seen := map[string]int{}
						p.Traverse(func(mem quicmemberlist.Member) bool {
							seen[canon(mem.Addr())]++
							return true
						})
						for _, k2 := range stable {
							n := seen[slots[k2].id]
							if (n == 1) != stableIsPresent[k2] || n > 1 {
								viol(r, c, fmt.Sprintf("concurrent:reader:Traverse:listed=%d:present=%v", n, stableIsPresent[k2]), fmt.Sprintf("Traverse listed untouched address %s %d time(s), present=%v", slots[k2].id, n, stableIsPresent[k2]), h)
							}
						}
						for id, n := range seen {
							if n > 1 {
								viol(r, c, "concurrent:reader:Traverse:duplicate", fmt.Sprintf("Traverse listed %s %d times", id, n), h)
							}
						}
					}
				})
				runtime.Gosched()
			}
		}()
	}
	close(start)
	wg.Wait()

	ord := strings.TrimRight(string(order), "\x00")
	r.SetAdd("interleavings_seen", ord)
	if strings.Contains(strings.Trim(ord, "w"), "w") {
		r.Count("histories_with_reader_writer_overlap", 1)
	}

	h := func() any {
		var pres []string
		for k, s := range slots {
			if m.present[k] {
				pres = append(pres, fmt.Sprintf("node%d/%s", m.cur[k], s.id))
			}
		}
		sort.Strings(pres)
		return map[string]any{"phase": "concurrent-quiescence", "history": i, "present": pres, "order": ord}
	}
	r.Guard("concurrent:quiescence", i, func() {
		sweep(r, c0, p, m, "quiescence", h, &listsOK, "concurrent:", true, pk, true)
	})
}
