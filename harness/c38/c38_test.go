package c38

import (
	"context"
	"fmt"
	"hash/fnv"
	"sort"
	"strings"
	"sync"
	"sync/atomic"
	"testing"
	"time"

	"github.com/spikeekips/mitum/base"
	"github.com/spikeekips/mitum/isaac"
	isaacdatabase "github.com/spikeekips/mitum/isaac/database"
	leveldbstorage "github.com/spikeekips/mitum/storage/leveldb"
	"github.com/spikeekips/mitum/util"
	"github.com/spikeekips/mitum/util/encoder"
	"github.com/spikeekips/mitum/util/valuehash"
	"verifharness/vlib"
)

// rig: encoders as the repository's own pool tests build them
// (isaac/database/test_database.go + pool_test.go).
type rig struct {
	bt        isaacdatabase.BaseTestDatabase
	local     base.LocalNode
	keys      []base.Privatekey
	networkID base.NetworkID
}

func must(err error) {
	if err != nil {
		panic(err)
	}
}

func newRig() *rig {
	g := &rig{}
	g.bt.SetupSuite()
	must(g.bt.Enc.Add(encoder.DecodeDetail{Hint: isaac.DummyOperationFactHint, Instance: isaac.DummyOperationFact{}}))
	must(g.bt.Enc.Add(encoder.DecodeDetail{Hint: isaac.DummyOperationHint, Instance: isaac.DummyOperation{}}))
	g.local = base.RandomLocalNode()
	for i := 0; i < 4; i++ {
		g.keys = append(g.keys, base.NewMPrivatekey())
	}
	g.networkID = util.UUID().Bytes()

	return g
}

// slot: one TempPool (opening a leveldb allocates its whole write buffer, so
// pools are reused) serving one round at a time at ever higher heights.
type slot struct {
	pool  *isaacdatabase.TempPool
	nextH int64
	facts []isaac.DummyOperationFact // facts with operations in the pool
	last  int64
}

func (g *rig) slot() *slot {
	p, err := isaacdatabase.NewTempPool(leveldbstorage.NewMemStorage(), g.bt.Encs, g.bt.Enc, 0)
	must(err)

	return &slot{pool: p, nextH: 20}
}

// addOp stores one more operation; with dup the fact of an operation already
// in the pool is signed again by another key.
func (sl *slot) addOp(g *rig, factIdx int, key base.Privatekey) {
	for factIdx >= len(sl.facts) {
		sl.facts = append(sl.facts, isaac.NewDummyOperationFact(util.UUID().Bytes(), valuehash.RandomSHA256()))
	}
	op, err := isaac.NewDummyOperation(sl.facts[factIdx], key, g.networkID)
	must(err)
	for { // distinct nanosecond per insertion (the pool's order key)
		if n := time.Now().UnixNano(); n > sl.last {
			sl.last = n
			break
		}
	}
	_, err = sl.pool.SetOperation(context.Background(), op)
	must(err)
}

type position struct {
	point base.Point
	prev  util.Hash
	name  string
}

type call struct {
	Client   int
	Kind     string // Make / PreferEmpty
	Position string
	Result   string // short id of the proposal returned, or error
	NOps     int
	Call     int64
	Return   int64
}

func proposalID(pr base.ProposalSignFact) string {
	return pr.Fact().Hash().String() + "/" + pr.Signs()[0].Signature().String()
}

func short(id string) string {
	h := fnv.New32a()
	_, _ = h.Write([]byte(id))
	return fmt.Sprintf("%08x", h.Sum32())
}

func TestC38(t *testing.T) {
	r := vlib.Start(t, "C38", vlib.LevelExploration)
	defer r.Finish()
	r.SetRule("round = one isaac.ProposalMaker of the local node over a real TempPool (proposal pool + operation pool feeding getOperations through OperationHashes with limit 3..10, as launch/p_proposal_maker.go wires it; the pool holds facts signed several times, interleaved), 1..3 positions (point, previous block), 2..12 goroutines issuing 8..32 Make/PreferEmpty calls per position at once while another goroutine adds operations; lastBlockMap is absent, or one block below the positions so that matching, non-matching and unreachable positions occur; distinct = fingerprint of the observed order of call/return events per round (only rounds where calls overlapped); every answer for a position is compared with the first one and with ProposalByPoint afterwards. history = one ProposalMaker over the same kind of pool while the last block moves through H, H+1, ... (clean depth + 2 or more heights): per height the node proposes for the next height (round 0, sometimes further rounds / another previous block) and sometimes one or two heights ahead, sometimes a proposal of another node for a height ahead is stored, the operation pool changes; the pool's own cleanup step (hook H4b: clean proposals, clean ballots, the real depth rule) runs after every proposing step and after every saved block, sometimes concurrently with the requests; after each of these points every position already answered and still judged is asked again (a position expired by the depth rule is asked once more, at the height just below the judged ones) from 2..5 goroutines through Make and PreferEmpty; all answers ever returned for a position must be the same signed proposal and ProposalByPoint must return it, except that a position at or below (newest proposal height in the pool - clean depth) at the time of a cleanup is not judged any more; refusals ('too old') are not answers; distinct history = fingerprint of its steps with per-step numbers of asked / judged / judged-after-cleanup / refused / expired answers (only histories with judged answers after a cleanup). staggered = one position, one ProposalMaker over the real TempPool behind wrappers of everything the maker calls (pool read, operations getter, signing key of the local node, pool write), callers arriving as a stream: the caller which is inside the maker is held inside one of these callbacks (channel handshake; which callback is drawn per caller) while the next batch of 0..4 callers (Make / PreferEmpty drawn per caller) arrives and is seen blocked inside the maker (goroutine state) or inside a callback of its own; then the held call fails (one failure kind per case: operations-getter-error, context-cancelled, pool-read-error, pool-write-error-before-write, pool-write-error-after-write, signing-refused) or succeeds, the next caller served is held in turn while the next batch arrives, and so on; batches with nobody inside are plain repetition (fail, fail, succeed / succeed, fail, succeed); directed cases: first caller fails with each kind while k wait and m arrive during the next service, repetition cases per kind, random streams of 2..5 batches; two closing calls (Make, PreferEmpty); all proposals returned without error must be the same signed proposal, at most one local proposal may be written to the pool for the position and ProposalByPoint must return the one handed out; failed calls are not answers; distinct staggered case = its descriptor (failure kind, arrivals per batch, entry point / fate / holding callback per caller, last block map, when an operation is added), the observed order of arrivals, holds and returns is counted in staggered_schedules_seen")
	r.Assume("history phase: a position whose height is <= newest proposal height in the pool - clean depth (VerifCleanDepths) when a cleanup runs is expired by the documented depth rule; what the maker answers for it afterwards is counted, not judged")
	r.Assume("no position lies more than one block below the last block map (Make answers 'too old' there by design)")
	r.Assume("fault phase (beyond the property's quantifier, which has no faults): single ProposalByPoint / SetProposal / Proposal calls of the pool given to the maker fail once with a transient error, before or after reaching the real TempPool; an error answer of Make/PreferEmpty is accepted, all successful answers for one position must still be the same signed proposal and the real pool must agree")

	r.Assume("staggered phase (failures are beyond the property's quantifier; the statement excludes nothing about errors): calls of the operations getter, of the pool and of the local node's signing key made by a caller may fail once with a transient error or after the caller's context was cancelled; an error answer is accepted, whether a just launched caller is blocked inside the maker is read from the goroutine state (observation only, bounded wait, counted as not confirmed otherwise)")

	g := newRig()
	const workers = 4
	slots := make(chan *slot, workers)
	for i := 0; i < workers; i++ {
		slots <- g.slot()
	}
	// NOTE under -race the repository's JSON encoder (sonic) encodes every
	// value twice at each nesting level; every new proposal/operation costs
	// 0.1-0.9 s of CPU, so rounds are few.
	rounds := r.N(48, 480)
	histories := r.N(2, 16)
	specs := stSpecs(r)
	specOrder := staggeredOrder(specs)
	r.WithWatchdog(time.Duration(r.N(30, 180))*time.Minute, "C38 workload", func() {
		// NOTE the histories are the longest cases: first
		vlib.Parallel(histories+len(specs)+rounds, workers, func(i int) {
			sl := <-slots
			switch {
			case i < histories:
				history(r, g, sl, i)
			case i < histories+len(specs):
				ci := specOrder[i-histories]
				staggered(r, g, sl, ci, specs[ci])
			default:
				round(r, g, sl, i-histories-len(specs))
			}
			slots <- sl
		})
		sl := <-slots
		faultPhase(r, g, sl)
		slots <- sl
	})
	if r.Counter("proposals_returned") == 0 || r.Counter("rounds_with_overlapping_calls") == 0 {
		r.Inconclusive("no proposal was returned or no calls overlapped")
	}
	if r.Counter("history_answers_judged_after_pool_cleanup") == 0 || r.Counter("history_cleanups_which_removed_proposals") == 0 {
		r.Inconclusive("no history in which a position was answered again after a pool cleanup that removed proposals")
	}
	if r.Counter("staggered_arrivals_confirmed_blocked_inside_maker") == 0 || r.Counter("staggered_failed_holder_with_waiters_then_arrivals_while_next_is_served") == 0 {
		r.Inconclusive("staggered phase: no case in which a caller held inside the maker failed while others were seen waiting and further callers arrived while the next one was served")
	}
	if r.Counter("proposals_with_operations") == 0 {
		r.Inconclusive("no proposal with operations was observed")
	}
}

func round(r *vlib.Run, g *rig, sl *slot, ri int) {
	rng := r.Rand(38, ri)
	ctx := context.Background()
	h0 := sl.nextH
	sl.nextH += 10

	// operation pool: facts signed several times, interleaved (A1 B1 A2 B2 ...)
	if len(sl.facts) == 0 {
		for k := 0; k < 2; k++ {
			for f := 0; f < 3; f++ {
				sl.addOp(g, f, g.keys[k])
			}
		}
	}
	base0 := len(sl.facts)
	nnew := 1 + rng.Intn(2)
	for k := 0; k < 2; k++ {
		for f := 0; f < nnew; f++ {
			sl.addOp(g, base0+f, g.keys[k+2*rng.Intn(2)])
		}
	}

	limit := uint64(3 + rng.Intn(8))
	rejectEvery := rng.Intn(4) // 0: no filter
	getOperations := func(ctx context.Context, height base.Height) ([][2]util.Hash, error) {
		var filter func(isaac.PoolOperationRecordMeta) (bool, error)
		if rejectEvery > 1 {
			var n int
			filter = func(isaac.PoolOperationRecordMeta) (bool, error) {
				n++
				return n%(rejectEvery+3) != 0, nil
			}
		}
		return sl.pool.OperationHashes(ctx, height, limit, filter)
	}

	// positions
	npos := 1 + rng.Intn(3)
	mode := rng.Intn(3) // 0: no last block map; 1,2: last block at h0-1
	manifestHash := valuehash.RandomSHA256()
	var lastBlockMap func() (base.BlockMap, bool, error)
	if mode > 0 {
		bm := base.NewDummyBlockMap(base.NewDummyManifest(base.Height(h0-1), manifestHash))
		lastBlockMap = func() (base.BlockMap, bool, error) { return bm, true, nil }
	}
	var poss []position
	for i := 0; i < npos; i++ {
		p := position{point: base.RawPoint(h0+int64(rng.Intn(2)), uint64(rng.Intn(3))), prev: valuehash.RandomSHA256()}
		if mode > 0 && rng.Intn(2) == 0 {
			p.point = base.RawPoint(h0, p.point.Round().Uint64())
			p.prev = manifestHash
		}
		p.name = fmt.Sprintf("h%d.r%d/prev%d", p.point.Height()-base.Height(h0), p.point.Round(), i)
		poss = append(poss, p)
	}

	maker := isaac.NewProposalMaker(g.local, g.networkID, getOperations, sl.pool, lastBlockMap)

	nclients := 2 + rng.Intn(11)
	if ri%8 == 7 {
		nclients = 1
	}
	ncalls := 8 + rng.Intn(25)
	type planned struct {
		pos   int
		empty bool
	}
	plans := make([][]planned, nclients)
	for i := 0; i < ncalls*npos; i++ {
		c := i % nclients
		plans[c] = append(plans[c], planned{pos: rng.Intn(npos), empty: rng.Intn(4) == 0})
	}

	type res struct {
		call call
		pr   base.ProposalSignFact
		pos  int
	}
	results := make([][]res, nclients)
	start := make(chan struct{})
	t0 := time.Now()
	var wg sync.WaitGroup
	for c := 0; c < nclients; c++ {
		wg.Add(1)
		go func(c int) {
			defer wg.Done()
			<-start
			for _, p := range plans[c] {
				ps := poss[p.pos]
				cl := call{Client: c, Kind: "Make", Position: ps.name}
				var pr base.ProposalSignFact
				var err error
				cl.Call = time.Since(t0).Nanoseconds()
				if p.empty {
					cl.Kind = "PreferEmpty"
					pr, err = maker.PreferEmpty(ctx, ps.point, ps.prev)
				} else {
					pr, err = maker.Make(ctx, ps.point, ps.prev)
				}
				cl.Return = time.Since(t0).Nanoseconds()
				switch {
				case err != nil:
					cl.Result = "error: " + err.Error()
					pr = nil
				case pr == nil:
					cl.Result = "nil"
				default:
					cl.Result = short(proposalID(pr))
					cl.NOps = len(pr.ProposalFact().Operations())
				}
				results[c] = append(results[c], res{call: cl, pr: pr, pos: p.pos})
			}
		}(c)
	}
	// the operation pool changes meanwhile
	nadd := 1 + rng.Intn(3)
	addFact := base0 + nnew
	addKeys := []int{rng.Intn(4), rng.Intn(4), rng.Intn(4)}
	dupOf := rng.Intn(base0 + nnew)
	wg.Add(1)
	go func() {
		defer wg.Done()
		<-start
		for i := 0; i < nadd; i++ {
			f := addFact + i
			if i == 1 {
				f = dupOf // one more signature for a fact already there
			}
			sl.addOp(g, f, g.keys[addKeys[i]])
		}
	}()
	if !r.WithWatchdog(5*time.Minute, "ProposalMaker round", func() {
		close(start)
		wg.Wait()
	}) {
		return
	}
	r.Count("operations_added_concurrently", nadd)

	var all []res
	for c := range results {
		all = append(all, results[c]...)
	}
	sort.Slice(all, func(i, j int) bool { return all[i].call.Call < all[j].call.Call })
	calls := make([]call, len(all))
	for i := range all {
		calls[i] = all[i].call
	}
	wit := func(pos string) map[string]any {
		var cs []call
		for _, c := range calls {
			if pos == "" || c.Position == pos {
				cs = append(cs, c)
			}
		}
		if len(cs) > 80 {
			cs = cs[:80]
		}
		return map[string]any{"round": ri, "clients": nclients, "last_block_map": mode > 0, "limit": limit, "calls": cs}
	}

	// interleaving fingerprint
	type ev struct {
		t    int64
		c    int
		kind byte
	}
	var evs []ev
	for _, c := range calls {
		evs = append(evs, ev{c.Call, c.Client, 'c'}, ev{c.Return, c.Client, 'r'})
	}
	sort.Slice(evs, func(i, j int) bool { return evs[i].t < evs[j].t })
	open, overl := 0, 0
	var sb strings.Builder
	for _, e := range evs {
		fmt.Fprintf(&sb, "%d%c", e.c, e.kind)
		if e.kind == 'c' {
			if open > 0 {
				overl++
			}
			open++
		} else {
			open--
		}
	}
	hh := fnv.New64a()
	_, _ = hh.Write([]byte(sb.String()))
	fp := fmt.Sprintf("%x", hh.Sum64())
	r.SetAdd("interleavings_seen", fp)
	r.Count("events_observed", len(calls))
	r.Count("overlapping_calls", overl)
	if overl > 0 {
		r.Count("rounds_with_overlapping_calls", 1)
		r.Case(fp)
	} else {
		r.Eval(1)
	}

	// oracle
	for pi, ps := range poss {
		var first base.ProposalSignFact
		var firstID string
		ids := map[string]bool{}
		for _, x := range all {
			if x.pos != pi {
				continue
			}
			r.Count("calls_"+x.call.Kind, 1)
			if x.pr == nil {
				r.Violation("ProposalMaker:"+x.call.Kind+":no-proposal-returned", fmt.Sprintf("%s(%s) returned %s", x.call.Kind, ps.name, x.call.Result), wit(ps.name))
				continue
			}
			r.Count("proposals_returned", 1)
			id := proposalID(x.pr)
			ids[id] = true
			if first == nil {
				first, firstID = x.pr, id
			}
		}
		if first == nil {
			continue
		}
		r.Count("positions", 1)
		if len(ids) > 1 {
			facts := map[string]bool{}
			for _, x := range all {
				if x.pos == pi && x.pr != nil {
					facts[x.pr.Fact().Hash().String()] = true
				}
			}
			shape := "same-fact-signed-differently"
			if len(facts) > 1 {
				shape = "different-proposal-facts"
			}
			r.Violation("ProposalMaker:different-proposals-for-one-position:"+shape, fmt.Sprintf("position %s: %d different signed proposals (%d facts) were returned", ps.name, len(ids), len(facts)), wit(ps.name))
		}
		for id := range ids {
			var pr base.ProposalSignFact
			for _, x := range all {
				if x.pos == pi && x.pr != nil && proposalID(x.pr) == id {
					pr = x.pr
					break
				}
			}
			fact := pr.ProposalFact()
			if !fact.Point().Equal(ps.point) || !fact.PreviousBlock().Equal(ps.prev) || !fact.Proposer().Equal(g.local.Address()) {
				r.Violation("ProposalMaker:proposal-for-another-position", fmt.Sprintf("position %s: returned proposal is for %s", ps.name, fact.Point()), wit(ps.name))
			}
			ops := fact.Operations()
			if len(ops) > 0 {
				r.Count("proposals_with_operations", 1)
			} else {
				r.Count("proposals_empty", 1)
			}
			so, sf := map[string]bool{}, map[string]bool{}
			for _, o := range ops {
				if so[o[0].String()] {
					r.Violation("ProposalMaker:duplicate-operation-hash-in-proposal", fmt.Sprintf("position %s: operation listed twice among %d", ps.name, len(ops)), wit(ps.name))
				}
				if sf[o[1].String()] {
					r.Violation("ProposalMaker:duplicate-fact-in-proposal", fmt.Sprintf("position %s: two of %d operations have the same fact", ps.name, len(ops)), wit(ps.name))
				}
				so[o[0].String()], sf[o[1].String()] = true, true
			}
			if err := pr.IsValid(g.networkID); err != nil {
				r.Violation("ProposalMaker:proposal-not-valid", fmt.Sprintf("position %s: IsValid: %v", ps.name, err), wit(ps.name))
			}
		}
		// the pool agrees
		switch pr, found, err := sl.pool.ProposalByPoint(ps.point, g.local.Address(), ps.prev); {
		case err != nil:
			r.Violation("ProposalByPoint:error", err.Error(), wit(ps.name))
		case !found:
			r.Violation("ProposalByPoint:returned-proposal-not-in-pool", fmt.Sprintf("position %s: pool has no proposal by point", ps.name), wit(ps.name))
		case proposalID(pr) != firstID:
			if len(ids) == 1 {
				r.Violation("ProposalByPoint:pool-has-another-proposal", fmt.Sprintf("position %s: pool returns a proposal other than the one handed out", ps.name), wit(ps.name))
			}
		}
	}
	if ri < 3 {
		w := wit("")
		if cs := w["calls"].([]call); len(cs) > 10 {
			w["calls"] = cs[:10]
		}
		r.Sample(w)
	}
}

// ---- fault phase ------------------------------------------------------------------

// flakyPool is the real TempPool with single calls failing once: the n-th call
// (counted from arming) of one method returns a transient error, either
// without reaching the pool or after the pool did its work.
type flakyPool struct {
	inner  *isaacdatabase.TempPool
	method string // "ProposalByPoint", "SetProposal", "Proposal"
	after  bool   // fail after the real call was made
	left   atomic.Int64
	fired  atomic.Int64
}

var errTransient = fmt.Errorf("verif: transient pool failure")

func (p *flakyPool) arm(method string, nth int, after bool) {
	p.method, p.after = method, after
	p.left.Store(int64(nth))
}

func (p *flakyPool) fail(method string) bool {
	if p.method != method || p.left.Load() <= 0 {
		return false
	}
	if p.left.Add(-1) == 0 {
		p.fired.Add(1)
		return true
	}
	return false
}

func (p *flakyPool) Proposal(h util.Hash) (base.ProposalSignFact, bool, error) {
	f := p.fail("Proposal")
	if f && !p.after {
		return nil, false, errTransient
	}
	pr, found, err := p.inner.Proposal(h)
	if f {
		return nil, false, errTransient
	}
	return pr, found, err
}

func (p *flakyPool) ProposalBytes(h util.Hash) (string, []byte, []byte, bool, error) {
	return p.inner.ProposalBytes(h)
}

func (p *flakyPool) ProposalByPoint(point base.Point, proposer base.Address, prev util.Hash) (base.ProposalSignFact, bool, error) {
	f := p.fail("ProposalByPoint")
	if f && !p.after {
		return nil, false, errTransient
	}
	pr, found, err := p.inner.ProposalByPoint(point, proposer, prev)
	if f {
		return nil, false, errTransient
	}
	return pr, found, err
}

func (p *flakyPool) SetProposal(pr base.ProposalSignFact) (bool, error) {
	f := p.fail("SetProposal")
	if f && !p.after {
		return false, errTransient
	}
	ok, err := p.inner.SetProposal(pr)
	if f {
		return false, errTransient
	}
	return ok, err
}

// faultPhase: for every pool call site of the maker, for the 1st..4th call of
// it and both ways of failing, one position gets a sequential script of calls
// and then a concurrent burst with the fault armed again.
func faultPhase(r *vlib.Run, g *rig, sl *slot) {
	ctx := context.Background()
	if len(sl.facts) == 0 {
		for k := 0; k < 2; k++ {
			for f := 0; f < 3; f++ {
				sl.addOp(g, f, g.keys[k])
			}
		}
	}
	getOperations := func(ctx context.Context, height base.Height) ([][2]util.Hash, error) {
		return sl.pool.OperationHashes(ctx, height, 5, nil)
	}
	h := sl.nextH + 1000
	nth := r.N(3, 4)
	for _, method := range []string{"ProposalByPoint", "SetProposal", "Proposal"} {
		for n := 1; n <= nth; n++ {
			for _, after := range []bool{false, true} {
				h++
				fp := &flakyPool{inner: sl.pool}
				maker := isaac.NewProposalMaker(g.local, g.networkID, getOperations, fp, nil)
				point, prev := base.RawPoint(h, uint64(n%3)), valuehash.RandomSHA256()
				name := fmt.Sprintf("fault/%s/call%d/after=%v", method, n, after)

				var mu sync.Mutex
				var calls []call
				var prs []base.ProposalSignFact
				t0 := time.Now()
				do := func(client int, empty bool) {
					cl := call{Client: client, Kind: "Make", Position: name}
					var pr base.ProposalSignFact
					var err error
					cl.Call = time.Since(t0).Nanoseconds()
					if empty {
						cl.Kind = "PreferEmpty"
						pr, err = maker.PreferEmpty(ctx, point, prev)
					} else {
						pr, err = maker.Make(ctx, point, prev)
					}
					cl.Return = time.Since(t0).Nanoseconds()
					mu.Lock()
					defer mu.Unlock()
					switch {
					case err != nil:
						cl.Result = "error: " + err.Error()
						r.Count("fault_phase_error_answers", 1)
					case pr == nil:
						cl.Result = "nil"
					default:
						cl.Result = short(proposalID(pr))
						cl.NOps = len(pr.ProposalFact().Operations())
						prs = append(prs, pr)
						r.Count("fault_phase_proposals_returned", 1)
					}
					calls = append(calls, cl)
				}

				// sequential script
				fp.arm(method, n, after)
				for i, empty := range []bool{false, true, false, false, true, false} {
					_ = i
					do(0, empty)
				}
				// concurrent burst, the next call of the method fails once more
				fp.arm(method, 1+n%2, after)
				var wg sync.WaitGroup
				start := make(chan struct{})
				for c := 1; c <= 3; c++ {
					wg.Add(1)
					go func(c int) {
						defer wg.Done()
						<-start
						do(c, c == 2)
						do(c, false)
					}(c)
				}
				if !r.WithWatchdog(5*time.Minute, "ProposalMaker fault burst", func() {
					close(start)
					wg.Wait()
				}) {
					return
				}
				r.Count("fault_phase_faults_fired", int(fp.fired.Load()))
				r.Case(name)

				wit := map[string]any{"phase": "fault", "failing_method": method, "failing_call": n, "fails_after_real_call": after, "calls": calls}
				ids := map[string]bool{}
				facts := map[string]bool{}
				for _, pr := range prs {
					ids[proposalID(pr)] = true
					facts[pr.Fact().Hash().String()] = true
				}
				if len(ids) > 1 {
					shape := "same-fact-signed-differently"
					if len(facts) > 1 {
						shape = "different-proposal-facts"
					}
					r.Violation("ProposalMaker:fault:different-proposals-for-one-position:"+shape+":failing="+method,
						fmt.Sprintf("%s: %d different signed proposals (%d facts) were returned for one position", name, len(ids), len(facts)), wit)
				}
				if len(prs) > 0 {
					switch pr, found, err := sl.pool.ProposalByPoint(point, g.local.Address(), prev); {
					case err != nil:
						r.Violation("ProposalByPoint:error", err.Error(), wit)
					case !found:
						r.Violation("ProposalMaker:fault:returned-proposal-not-in-pool:failing="+method, name+": a proposal was handed out but the pool has none by point", wit)
					case len(ids) == 1 && !ids[proposalID(pr)]:
						r.Violation("ProposalMaker:fault:pool-has-another-proposal:failing="+method, name+": the pool returns a proposal other than the one handed out", wit)
					}
				}
				if n == 1 && !after {
					r.Sample(map[string]any{"phase": "fault", "failing_method": method, "failing_call": n, "calls": calls[:min(len(calls), 8)]})
				}
			}
		}
	}
	sl.nextH = h + 10
}
