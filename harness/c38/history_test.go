package c38

import (
	"context"
	"fmt"
	"hash/fnv"
	"sort"
	"strings"
	"sync"
	"time"

	"github.com/spikeekips/mitum/base"
	"github.com/spikeekips/mitum/isaac"
	"github.com/spikeekips/mitum/util"
	"github.com/spikeekips/mitum/util/valuehash"
	"verifharness/vlib"
)

// ---- long histories: the node follows a growing chain, the pool cleans itself ------
//
// One history = one ProposalMaker of the local node over the slot's real
// TempPool while the last block moves through H, H+1, ... The local node
// proposes for the next height (several rounds, matching and non-matching
// previous block) and for one or two heights ahead, proposals of other nodes
// arrive for heights ahead, and at every point of the history the pool's own
// maintenance runs (hook H4b: the steps TempPool.startClean makes, clean
// proposals then clean ballots), alone or concurrently with requests. After
// every step every position already answered is asked again through every
// entry point of the maker.
//
// Oracle = the statement: all answers ever returned for one position are the
// same signed proposal. Which positions the maker still answers is not
// assumed: all are asked, only answers actually returned are judged. A
// position whose height was at or below (newest height in the pool - clean
// depth) at the time of some cleanup was expired by the documented depth rule;
// what the maker answers for it afterwards is not settled by the statement and
// is not judged (only counted).

type hpos struct {
	position
	first      base.ProposalSignFact
	firstID    string
	firstClean int  // cleanups which had run when the first answer was given
	judged     bool // false once the depth rule expired it
	resigned   bool
	askedLate  bool // asked once more after the depth rule expired it
	checked    map[string]bool
}

type hcall struct {
	Step     string
	Client   int
	Kind     string
	Position string
	Result   string
	NOps     int
	Call     int64
	Return   int64
}

type hist struct {
	r     *vlib.Run
	g     *rig
	sl    *slot
	hi    int
	h0    int64
	depth int
	maker *isaac.ProposalMaker

	lastl     sync.RWMutex
	last      int64
	manifests map[int64]base.Manifest
	withLast  bool

	poss     []*hpos
	newest   int64 // upper bound of the highest height of a proposal in the pool
	cleanups int
	log      []string
	calls    []hcall
	shape    strings.Builder

	judgedAfterCleanup int
}

func (h *hist) logf(format string, a ...any) {
	h.log = append(h.log, fmt.Sprintf(format, a...))
}

func (h *hist) manifest(height int64) base.Manifest {
	if m, found := h.manifests[height]; found {
		return m
	}
	m := base.NewDummyManifest(base.Height(height), valuehash.RandomSHA256())
	h.manifests[height] = m

	return m
}

func (h *hist) lastHeight() int64 {
	h.lastl.RLock()
	defer h.lastl.RUnlock()

	return h.last
}

func (h *hist) witness(pos string) map[string]any {
	var cs []hcall
	for _, c := range h.calls {
		if pos == "" || c.Position == pos {
			cs = append(cs, c)
		}
	}
	if len(cs) > 60 {
		cs = append(cs[:10:10], cs[len(cs)-50:]...)
	}
	lg := h.log
	if len(lg) > 120 {
		lg = lg[len(lg)-120:]
	}

	return map[string]any{
		"phase": "history", "history": h.hi, "first_height": h.h0, "last_block_map": h.withLast,
		"clean_depth": h.depth, "cleanups_run": h.cleanups, "position": pos, "calls_of_position": cs, "history_log": lg,
	}
}

func (h *hist) addPosition(point base.Point, prev util.Hash, what string) *hpos {
	for _, p := range h.poss {
		if p.point.Equal(point) && p.prev.Equal(prev) {
			return p
		}
	}
	p := &hpos{
		position: position{point: point, prev: prev},
		judged:   true, checked: map[string]bool{},
	}
	p.name = fmt.Sprintf("H+%d.r%d/%s#%d", int64(point.Height())-h.h0, point.Round(), what, len(h.poss))
	h.poss = append(h.poss, p)
	// NOTE upper bound: counted as stored as soon as it is asked for
	if int64(point.Height()) > h.newest {
		h.newest = int64(point.Height())
	}

	return p
}

// expire applies the documented depth rule at the time of a cleanup.
func (h *hist) expire() {
	limit := h.newest - int64(h.depth)
	n := 0
	for _, p := range h.poss {
		if p.judged && int64(p.point.Height()) <= limit {
			p.judged = false
			n++
		}
	}
	if n > 0 {
		h.r.Count("history_positions_expired_by_depth_rule", n)
	}
	h.logf("cleanup #%d: last block H+%d, newest proposal height <= H+%d, depth rule expires height <= H+%d (%d positions)",
		h.cleanups+1, h.lastHeight()-h.h0, h.newest-h.h0, limit-h.h0, n)
}

func (h *hist) clean() {
	np, err := h.sl.pool.VerifCleanProposals()
	if err != nil {
		h.r.Violation("TempPool:clean-proposals:error", err.Error(), h.witness(""))
	}
	nb, err := h.sl.pool.VerifCleanBallots()
	if err != nil {
		h.r.Violation("TempPool:clean-ballots:error", err.Error(), h.witness(""))
	}
	h.r.Count("history_cleanups", 1)
	h.r.Count("history_cleanup_removed_proposals", np)
	h.r.Count("history_cleanup_removed_ballots", nb)
	if np > 0 {
		h.r.Count("history_cleanups_which_removed_proposals", 1)
	}
}

// cleanup: one maintenance step of the pool with nothing else running.
func (h *hist) cleanup() {
	h.expire()
	h.clean()
	h.cleanups++
	fmt.Fprintf(&h.shape, "C;")
}

// burst asks, from several goroutines at once, for every position in ask
// (every one twice or more, Make and PreferEmpty mixed); with concurrentClean
// the pool's maintenance step runs at the same time.
func (h *hist) burst(step string, ask []*hpos, concurrentClean bool, seedIdx int) bool {
	rng := h.r.Rand(3801, h.hi, seedIdx)
	ctx := context.Background()
	if len(ask) == 0 && !concurrentClean {
		return true
	}

	nclients := 2 + rng.Intn(4)
	type planned struct {
		pos   *hpos
		empty bool
	}
	plans := make([][]planned, nclients)
	k := rng.Intn(nclients)
	for _, p := range ask {
		first := rng.Intn(2) == 0
		for j := 0; j < 2+rng.Intn(2); j++ {
			empty := first
			if j > 0 {
				empty = !first // both entry points for every position
			}
			if j > 1 {
				empty = rng.Intn(2) == 0
			}
			plans[k%nclients] = append(plans[k%nclients], planned{pos: p, empty: empty})
			k++
		}
	}
	for c := range plans {
		rng.Shuffle(len(plans[c]), func(i, j int) { plans[c][i], plans[c][j] = plans[c][j], plans[c][i] })
	}

	if concurrentClean {
		h.expire() // before anything of it can have happened
	}

	type res struct {
		call hcall
		pr   base.ProposalSignFact
		pos  *hpos
	}
	results := make([][]res, nclients)
	start := make(chan struct{})
	t0 := time.Now()
	var wg sync.WaitGroup
	for c := 0; c < nclients; c++ {
		wg.Add(1)
		go func(c int) {
			defer wg.Done()
			<-start
			for _, p := range plans[c] {
				cl := hcall{Step: step, Client: c, Kind: "Make", Position: p.pos.name}
				var pr base.ProposalSignFact
				var err error
				cl.Call = time.Since(t0).Nanoseconds()
				if p.empty {
					cl.Kind = "PreferEmpty"
					pr, err = h.maker.PreferEmpty(ctx, p.pos.point, p.pos.prev)
				} else {
					pr, err = h.maker.Make(ctx, p.pos.point, p.pos.prev)
				}
				cl.Return = time.Since(t0).Nanoseconds()
				switch {
				case err != nil:
					cl.Result = "error: " + err.Error()
					pr = nil
				case pr == nil:
					cl.Result = "nil"
				default:
					cl.Result = short(proposalID(pr))
					cl.NOps = len(pr.ProposalFact().Operations())
				}
				results[c] = append(results[c], res{call: cl, pr: pr, pos: p.pos})
			}
		}(c)
	}
	if concurrentClean {
		wg.Add(1)
		go func() {
			defer wg.Done()
			<-start
			h.clean()
		}()
	}
	if !h.r.WithWatchdog(10*time.Minute, "ProposalMaker history burst", func() {
		close(start)
		wg.Wait()
	}) {
		return false
	}
	if concurrentClean {
		h.cleanups++
		h.r.Count("history_cleanups_concurrent_with_requests", 1)
	}

	var all []res
	for c := range results {
		all = append(all, results[c]...)
	}
	sort.Slice(all, func(i, j int) bool { return all[i].call.Call < all[j].call.Call })

	var nJudged, nRefused, nUnjudged, nAfter int
	touched := map[*hpos]bool{}
	bad := map[*hpos]bool{}
	for _, x := range all {
		h.calls = append(h.calls, x.call)
		h.r.Count("history_calls_"+x.call.Kind, 1)
		p := x.pos
		if x.pr == nil {
			// NOTE not an answer ('too old' below the last block, by design); not judged
			nRefused++

			continue
		}
		id := proposalID(x.pr)
		if !p.judged {
			nUnjudged++
			if p.firstID != "" && id != p.firstID && !p.resigned {
				p.resigned = true
				h.r.Count("history_positions_signed_again_after_expiry_by_depth_rule", 1)
				h.logf("%s: %s: expired by the depth rule, the maker signed another proposal (not judged)", step, p.name)
			}

			continue
		}
		nJudged++
		touched[p] = true
		if p.first == nil {
			// NOTE a cleanup running concurrently with the first answer does
			// not count as one between two answers
			p.first, p.firstID, p.firstClean = x.pr, id, h.cleanups
			h.r.Count("history_positions", 1)
		}
		after := h.cleanups > p.firstClean
		if after {
			nAfter++
		}
		if !p.checked[id] {
			p.checked[id] = true
			checkProposal(h.r, h.g, p.position, x.pr, func() any { return h.witness(p.name) })
		}
		if id != p.firstID && !bad[p] {
			bad[p] = true
			shape := "same-fact-signed-differently"
			if !x.pr.Fact().Hash().Equal(p.first.Fact().Hash()) {
				shape = "different-proposal-facts"
			}
			sig := "ProposalMaker:different-proposals-for-one-position:" + shape
			when := "with no pool cleanup in between"
			if after {
				sig += ":after-pool-cleanup"
				when = fmt.Sprintf("%d pool cleanup(s) ran since the first answer; the depth rule (height <= newest-%d) never covered this height", h.cleanups-p.firstClean, h.depth)
			}
			h.r.Violation(sig, fmt.Sprintf("history step %q, last block H+%d: %s(%s) returned %s, the first answer for this position was %s; %s",
				step, h.lastHeight()-h.h0, x.call.Kind, p.name, x.call.Result, short(p.firstID), when), h.witness(p.name))
		}
	}
	h.r.Count("history_answers_judged", nJudged)
	h.r.Count("history_answers_judged_after_pool_cleanup", nAfter)
	h.r.Count("history_answers_not_judged_expired_by_depth_rule", nUnjudged)
	h.r.Count("history_requests_refused", nRefused)
	h.judgedAfterCleanup += nAfter

	// the pool agrees: at most one local proposal per position, the one handed out
	for p := range touched {
		if bad[p] {
			continue
		}
		sfx := ""
		if h.cleanups > p.firstClean {
			sfx = ":after-pool-cleanup"
		}
		switch pr, found, err := h.sl.pool.ProposalByPoint(p.point, h.g.local.Address(), p.prev); {
		case err != nil:
			h.r.Violation("ProposalByPoint:error", err.Error(), h.witness(p.name))
		case !found:
			h.r.Violation("ProposalByPoint:returned-proposal-not-in-pool"+sfx, fmt.Sprintf("history step %q: position %s: a proposal was just handed out but the pool has none by point", step, p.name), h.witness(p.name))
		case proposalID(pr) != p.firstID:
			h.r.Violation("ProposalByPoint:pool-has-another-proposal"+sfx, fmt.Sprintf("history step %q: position %s: pool returns a proposal other than the one handed out", step, p.name), h.witness(p.name))
		}
		h.r.Count("history_pool_lookups_compared", 1)
	}

	cc := ""
	if concurrentClean {
		cc = "+C"
	}
	fmt.Fprintf(&h.shape, "%s%s:a%d.j%d.c%d.x%d.u%d;", step[:1], cc, len(ask), nJudged, nAfter, nRefused, nUnjudged)
	h.logf("%s%s: asked %d positions: %d judged answers (%d after a cleanup), %d refused, %d answers for expired positions", step, cc, len(ask), nJudged, nAfter, nRefused, nUnjudged)

	return true
}

// checkProposal: what the statement says about one returned proposal.
func checkProposal(r *vlib.Run, g *rig, ps position, pr base.ProposalSignFact, wit func() any) {
	fact := pr.ProposalFact()
	if !fact.Point().Equal(ps.point) || !fact.PreviousBlock().Equal(ps.prev) || !fact.Proposer().Equal(g.local.Address()) {
		r.Violation("ProposalMaker:proposal-for-another-position", fmt.Sprintf("position %s: returned proposal is for %s", ps.name, fact.Point()), wit())
	}
	ops := fact.Operations()
	if len(ops) > 0 {
		r.Count("proposals_with_operations", 1)
	} else {
		r.Count("proposals_empty", 1)
	}
	so, sf := map[string]bool{}, map[string]bool{}
	for _, o := range ops {
		if so[o[0].String()] {
			r.Violation("ProposalMaker:duplicate-operation-hash-in-proposal", fmt.Sprintf("position %s: operation listed twice among %d", ps.name, len(ops)), wit())
		}
		if sf[o[1].String()] {
			r.Violation("ProposalMaker:duplicate-fact-in-proposal", fmt.Sprintf("position %s: two of %d operations have the same fact", ps.name, len(ops)), wit())
		}
		so[o[0].String()], sf[o[1].String()] = true, true
	}
	if err := pr.IsValid(g.networkID); err != nil {
		r.Violation("ProposalMaker:proposal-not-valid", fmt.Sprintf("position %s: IsValid: %v", ps.name, err), wit())
	}
}

// askable: every position which could still be judged plus those of one
// height below (asked to see what the maker does with them, never assumed).
func (h *hist) askable() []*hpos {
	var minJudged int64 = -1
	for _, p := range h.poss {
		if p.judged && (minJudged < 0 || int64(p.point.Height()) < minJudged) {
			minJudged = int64(p.point.Height())
		}
	}
	if minJudged < 0 {
		minJudged = h.newest - int64(h.depth) + 1
	}
	var ask []*hpos
	for _, p := range h.poss {
		switch {
		case p.judged:
			ask = append(ask, p)
		case int64(p.point.Height()) >= minJudged-1 && !p.askedLate:
			// NOTE once: a maker which still answers signs (and stores) a new
			// proposal here after every cleanup
			p.askedLate = true
			ask = append(ask, p)
		}
	}

	return ask
}

func history(r *vlib.Run, g *rig, sl *slot, hi int) {
	started := time.Now()
	defer func() { r.Count("history_worker_ms", int(time.Since(started).Milliseconds())) }()
	rng := r.Rand(3800, hi)
	depth, _ := sl.pool.VerifCleanDepths()
	r.Set("pool_clean_depth_proposals", depth)
	if depth < 1 {
		depth = 1
	}
	nheights := depth + 2 + rng.Intn(r.N(2, 4))
	if nheights > 16 {
		nheights = 16
	}
	h := &hist{
		r: r, g: g, sl: sl, hi: hi, h0: sl.nextH, depth: depth,
		last: sl.nextH, manifests: map[int64]base.Manifest{},
		withLast: hi%3 != 1, // every third history: no last block map, the maker answers every position
		newest:   sl.nextH - 1,
	}
	sl.nextH += int64(nheights) + 10

	if len(sl.facts) == 0 {
		for k := 0; k < 2; k++ {
			for f := 0; f < 2; f++ {
				sl.addOp(g, f, g.keys[k])
			}
		}
	}
	limit := uint64(2 + rng.Intn(3))
	getOperations := func(ctx context.Context, height base.Height) ([][2]util.Hash, error) {
		return sl.pool.OperationHashes(ctx, height, limit, nil)
	}
	_ = h.manifest(h.last)
	var lastBlockMap func() (base.BlockMap, bool, error)
	if h.withLast {
		lastBlockMap = func() (base.BlockMap, bool, error) {
			h.lastl.RLock()
			defer h.lastl.RUnlock()

			return base.NewDummyBlockMap(h.manifests[h.last]), true, nil
		}
	}
	h.maker = isaac.NewProposalMaker(g.local, g.networkID, getOperations, sl.pool, lastBlockMap)
	other := base.RandomLocalNode()

	fmt.Fprintf(&h.shape, "last=%v;", h.withLast)
	step := 0
	for hh := 0; hh < nheights; hh++ {
		L := h.lastHeight()

		// the operation pool changes
		if hh%2 == 0 || rng.Intn(3) == 0 {
			f := len(sl.facts)
			if rng.Intn(4) == 0 {
				f = rng.Intn(len(sl.facts)) // one more signature for a fact already there
			}
			sl.addOp(g, f, g.keys[rng.Intn(4)])
			r.Count("history_operations_added", 1)
		}

		// the local node proposes: next height (rounds, matching / other
		// previous block) and one or two heights ahead, as the consensus
		// handlers ask
		_ = h.addPosition(base.RawPoint(L+1, 0), h.manifest(L).Hash(), "next")
		if rng.Intn(3) == 0 {
			_ = h.addPosition(base.RawPoint(L+1, uint64(1+rng.Intn(2))), h.manifest(L).Hash(), "next-round")
		}
		if rng.Intn(4) == 0 {
			_ = h.addPosition(base.RawPoint(L+1, uint64(rng.Intn(2))), valuehash.RandomSHA256(), "next-other-previous")
		}
		if rng.Intn(3) == 0 {
			_ = h.addPosition(base.RawPoint(L+2, uint64(rng.Intn(2))), valuehash.RandomSHA256(), "ahead")
		}
		// a proposal of another node for a height ahead arrives
		if rng.Intn(5) == 0 {
			ah := L + 2 + int64(rng.Intn(2))
			fact := isaac.NewProposalFact(base.RawPoint(ah, 0), other.Address(), valuehash.RandomSHA256(), nil)
			sf := isaac.NewProposalSignFact(fact)
			must(sf.Sign(other.Privatekey(), g.networkID))
			_, err := sl.pool.SetProposal(sf)
			must(err)
			if ah > h.newest {
				h.newest = ah
			}
			r.Count("history_proposals_of_other_nodes_stored", 1)
			h.logf("proposal of another node stored for H+%d", ah-h.h0)
			fmt.Fprintf(&h.shape, "O%d;", ah-L)
		}

		step++
		if !h.burst("propose", h.askable(), rng.Intn(3) == 0, step) {
			return
		}
		h.cleanup()
		step++
		if !h.burst("cleaned", h.askable(), false, step) {
			return
		}

		// new block saved
		h.lastl.Lock()
		_ = h.manifest(h.last + 1)
		h.last++
		h.lastl.Unlock()
		r.Count("history_blocks_saved", 1)
		h.logf("block H+%d saved", h.last-h.h0)
		fmt.Fprintf(&h.shape, "B;")

		step++
		if !h.burst("block", h.askable(), rng.Intn(4) == 0, step) {
			return
		}
		h.cleanup()
		step++
		if !h.burst("cleaned", h.askable(), false, step) {
			return
		}
	}

	r.Count("histories", 1)
	hs := fnv.New64a()
	_, _ = hs.Write([]byte(h.shape.String()))
	fp := fmt.Sprintf("history:%x", hs.Sum64())
	if h.judgedAfterCleanup > 0 {
		r.Case(fp)
	} else {
		r.Eval(1)
	}
	if hi == 0 {
		w := h.witness("")
		cs := w["calls_of_position"].([]hcall)
		if len(cs) > 8 {
			w["calls_of_position"] = cs[len(cs)-8:]
		}
		lg := w["history_log"].([]string)
		if len(lg) > 30 {
			w["history_log"] = lg[:30]
		}
		r.Sample(w)
	}
}
