package c38

import (
	"bytes"
	"context"
	"fmt"
	"hash/fnv"
	"runtime"
	"sort"
	"strconv"
	"strings"
	"sync"
	"sync/atomic"
	"time"

	"github.com/spikeekips/mitum/base"
	"github.com/spikeekips/mitum/isaac"
	"github.com/spikeekips/mitum/util"
	"github.com/spikeekips/mitum/util/valuehash"
	"verifharness/vlib"
)

// ---- staggered callers with failures in the middle ---------------------------------
//
// One case = one position (point, previous block), one ProposalMaker over the
// slot's real TempPool, and a STREAM of callers arriving in batches while
// earlier callers are still inside the maker:
//
//	batch 0 (one or more callers) is launched; the first caller which gets
//	inside the maker is HELD by the harness inside one of the callbacks the
//	maker calls (pool read, operations getter, signing, pool write) - a channel
//	handshake, no sleep; while it is held batch 1 is launched and the harness
//	waits until every caller of it is seen blocked inside the maker (goroutine
//	state), held in a callback of its own, or returned; then the held caller is
//	released and its call fails (one failure kind per case: operations getter
//	error, caller's context cancelled, pool read error, pool write error before
//	/ after the real write, signing refused) or succeeds; the next caller which
//	gets inside is held the same way while batch 2 arrives, and so on. When
//	nobody is inside any more the next batch is launched by itself (plain
//	repetition: fail, fail, succeed; succeed, fail, succeed).
//
// Every caller has its entry point (Make / PreferEmpty), its fate (fails with
// the case's failure kind or not) and the callback it is held in, all fixed by
// the seed. Which caller is served when is up to the scheduler and the maker.
//
// Oracle = the statement: every proposal RETURNED without error for the
// position is one and the same signed proposal, the pool was given at most one
// local proposal for the position and ProposalByPoint returns the one handed
// out. Failed calls are not answers; a failed call followed by a successful
// one is fine.

const (
	cbRead = iota
	cbGetter
	cbSign
	cbWrite
)

var cbNames = []string{"pool-read", "operations-getter", "signing", "pool-write"}

const (
	fNone        = ""
	fGetter      = "operations-getter-error"
	fCtx         = "context-cancelled"
	fRead        = "pool-read-error"
	fWriteBefore = "pool-write-error-before-write"
	fWriteAfter  = "pool-write-error-after-write"
	fSign        = "signing-refused"
)

var stFailKinds = []string{fGetter, fCtx, fRead, fWriteBefore, fWriteAfter, fSign}

// failPoint: the callback in which a failure kind strikes.
func failPoint(f string) int {
	switch f {
	case fRead:
		return cbRead
	case fGetter, fCtx:
		return cbGetter
	case fSign:
		return cbSign
	case fWriteBefore, fWriteAfter:
		return cbWrite
	}

	return -1
}

var errStaggered = fmt.Errorf("verif: injected failure")

type stCallerSpec struct {
	Empty bool // entry point PreferEmpty
	Fail  bool // fails with the failure kind of the case (if it gets that far)
	Hold  int  // callback it is held in (once), -1: never held
}

type stSpec struct {
	Kind      string // directed / repetition / random
	Fail      string
	Batches   []int
	Callers   []stCallerSpec
	LastBlock bool
	AddOp     int // an operation is added to the pool during this turn (-1: never)
}

func (s stSpec) String() string {
	var e, x, h strings.Builder
	for _, c := range s.Callers {
		if c.Empty {
			e.WriteByte('E')
		} else {
			e.WriteByte('M')
		}
		if c.Fail {
			x.WriteByte('x')
		} else {
			x.WriteByte('-')
		}
		if c.Hold < 0 {
			h.WriteByte('n')
		} else {
			h.WriteByte("rgsw"[c.Hold]) // read, getter, signing, write
		}
	}
	bs := make([]string, len(s.Batches))
	for i, b := range s.Batches {
		bs[i] = strconv.Itoa(b)
	}
	f := s.Fail
	if f == "" {
		f = "none"
	}

	return fmt.Sprintf("staggered:%s:fail=%s:arrivals=%s:entry=%s:fails=%s:hold=%s:lastblock=%v:addop=%d",
		s.Kind, f, strings.Join(bs, "."), e.String(), x.String(), h.String(), s.LastBlock, s.AddOp)
}

// holdFor: the callback a caller can be held in, given its entry point and
// what is asked for; a caller which fails is held at or before the callback in
// which it fails (it would never reach a later one).
func holdFor(want int, empty bool, fail string) int {
	h := want
	if empty && h == cbGetter { // PreferEmpty never collects operations
		h = cbSign
	}
	if fp := failPoint(fail); fp >= 0 && h > fp {
		h = fp
	}
	if empty && h == cbGetter {
		h = cbRead
	}

	return h
}

func stSpecs(r *vlib.Run) []stSpec {
	var specs []stSpec
	add := func(s stSpec) {
		n := 0
		for _, b := range s.Batches {
			n += b
		}
		if n != len(s.Callers) {
			panic("staggered spec: arrivals do not add up")
		}
		specs = append(specs, s)
	}

	// directed: the first caller fails (every kind) while k callers wait; m
	// more arrive while the first of the waiting ones is served
	kms := [][2]int{{1, 1}, {2, 2}}
	if r.Thorough() {
		kms = [][2]int{{0, 1}, {1, 0}, {1, 1}, {1, 3}, {2, 2}, {3, 1}, {4, 4}, {0, 4}, {4, 0}}
	}
	di := 0
	for fi, f := range stFailKinds {
		holds := []int{(fi + 1) % 4}
		if r.Thorough() {
			holds = []int{cbRead, cbGetter, cbSign, cbWrite}
		}
		for _, km := range kms {
			for _, hold := range holds {
				rng := r.Rand(3810, di)
				di++
				s := stSpec{Kind: "directed", Fail: f, Batches: []int{1, km[0], km[1]}, LastBlock: di%2 == 0, AddOp: -1}
				if di%3 == 0 {
					s.AddOp = 1
				}
				// NOTE the first caller: Make, unless the failure kind is reached through PreferEmpty too
				aEmpty := failPoint(f) != cbGetter && rng.Intn(3) == 0
				s.Callers = append(s.Callers, stCallerSpec{Empty: aEmpty, Fail: true, Hold: holdFor(rng.Intn(4), aEmpty, f)})
				for i := 0; i < km[0]+km[1]; i++ {
					empty := rng.Intn(3) == 0
					s.Callers = append(s.Callers, stCallerSpec{Empty: empty, Hold: holdFor(hold, empty, fNone)})
				}
				add(s)
			}
		}
	}

	// plain repetition, nobody waiting: fail, fail, succeed / succeed, fail, succeed
	for fi, f := range stFailKinds {
		shapes := [][]bool{{true, true, false}, {false, true, false}}
		if !r.Thorough() {
			shapes = shapes[fi%2 : fi%2+1]
		}
		for si, fails := range shapes {
			rng := r.Rand(3811, fi, si)
			s := stSpec{Kind: "repetition", Fail: f, LastBlock: (fi+si)%2 == 0, AddOp: -1}
			for _, fl := range fails {
				empty := failPoint(f) != cbGetter && rng.Intn(3) == 0
				ff := fNone
				if fl {
					ff = f
				}
				s.Batches = append(s.Batches, 1)
				s.Callers = append(s.Callers, stCallerSpec{Empty: empty, Fail: fl, Hold: holdFor(rng.Intn(4), empty, ff)})
			}
			add(s)
		}
	}

	// random streams: 2..5 batches of 0..4 callers after the first, any of
	// them failing; one case in seven without any failure
	nrandom := r.N(10, 220)
	for i := 0; i < nrandom; i++ {
		rng := r.Rand(3812, i)
		s := stSpec{Kind: "random", LastBlock: rng.Intn(2) == 0, AddOp: rng.Intn(4) - 1}
		if i%7 != 6 {
			s.Fail = stFailKinds[rng.Intn(len(stFailKinds))]
		}
		s.Batches = []int{1 + rng.Intn(5)/4}
		total := s.Batches[0]
		for b, nb := 0, 2+rng.Intn(4); b < nb && total < 9; b++ {
			n := rng.Intn(5)
			s.Batches = append(s.Batches, n)
			total += n
		}
		if total == s.Batches[0] {
			s.Batches = append(s.Batches, 1+rng.Intn(3))
			total += s.Batches[len(s.Batches)-1]
		}
		hold := rng.Intn(4)
		for c := 0; c < total; c++ {
			empty := rng.Intn(3) == 0
			fl := s.Fail != fNone && (c == 0 && rng.Intn(4) != 0 || c > 0 && rng.Intn(3) == 0)
			ff := fNone
			if fl {
				ff = s.Fail
			}
			want := hold
			if rng.Intn(4) == 0 {
				want = rng.Intn(4)
			}
			s.Callers = append(s.Callers, stCallerSpec{Empty: empty, Fail: fl, Hold: holdFor(want, empty, ff)})
		}
		add(s)
	}

	return specs
}

// ---- the harness around one case ---------------------------------------------------

type stCaller struct {
	idx   int
	spec  stCallerSpec
	fail  string
	batch int

	goid     int64
	ctx      context.Context
	cancel   func()
	release  chan struct{}
	holdUsed atomic.Bool
	inHold   atomic.Bool
	inCb     atomic.Int64
	fired    atomic.Bool
	returned atomic.Bool

	settled string // how the harness saw it arrive: blocked / held-in-callback / returned / unconfirmed / alone
	heldAt  int    // callback it was held in (-1: never)
	turn    int    // turn in which it was held (-1)

	pr  base.ProposalSignFact
	err error
}

const (
	evHeld = iota
	evReturned
)

type stEvent struct {
	kind int
	c    *stCaller
	cb   int
}

type stag struct {
	r      *vlib.Run
	inner  isaac.ProposalPool
	getOps func(context.Context, base.Height) ([][2]util.Hash, error)

	mu        sync.Mutex
	byGoid    map[int64]*stCaller
	stored    []base.ProposalSignFact
	log       []string
	inside    int
	maxInside int

	events  chan stEvent
	abort   chan struct{}
	unknown atomic.Int64
}

func (st *stag) logf(format string, a ...any) {
	st.mu.Lock()
	st.log = append(st.log, fmt.Sprintf(format, a...))
	st.mu.Unlock()
}

func (st *stag) caller() *stCaller {
	id := goid()
	st.mu.Lock()
	defer st.mu.Unlock()

	return st.byGoid[id]
}

// gate: every callback of the maker passes here. The caller (known by its
// goroutine) is held once in the callback chosen for it, and is told whether
// its call fails in this callback.
func (st *stag) gate(cb int, last bool) (c *stCaller, fail bool, leave func()) {
	c = st.caller()
	if c == nil {
		st.unknown.Add(1)

		return nil, false, func() {}
	}
	c.inCb.Add(1)
	st.mu.Lock()
	st.inside++
	if st.inside > st.maxInside {
		st.maxInside = st.inside
	}
	st.mu.Unlock()
	leave = func() {
		st.mu.Lock()
		st.inside--
		st.mu.Unlock()
		c.inCb.Add(-1)
	}

	// NOTE last: the caller will not get into any later callback (the pool read
	// found the proposal), so one which was to be held later is held here
	if (c.spec.Hold == cb || last && c.spec.Hold > cb) && c.holdUsed.CompareAndSwap(false, true) {
		c.inHold.Store(true)
		st.events <- stEvent{kind: evHeld, c: c, cb: cb}
		select {
		case <-c.release:
		case <-st.abort:
		}
		c.inHold.Store(false)
	}

	fail = failPoint(c.fail) == cb && c.fired.CompareAndSwap(false, true)

	return c, fail, leave
}

func (st *stag) Proposal(h util.Hash) (base.ProposalSignFact, bool, error) {
	return st.inner.Proposal(h)
}

func (st *stag) ProposalBytes(h util.Hash) (string, []byte, []byte, bool, error) {
	return st.inner.ProposalBytes(h)
}

func (st *stag) ProposalByPoint(point base.Point, proposer base.Address, prev util.Hash) (base.ProposalSignFact, bool, error) {
	// NOTE the real read first: a slow read answers with what it saw
	pr, found, err := st.inner.ProposalByPoint(point, proposer, prev)
	_, fail, leave := st.gate(cbRead, found && err == nil)
	defer leave()
	if fail {
		return nil, false, errStaggered
	}

	return pr, found, err
}

func (st *stag) SetProposal(pr base.ProposalSignFact) (bool, error) {
	c, fail, leave := st.gate(cbWrite, false)
	defer leave()
	if fail && c.fail == fWriteBefore {
		return false, errStaggered
	}
	ok, err := st.inner.SetProposal(pr)
	if ok && err == nil {
		st.mu.Lock()
		st.stored = append(st.stored, pr)
		st.mu.Unlock()
	}
	if fail {
		return false, errStaggered
	}

	return ok, err
}

func (st *stag) getOperations(ctx context.Context, height base.Height) ([][2]util.Hash, error) {
	c, fail, leave := st.gate(cbGetter, false)
	defer leave()
	switch {
	case fail && c.fail == fGetter:
		return nil, errStaggered
	case fail: // the caller gives up while operations are collected
		c.cancel()
	}
	ops, err := st.getOps(ctx, height)
	if fail {
		return nil, context.Canceled
	}

	return ops, err
}

type stKey struct {
	base.Privatekey
	st *stag
}

func (k stKey) Sign(b []byte) (base.Signature, error) {
	_, fail, leave := k.st.gate(cbSign, false)
	defer leave()
	if fail {
		return nil, errStaggered
	}

	return k.Privatekey.Sign(b)
}

type stLocal struct {
	base.LocalNode
	key stKey
}

func (l stLocal) Privatekey() base.Privatekey { return l.key }

// ---- goroutine states --------------------------------------------------------------

func goid() int64 {
	var buf [64]byte
	n := runtime.Stack(buf[:], false)
	s := buf[:n]
	s = bytes.TrimPrefix(s, []byte("goroutine "))
	if i := bytes.IndexByte(s, ' '); i > 0 {
		id, _ := strconv.ParseInt(string(s[:i]), 10, 64)

		return id
	}

	return -1
}

var (
	stackMu  sync.Mutex
	stackBuf = make([]byte, 1<<21)
)

// goroutineStates: id -> state as the runtime reports it ("running",
// "runnable", "sync.Mutex.Lock", "chan receive", "select", ...).
func goroutineStates() map[int64]string {
	stackMu.Lock()
	defer stackMu.Unlock()
	var n int
	for {
		n = runtime.Stack(stackBuf, true)
		if n < len(stackBuf) || len(stackBuf) >= 1<<26 {
			break
		}
		stackBuf = make([]byte, 2*len(stackBuf))
	}
	m := map[int64]string{}
	b := stackBuf[:n]
	for len(b) > 0 {
		if bytes.HasPrefix(b, []byte("goroutine ")) {
			line := b
			if i := bytes.IndexByte(b, '\n'); i >= 0 {
				line = b[:i]
			}
			rest := line[len("goroutine "):]
			if i := bytes.IndexByte(rest, ' '); i > 0 {
				id, err := strconv.ParseInt(string(rest[:i]), 10, 64)
				if o, c := bytes.IndexByte(rest, '['), bytes.LastIndexByte(rest, ']'); err == nil && o >= 0 && c > o {
					m[id] = string(rest[o+1 : c])
				}
			}
		}
		i := bytes.Index(b, []byte("\n\n"))
		if i < 0 {
			break
		}
		b = b[i+2:]
	}

	return m
}

func blockedState(s string) bool {
	if s == "" {
		return false
	}
	for _, p := range []string{"running", "runnable", "syscall", "copystack", "preempted"} {
		if strings.HasPrefix(s, p) {
			return false
		}
	}

	return true
}

// settle waits until every caller just launched is blocked inside the maker,
// held in a callback of its own, or has returned. The time limit only ends the
// observation (the arrival is then counted as unconfirmed); it decides nothing.
func (st *stag) settle(cs []*stCaller) {
	deadline := time.Now().Add(30 * time.Second)
	wait := 50 * time.Microsecond
	pending := cs
	for len(pending) > 0 {
		runtime.Gosched()
		states := goroutineStates()
		var rest []*stCaller
		for _, c := range pending {
			switch {
			case c.returned.Load():
				c.settled = "returned"
			case c.inHold.Load():
				c.settled = "held-in-callback"
			case c.inCb.Load() > 0: // busy in a callback: it will be held or return
				rest = append(rest, c)
			case blockedState(states[c.goid]):
				if c.inHold.Load() || c.inCb.Load() > 0 || c.returned.Load() {
					rest = append(rest, c) // moved meanwhile; look again

					continue
				}
				c.settled = "blocked"
			default:
				rest = append(rest, c)
			}
		}
		pending = rest
		if len(pending) == 0 {
			break
		}
		if time.Now().After(deadline) {
			for _, c := range pending {
				c.settled = "unconfirmed"
			}

			break
		}
		select {
		case <-st.abort:
			return
		case <-time.After(wait):
		}
		if wait < 4*time.Millisecond {
			wait *= 2
		}
	}
}

type stTurn struct {
	caller   *stCaller
	cb       int
	launched int
	blocked  int // of the launched: seen blocked inside the maker
	held     int // of the launched: got into a callback while the holder was held
	waiting  int // callers seen blocked and not yet served when the holder was released
}

func staggered(r *vlib.Run, g *rig, sl *slot, ci int, spec stSpec) {
	started := time.Now()
	defer func() { r.Count("staggered_worker_ms", int(time.Since(started).Milliseconds())) }()
	rng := r.Rand(3813, ci)
	h0 := sl.nextH
	sl.nextH += 10
	if len(sl.facts) == 0 {
		for k := 0; k < 2; k++ {
			for f := 0; f < 3; f++ {
				sl.addOp(g, f, g.keys[k])
			}
		}
	}
	limit := uint64(3 + rng.Intn(4))

	manifestHash := valuehash.RandomSHA256()
	ps := position{point: base.RawPoint(h0, uint64(rng.Intn(3))), prev: valuehash.RandomSHA256(), name: fmt.Sprintf("staggered#%d", ci)}
	var lastBlockMap func() (base.BlockMap, bool, error)
	if spec.LastBlock {
		bm := base.NewDummyBlockMap(base.NewDummyManifest(base.Height(h0-1), manifestHash))
		lastBlockMap = func() (base.BlockMap, bool, error) { return bm, true, nil }
		ps.prev = manifestHash
	}

	st := &stag{
		r: r, inner: sl.pool, byGoid: map[int64]*stCaller{},
		events: make(chan stEvent, 4*len(spec.Callers)+16), abort: make(chan struct{}),
		getOps: func(ctx context.Context, height base.Height) ([][2]util.Hash, error) {
			return sl.pool.OperationHashes(ctx, height, limit, nil)
		},
	}
	local := stLocal{LocalNode: g.local, key: stKey{Privatekey: g.local.Privatekey(), st: st}}
	maker := isaac.NewProposalMaker(local, g.networkID, st.getOperations, st, lastBlockMap)

	callers := make([]*stCaller, len(spec.Callers))
	for i, cs := range spec.Callers {
		c := &stCaller{idx: i, spec: cs, release: make(chan struct{}), heldAt: -1, turn: -1}
		if cs.Fail {
			c.fail = spec.Fail
		}
		c.ctx, c.cancel = context.WithCancel(context.Background())
		callers[i] = c
	}
	defer func() {
		for _, c := range callers {
			c.cancel()
		}
	}()
	// the two closing calls, after everything: no failure, not held
	closing := []*stCaller{
		{idx: len(callers), spec: stCallerSpec{Hold: -1}, release: make(chan struct{}), heldAt: -1, turn: -1, settled: "alone", batch: -1},
		{idx: len(callers) + 1, spec: stCallerSpec{Hold: -1, Empty: true}, release: make(chan struct{}), heldAt: -1, turn: -1, settled: "alone", batch: -1},
	}
	for _, c := range closing {
		c.ctx, c.cancel = context.WithCancel(context.Background())
		defer c.cancel()
	}

	entry := func(c *stCaller) string {
		if c.spec.Empty {
			return "PreferEmpty"
		}

		return "Make"
	}
	start := func(c *stCaller) bool {
		started := make(chan struct{})
		go func() {
			c.goid = goid()
			st.mu.Lock()
			st.byGoid[c.goid] = c
			st.mu.Unlock()
			close(started)
			var pr base.ProposalSignFact
			var err error
			if c.spec.Empty {
				pr, err = maker.PreferEmpty(c.ctx, ps.point, ps.prev)
			} else {
				pr, err = maker.Make(c.ctx, ps.point, ps.prev)
			}
			c.pr, c.err = pr, err
			c.returned.Store(true)
			st.events <- stEvent{kind: evReturned, c: c}
		}()
		select {
		case <-started:
			return true
		case <-st.abort:
			return false
		}
	}

	var turns []*stTurn
	var order strings.Builder // observed order of arrivals, holds and returns
	var returnedOrder []*stCaller
	next, batch, inflight := 0, 0, 0
	launch := func(alone bool) []*stCaller {
		n := spec.Batches[batch]
		var cs []*stCaller
		for i := 0; i < n; i++ {
			c := callers[next]
			next++
			c.batch = batch
			if alone {
				c.settled = "alone"
			}
			inflight++
			f := "-"
			if c.fail != fNone {
				f = c.fail
			}
			st.logf("caller %d arrives (batch %d): %s, fate %s, held in %s", c.idx, batch, entry(c), f, cbName(c.spec.Hold))
			fmt.Fprintf(&order, "A%d;", c.idx)
			if !start(c) {
				return cs
			}
			cs = append(cs, c)
		}
		batch++

		return cs
	}
	onReturn := func(c *stCaller) {
		inflight--
		returnedOrder = append(returnedOrder, c)
		res := "error"
		switch {
		case c.err != nil:
			st.logf("caller %d: %s returned error: %v", c.idx, entry(c), c.err)
		case c.pr == nil:
			res = "nil"
			st.logf("caller %d: %s returned nil", c.idx, entry(c))
		default:
			res = "ok"
			st.logf("caller %d: %s returned proposal %s (%d operations)", c.idx, entry(c), short(proposalID(c.pr)), len(c.pr.ProposalFact().Operations()))
		}
		fmt.Fprintf(&order, "R%d:%s;", c.idx, res)
	}

	ok := r.WithWatchdog(10*time.Minute, "ProposalMaker staggered callers", func() {
		for batch < len(spec.Batches) || inflight > 0 {
			if inflight == 0 {
				// nobody inside: the next callers arrive by themselves
				_ = launch(true)

				continue
			}
			ev := <-st.events
			if ev.kind == evReturned {
				onReturn(ev.c)

				continue
			}
			// a caller is inside the maker, held in a callback
			t := &stTurn{caller: ev.c, cb: ev.cb}
			ev.c.heldAt, ev.c.turn = ev.cb, len(turns)
			turns = append(turns, t)
			st.logf("caller %d is inside: held in %s (turn %d)", ev.c.idx, cbNames[ev.cb], ev.c.turn)
			fmt.Fprintf(&order, "H%d%c;", ev.c.idx, "rgsw"[ev.cb])
			if batch < len(spec.Batches) {
				cs := launch(false)
				t.launched = len(cs)
				st.settle(cs)
				for _, c := range cs {
					switch c.settled {
					case "blocked":
						t.blocked++
					case "held-in-callback":
						t.held++
					}
					st.logf("caller %d while caller %d is held: %s", c.idx, ev.c.idx, c.settled)
				}
			}
			if spec.AddOp == len(turns)-1 {
				sl.addOp(g, len(sl.facts), g.keys[rng.Intn(4)])
				r.Count("staggered_operations_added_while_a_caller_was_held", 1)
			}
			for _, c := range callers {
				if c != ev.c && c.settled == "blocked" && !c.returned.Load() && !c.holdUsed.Load() {
					t.waiting++
				}
			}
			st.logf("caller %d released (%d seen waiting)", ev.c.idx, t.waiting)
			close(ev.c.release)
		}
		// closing calls: the settled answer
		for _, c := range closing {
			if !start(c) {
				return
			}
			ev := <-st.events
			for ev.kind != evReturned { // NOTE closing callers are never held
				ev = <-st.events
			}
			returnedOrder = append(returnedOrder, c)
			switch {
			case c.err != nil:
				st.logf("closing %s returned error: %v", entry(c), c.err)
			case c.pr != nil:
				st.logf("closing %s returned proposal %s", entry(c), short(proposalID(c.pr)))
			}
		}
	})
	if !ok {
		close(st.abort)

		return
	}

	// ---- what was observed
	st.mu.Lock()
	lg := append([]string(nil), st.log...)
	stored := append([]base.ProposalSignFact(nil), st.stored...)
	maxInside := st.maxInside
	st.mu.Unlock()
	wit := map[string]any{
		"phase": "staggered", "case": ci, "spec": spec.String(), "position": fmt.Sprintf("%v prev %s", ps.point, short(ps.prev.String())),
		"last_block_map": spec.LastBlock, "log": lg,
	}

	all := append(append([]*stCaller(nil), callers...), closing...)
	var nFailedFired, nErr, nOK int
	ids, facts := map[string]base.ProposalSignFact{}, map[string]bool{}
	for _, c := range all {
		r.Count("staggered_calls_"+entry(c), 1)
		if c.fired.Load() {
			r.Count("staggered_failures_injected_"+c.fail, 1)
		}
		switch {
		case c.err != nil:
			nErr++
			if c.fired.Load() {
				nFailedFired++
			} else {
				// NOTE not judged: the statement is about the proposals returned
				r.Count("staggered_error_answers_without_injected_failure", 1)
			}
		case c.pr == nil:
			r.Violation("ProposalMaker:staggered-callers-with-failure:"+failName(spec.Fail)+":"+entry(c)+":no-proposal-and-no-error",
				fmt.Sprintf("%s: %s returned neither a proposal nor an error", ps.name, entry(c)), wit)
		default:
			nOK++
			ids[proposalID(c.pr)] = c.pr
			facts[c.pr.Fact().Hash().String()] = true
		}
	}
	r.Count("staggered_cases", 1)
	r.Count("staggered_cases_"+spec.Kind, 1)
	r.Count("staggered_callers", len(callers))
	r.Count("staggered_proposals_returned", nOK)
	r.Count("proposals_returned", nOK)
	r.Count("staggered_error_answers", nErr)
	r.Count("staggered_error_answers_from_injected_failure", nFailedFired)
	r.Count("staggered_turns_a_caller_was_held_inside", len(turns))
	if maxInside > 1 {
		r.Count("staggered_cases_with_several_callers_inside_callbacks_at_once", 1)
	}
	r.Count("staggered_callbacks_from_unknown_goroutines", int(st.unknown.Load()))
	pattern := 0
	for ti, t := range turns {
		r.Count("staggered_held_in_"+cbNames[t.cb], 1)
		r.Count("staggered_arrivals_while_a_caller_was_held", t.launched)
		r.Count("staggered_arrivals_confirmed_blocked_inside_maker", t.blocked)
		r.Count("staggered_arrivals_got_into_callback_while_another_was_held", t.held)
		if t.caller.err != nil && t.waiting > 0 {
			r.Count("staggered_held_callers_failed_with_others_waiting", 1)
			if ti+1 < len(turns) && turns[ti+1].launched > 0 {
				pattern++
			}
		}
		if t.caller.err == nil && t.waiting > 0 {
			r.Count("staggered_held_callers_succeeded_with_others_waiting", 1)
		}
	}
	for _, c := range callers {
		if c.settled == "unconfirmed" {
			r.Count("staggered_arrivals_not_confirmed", 1)
		}
		if c.settled == "alone" {
			r.Count("staggered_arrivals_with_nobody_inside", 1)
		}
	}
	r.Count("staggered_failed_holder_with_waiters_then_arrivals_while_next_is_served", pattern)
	// success after failure / failure after success, in order of return
	var seenErr, seenOK, okAfterErr, errAfterOK bool
	for _, c := range returnedOrder {
		switch {
		case c.err != nil:
			seenErr = true
			errAfterOK = errAfterOK || seenOK
		case c.pr != nil:
			seenOK = true
			okAfterErr = okAfterErr || seenErr
		}
	}
	if okAfterErr {
		r.Count("staggered_cases_with_success_after_failure", 1)
	}
	if errAfterOK {
		r.Count("staggered_cases_with_failure_after_success", 1)
	}

	hs := fnv.New64a()
	_, _ = hs.Write([]byte(order.String()))
	r.SetAdd("staggered_schedules_seen", fmt.Sprintf("%s|%x", spec.String(), hs.Sum64()))
	r.Case(spec.String())

	// ---- oracle
	sigp := "ProposalMaker:staggered-callers-with-failure:" + failName(spec.Fail)
	if len(ids) > 1 {
		shape := "same-fact-signed-differently"
		if len(facts) > 1 {
			shape = "different-proposal-facts"
		}
		r.Violation(sigp+":different-proposals-for-one-position:"+shape,
			fmt.Sprintf("%s: %d different signed proposals (%d facts) were returned for one position by %d successful calls (%d calls failed, %d of them by injected %s)",
				ps.name, len(ids), len(facts), nOK, nErr, nFailedFired, failName(spec.Fail)), wit)
	}
	for _, pr := range ids {
		checkProposal(r, g, ps, pr, func() any { return wit })
	}
	sids := map[string]bool{}
	for _, pr := range stored {
		f := pr.ProposalFact()
		if f.Point().Equal(ps.point) && f.PreviousBlock().Equal(ps.prev) && f.Proposer().Equal(g.local.Address()) {
			sids[proposalID(pr)] = true
		}
	}
	r.Count("staggered_local_proposals_stored", len(sids))
	if len(sids) > 1 {
		r.Violation(sigp+":several-local-proposals-stored-for-one-position",
			fmt.Sprintf("%s: the maker stored %d different proposals of the local node for one position", ps.name, len(sids)), wit)
	}
	if nOK > 0 {
		switch pr, found, err := sl.pool.ProposalByPoint(ps.point, g.local.Address(), ps.prev); {
		case err != nil:
			r.Violation("ProposalByPoint:error", err.Error(), wit)
		case !found:
			r.Violation(sigp+":returned-proposal-not-in-pool", ps.name+": a proposal was handed out but the pool has none by point", wit)
		case len(ids) == 1 && ids[proposalID(pr)] == nil:
			r.Violation(sigp+":pool-has-another-proposal", ps.name+": the pool returns a proposal other than the one handed out", wit)
		}
		r.Count("staggered_pool_lookups_compared", 1)
	}

	if ci == 0 || spec.Kind == "random" && ci%16 == 0 {
		w := map[string]any{"phase": "staggered", "spec": spec.String(), "log": lg[:min(len(lg), 24)]}
		if ci == 0 {
			r.Set("staggered_example", w)
		}
		r.Sample(w)
	}
}

func cbName(cb int) string {
	if cb < 0 {
		return "nothing"
	}

	return cbNames[cb]
}

func failName(f string) string {
	if f == fNone {
		return "no-failure"
	}

	return f
}

// staggeredOrder: long cases first (they are run by the same workers as the rounds).
func staggeredOrder(specs []stSpec) []int {
	idx := make([]int, len(specs))
	for i := range idx {
		idx[i] = i
	}
	sort.SliceStable(idx, func(a, b int) bool { return len(specs[idx[a]].Callers) > len(specs[idx[b]].Callers) })

	return idx
}
