// Package vlib is the shared part of the runtime monitors: run bookkeeping,
// deterministic PRNG, evidence writer, known-findings lookup and the verdict
// protocol spoken with /verif/check (see DESIGN.md sections 1, 3 and 4).
package vlib

import (
	"bufio"
	"encoding/json"
	"fmt"
	"math/rand"
	"os"
	"path/filepath"
	"runtime"
	"runtime/debug"
	"sort"
	"strconv"
	"strings"
	"sync"
	"testing"
	"time"
)

const (
	LevelExploration = "exploration"
	LevelFault       = "fault_enumeration"
)

// Run is one execution of one property's check.
type Run struct {
	t     testing.TB
	ID    string
	Tier  string
	Seed  int64
	Level string

	start time.Time
	root  string // /verif

	mu           sync.Mutex
	evaluations  int64
	distinct     map[string]struct{}
	samples      []any
	maxSamples   int
	extra        map[string]any
	counters     map[string]int64
	sets         map[string]map[string]struct{}
	rule         string
	assumptions  []string
	exhaustive   *bool
	known        map[string]string // sig -> what
	fixed        []string
	knownSeen    map[string]bool
	violations   []violation
	violSigs     map[string]bool
	inconclusive []string
	finished     bool
}

type violation struct {
	Sig     string `json:"sig"`
	What    string `json:"what"`
	Replay  string `json:"replay"`
	Witness any    `json:"witness,omitempty"`
}

func env(k, def string) string {
	if v := os.Getenv(k); v != "" {
		return v
	}
	return def
}

// Start opens a run. level is one of the EVIDENCE.schema levels.
func Start(t testing.TB, id, level string) *Run {
	seed, err := strconv.ParseInt(env("VERIF_SEED", "1"), 10, 64)
	if err != nil {
		seed = 1
	}
	tier := env("VERIF_TIER", "quick")
	if tier != "quick" && tier != "thorough" {
		tier = "quick"
	}
	r := &Run{
		t: t, ID: id, Tier: tier, Seed: seed, Level: level,
		start:      time.Now(),
		root:       env("VERIF_ROOT", "/verif"),
		distinct:   map[string]struct{}{},
		maxSamples: 6,
		extra:      map[string]any{},
		counters:   map[string]int64{},
		sets:       map[string]map[string]struct{}{},
		known:      map[string]string{},
		knownSeen:  map[string]bool{},
		violSigs:   map[string]bool{},
	}
	r.loadKnown()
	return r
}

func (r *Run) loadKnown() {
	f, err := os.Open(filepath.Join(r.root, "known_findings.txt"))
	if err != nil {
		return
	}
	defer f.Close()
	sc := bufio.NewScanner(f)
	sc.Buffer(make([]byte, 1<<20), 1<<20)
	for sc.Scan() {
		line := strings.TrimSpace(sc.Text())
		if line == "" || strings.HasPrefix(line, "#") {
			continue
		}
		switch {
		case strings.HasPrefix(line, "known:"):
			rest := strings.TrimSpace(strings.TrimPrefix(line, "known:"))
			what := ""
			if i := strings.Index(rest, " -- "); i >= 0 {
				what = strings.TrimSpace(rest[i+4:])
				rest = rest[:i]
			}
			var prop, sig string
			for _, f := range strings.Fields(rest) {
				if strings.HasPrefix(f, "property=") {
					prop = strings.TrimPrefix(f, "property=")
				}
				if strings.HasPrefix(f, "sig=") {
					sig = strings.TrimPrefix(f, "sig=")
				}
			}
			if prop == r.ID && sig != "" {
				r.known[sig] = what
			}
		case strings.HasPrefix(line, "fixed:"):
			if strings.Contains(line, "property="+r.ID+" ") {
				r.fixed = append(r.fixed, line)
			}
		}
	}
}

func (r *Run) Quick() bool    { return r.Tier == "quick" }
func (r *Run) Thorough() bool { return r.Tier == "thorough" }

// N picks the case count for the tier.
func (r *Run) N(quick, thorough int) int {
	if r.Quick() {
		return quick
	}
	return thorough
}

// Rand returns a PRNG determined by VERIF_SEED and the given indices only.
func (r *Run) Rand(idx ...int) *rand.Rand {
	s := uint64(r.Seed)*0x9E3779B97F4A7C15 + 0xD1B54A32D192ED03
	for _, i := range idx {
		s ^= uint64(i) + 0x9E3779B97F4A7C15 + (s << 6) + (s >> 2)
		s *= 0xBF58476D1CE4E5B9
	}
	return rand.New(rand.NewSource(int64(s >> 1)))
}

func (r *Run) Eval(n int) {
	r.mu.Lock()
	r.evaluations += int64(n)
	r.mu.Unlock()
}

// Distinct records the fingerprint of a non-trivial case (by the stated rule).
func (r *Run) Distinct(fp string) {
	r.mu.Lock()
	if len(r.distinct) < 2_000_000 {
		r.distinct[fp] = struct{}{}
	}
	r.mu.Unlock()
}

// Case = Eval(1) + Distinct(fp).
func (r *Run) Case(fp string) {
	r.mu.Lock()
	r.evaluations++
	if len(r.distinct) < 2_000_000 {
		r.distinct[fp] = struct{}{}
	}
	r.mu.Unlock()
}

func (r *Run) Sample(v any) {
	r.mu.Lock()
	if len(r.samples) < r.maxSamples {
		r.samples = append(r.samples, v)
	}
	r.mu.Unlock()
}

func (r *Run) SetRule(s string) { r.mu.Lock(); r.rule = s; r.mu.Unlock() }
func (r *Run) Assume(s string) {
	r.mu.Lock()
	r.assumptions = append(r.assumptions, s)
	r.mu.Unlock()
}
func (r *Run) Exhaustive(b bool) { r.mu.Lock(); r.exhaustive = &b; r.mu.Unlock() }
func (r *Run) Set(k string, v any) {
	r.mu.Lock()
	r.extra[k] = v
	r.mu.Unlock()
}
func (r *Run) Count(k string, n int) {
	r.mu.Lock()
	r.counters[k] += int64(n)
	r.mu.Unlock()
}
func (r *Run) Counter(k string) int64 {
	r.mu.Lock()
	defer r.mu.Unlock()
	return r.counters[k]
}

// SetAdd counts distinct members per named set (reported as a count).
func (r *Run) SetAdd(k, member string) {
	r.mu.Lock()
	m := r.sets[k]
	if m == nil {
		m = map[string]struct{}{}
		r.sets[k] = m
	}
	if len(m) < 1_000_000 {
		m[member] = struct{}{}
	}
	r.mu.Unlock()
}

func (r *Run) Logf(format string, a ...any) {
	fmt.Fprintf(os.Stderr, "["+r.ID+"] "+format+"\n", a...)
}

// IsKnown tells whether sig is a listed known finding of this property.
func (r *Run) IsKnown(sig string) bool {
	_, ok := r.known[sig]
	return ok
}

// Violation reports a refuting observation. sig is the canonical signature
// (no whitespace). A listed known finding is printed as KNOWN-FINDING and does
// not fail the run; anything else is a VIOLATION with a replay file.
func (r *Run) Violation(sig, what string, witness any) {
	sig = strings.Join(strings.Fields(sig), "_")
	r.mu.Lock()
	defer r.mu.Unlock()
	if _, ok := r.known[sig]; ok {
		r.knownSeen[sig] = true
		return
	}
	if r.violSigs[sig] {
		r.counters["violation_repeats"]++
		return
	}
	r.violSigs[sig] = true
	if len(r.violations) >= 25 {
		r.counters["violations_not_listed"]++
		return
	}
	dir := filepath.Join(r.root, "replays")
	_ = os.MkdirAll(dir, 0o755)
	path := filepath.Join(dir, fmt.Sprintf("%s-%s-seed%d-%d.json", r.ID, r.Tier, r.Seed, len(r.violations)+1))
	v := violation{Sig: sig, What: what, Replay: path, Witness: witness}
	b, err := json.MarshalIndent(map[string]any{
		"property_id": r.ID, "tier": r.Tier, "seed": r.Seed, "sig": sig, "what": what, "witness": witness,
	}, "", " ")
	if err != nil {
		b, _ = json.MarshalIndent(map[string]any{
			"property_id": r.ID, "tier": r.Tier, "seed": r.Seed, "sig": sig, "what": what, "witness": fmt.Sprintf("%+v", witness),
		}, "", " ")
	}
	_ = os.WriteFile(path, b, 0o644)
	r.violations = append(r.violations, v)
	fmt.Fprintf(os.Stderr, "[%s] violation sig=%s: %s\n", r.ID, sig, what)
}

// Violated reports whether sig was already reported (known or not).
func (r *Run) NViolations() int {
	r.mu.Lock()
	defer r.mu.Unlock()
	return len(r.violations)
}

func (r *Run) Inconclusive(reason string) {
	r.mu.Lock()
	if len(r.inconclusive) < 20 {
		r.inconclusive = append(r.inconclusive, reason)
	}
	r.mu.Unlock()
	fmt.Fprintf(os.Stderr, "[%s] inconclusive: %s\n", r.ID, reason)
}

// Guard runs f and turns a panic of the code under test into a violation
// ("the call did not deliver the answer the property demands").
func (r *Run) Guard(sigPrefix string, witness any, f func()) (panicked bool) {
	defer func() {
		if e := recover(); e != nil {
			panicked = true
			st := string(debug.Stack())
			r.Violation(sigPrefix+":panic:"+PanicSite(st), fmt.Sprintf("panic: %v", e), map[string]any{"input": witness, "stack": trimStack(st)})
		}
	}()
	f()
	return false
}

// PanicSite extracts the first mitum (non-harness) function in a stack.
func PanicSite(st string) string {
	for _, line := range strings.Split(st, "\n") {
		line = strings.TrimSpace(line)
		if strings.HasPrefix(line, "github.com/spikeekips/mitum/") {
			if i := strings.LastIndex(line, "("); i > 0 {
				line = line[:i]
			}
			return strings.TrimPrefix(line, "github.com/spikeekips/mitum/")
		}
	}
	return "unknown"
}

func trimStack(st string) string {
	if len(st) > 4000 {
		return st[:4000]
	}
	return st
}

// WithWatchdog runs f; if it does not return within d the case is
// inconclusive (never a violation) and false is returned. f keeps running.
func (r *Run) WithWatchdog(d time.Duration, name string, f func()) bool {
	done := make(chan struct{})
	go func() {
		defer close(done)
		f()
	}()
	select {
	case <-done:
		return true
	case <-time.After(d):
		buf := make([]byte, 1<<20)
		n := runtime.Stack(buf, true)
		dir := filepath.Join(r.root, "replays")
		_ = os.MkdirAll(dir, 0o755)
		p := filepath.Join(dir, fmt.Sprintf("%s-watchdog-seed%d.txt", r.ID, r.Seed))
		_ = os.WriteFile(p, buf[:n], 0o644)
		r.Inconclusive("watchdog fired after " + d.String() + " in " + name + " (goroutines: " + p + ")")
		return false
	}
}

// Finish writes the evidence file and the result file read by /verif/check.
func (r *Run) Finish() {
	r.mu.Lock()
	defer r.mu.Unlock()
	if r.finished {
		return
	}
	r.finished = true

	cov := map[string]any{}
	for k, v := range r.extra {
		cov[k] = v
	}
	for k, v := range r.counters {
		cov[k] = v
	}
	for k, m := range r.sets {
		cov[k] = len(m)
	}
	cov["evaluations"] = r.evaluations
	cov["distinct_nontrivial"] = len(r.distinct)
	cov["rule"] = r.rule
	samples := r.samples
	if samples == nil {
		samples = []any{}
	}
	cov["samples"] = samples
	if r.exhaustive != nil {
		cov["exhaustive"] = *r.exhaustive
	}
	kf := []string{}
	for sig := range r.knownSeen {
		kf = append(kf, sig)
	}
	sort.Strings(kf)
	cov["known_findings_reobserved"] = kf
	notSeen := []string{}
	for sig := range r.known {
		if !r.knownSeen[sig] {
			notSeen = append(notSeen, sig)
		}
	}
	sort.Strings(notSeen)
	cov["known_findings_not_reobserved"] = notSeen
	if len(r.inconclusive) > 0 {
		cov["inconclusive"] = r.inconclusive
	}
	if len(r.violations) > 0 {
		cov["violation_list"] = r.violations
	}

	// a monitor that observed nothing is inconclusive, never a pass
	if r.evaluations == 0 || len(r.distinct) < 2 {
		r.inconclusive = append(r.inconclusive, fmt.Sprintf("monitor observed too little: evaluations=%d distinct=%d", r.evaluations, len(r.distinct)))
		cov["inconclusive"] = r.inconclusive
	}

	ev := map[string]any{
		"property_id": r.ID,
		"tier":        r.Tier,
		"seed":        r.Seed,
		"level":       r.Level,
		"coverage":    cov,
		"assumptions": append([]string{}, r.assumptions...),
		"wall_s":      time.Since(r.start).Seconds(),
		"violations":  len(r.violations),
	}
	b, err := json.MarshalIndent(ev, "", " ")
	if err != nil {
		// samples that cannot be marshalled are stringified
		ss := make([]any, len(samples))
		for i := range samples {
			ss[i] = fmt.Sprintf("%+v", samples[i])
		}
		cov["samples"] = ss
		delete(cov, "violation_list")
		b, _ = json.MarshalIndent(ev, "", " ")
	}
	evdir := env("VERIF_EVIDENCE_DIR", filepath.Join(r.root, "evidence"))
	_ = os.MkdirAll(evdir, 0o755)
	if err := os.WriteFile(filepath.Join(evdir, r.ID+".json"), b, 0o644); err != nil {
		r.t.Errorf("write evidence: %v", err)
	}

	var lines []string
	for _, sig := range kf {
		lines = append(lines, fmt.Sprintf("KNOWN-FINDING: property=%s %s [sig=%s]", r.ID, r.known[sig], sig))
	}
	for _, v := range r.violations {
		lines = append(lines, fmt.Sprintf("VIOLATION property=%s replay=%s", r.ID, v.Replay))
		lines = append(lines, fmt.Sprintf("DETAIL property=%s sig=%s %s", r.ID, v.Sig, v.What))
	}
	for _, s := range r.inconclusive {
		lines = append(lines, fmt.Sprintf("INCONCLUSIVE property=%s %s", r.ID, s))
	}
	lines = append(lines, fmt.Sprintf("DONE property=%s evaluations=%d distinct=%d violations=%d wall_s=%.1f", r.ID, r.evaluations, len(r.distinct), len(r.violations), time.Since(r.start).Seconds()))
	out := strings.Join(lines, "\n") + "\n"
	if p := os.Getenv("VERIF_RESULT_FILE"); p != "" {
		_ = os.WriteFile(p, []byte(out), 0o644)
	}
	fmt.Print(out)
	if len(r.violations) > 0 {
		r.t.Errorf("%d violation(s)", len(r.violations))
	}
}

// WorkDir returns a scratch directory for this run (removed by the driver).
func (r *Run) WorkDir() string {
	d := env("VERIF_WORK", filepath.Join(r.root, ".work", fmt.Sprintf("%s.%d", r.ID, os.Getpid())))
	_ = os.MkdirAll(d, 0o755)
	return d
}

// Parallel runs f(i) for i in [0,n) on w workers.
func Parallel(n, w int, f func(i int)) {
	if w < 1 {
		w = 1
	}
	var wg sync.WaitGroup
	ch := make(chan int, w)
	for k := 0; k < w; k++ {
		wg.Add(1)
		go func() {
			defer wg.Done()
			for i := range ch {
				f(i)
			}
		}()
	}
	for i := 0; i < n; i++ {
		ch <- i
	}
	close(ch)
	wg.Wait()
}
