#!/usr/bin/env python3
"""keep_seed.py <ID> <name> <check_exit> "<detected by / note>"  — stores a confirmed seeded break under /verif/seeded/<ID>[-name]/"""
import json, os, shutil, sys, glob
pid, name, code, note = sys.argv[1], sys.argv[2], int(sys.argv[3]), sys.argv[4]
src = sys.argv[5] if len(sys.argv) > 5 else '/tmp/seedout/' + pid
dst = '/verif/seeded/' + pid + ('' if name == '-' else '-' + name)
os.makedirs(dst, exist_ok=True)
for f in glob.glob(src + '/*'):
    if f.endswith(('.log',)) or os.path.isdir(f): continue
    shutil.copy(f, dst)
m = json.load(open(dst + '/meta.json'))
m['breaks_property'] = pid
m['coordinator_confirmation'] = {
    'ran': ['fresh worktree of /repo HEAD + git apply patch.diff + go build ./...', 'demo with change (fails) / without (passes)', 'VERIF_REPO=<worktree> ./check %s quick' % pid],
    'check_exit': code, 'caught': code == 1, 'note': note}
json.dump(m, open(dst + '/meta.json', 'w'), indent=1)
print('kept', dst)
