#!/bin/sh
# appends "fixed:" lines for slugs listed in /tmp/fixq.log (slug commit) using the commit subject
while read slug commit; do
  subj=$(git -C /repo log -1 --format=%s $commit | sed 's/^fix: //')
  echo "fixed: property=$(echo $slug | cut -c1-3) $commit before the fix: $subj did not hold (see fixes/$slug.msg for the failing case)" >> /verif/known_findings.txt
done < ${1:-/tmp/fixq.log}
