#!/usr/bin/env python3
"""seed_prompt.py <ID> <round>  — prints the prompt given to an independent seeding sub-agent.

The agent sees only the property text (from properties.jsonl), one-paragraph
summaries of the changes earlier rounds already produced for this property
(so that it writes a different one) and the path of its own scratch worktree.
Nothing about /verif's checks is passed on.
"""
import json, sys, glob, os
pid, rnd = sys.argv[1], sys.argv[2]
ROOT = os.path.dirname(os.path.abspath(__file__))
prop = None
for ln in open(os.path.join(ROOT, 'properties.jsonl')):
    p = json.loads(ln)
    if p['id'] == pid:
        prop = p
assert prop
earlier = []
for d in sorted(glob.glob(os.path.join(ROOT, 'seeded', pid + '*'))):
    try:
        m = json.load(open(d + '/meta.json'))
    except Exception:
        continue
    s = m.get('summary') or m.get('what') or ''
    if isinstance(s, list):
        s = ' '.join(s)
    earlier.append('- ' + s.strip().replace('\n', ' ')[:700])
low = pid.lower()
wt = '/tmp/seed-%s' % low
out = '/tmp/seedout%s/%s' % (rnd, pid)
print(f"""You are helping to evaluate a verification framework for the Go repository spikeekips/mitum (a blockchain node framework implementing ISAAC voting consensus). Your job is to write ONE realistic, subtle change to the repository that BREAKS the semantic property below, while the repository still compiles and its existing tests still pass. This is mutation-style testing of the verification framework, done in a sealed sandbox on a scratch copy; nothing you write is ever shipped.

## The property ({pid})
Title: {prop['title']}
Statement: {prop['statement']}
Quantifier: {json.dumps(prop['quantifier'])}
Anchors (where the behaviour lives): {json.dumps(prop['anchors'])}

## Your scratch worktree
`{wt}` is a git worktree of the repository made for you (detached HEAD). Work ONLY there. Never touch /repo or /verif (do not even read /verif). Do not commit.
Every shell call needs: `export GOFLAGS=-mod=mod GOPROXY=off GOSUMDB=off GOTOOLCHAIN=local` (no network). Go is 1.23.5. Most packages only build their tests with `-tags test` (e.g. `go test -tags test -count=1 ./isaac/...`); `util/...` tests run without a tag. Some test binaries of the unchanged tree fail only at a top-level goleak check ("found unexpected goroutines") or (util workers/retry/daemon tests) fail in this sandbox anyway — compare with the unchanged tree (git stash / git apply -R) before blaming your change. Files named *_verif.go (build tag verif) are instrumentation; leave them alone and do not rely on them.

## What kind of change
- It must look like something a maintainer could plausibly write (a refactor, an optimisation, a "simplification", a cache, a changed bound, a reordered pair of statements, a lock narrowed, an error path changed...), not sabotage with an obvious marker. No comments that give it away.
- It must NOT be exposed at once by ordinary use. It should need something specific to manifest: a particular interleaving, a crash or fault at a particular point, a multi-step sequence of operations, an unusual/degenerate input, state surviving between calls, or two cooperating sites that each look fine alone.
- `go build ./...` and `go vet -tags test` of the touched packages must pass, and the existing tests of the touched packages (and direct dependants you think might notice) must pass exactly as on the unchanged tree.
- It must be DIFFERENT IN KIND from these changes that earlier rounds already produced for this property (different mechanism and, if possible, a different function/file among the anchors or their callees):
{chr(10).join(earlier) if earlier else '- (none yet)'}

## Deliverables — write them to `{out}/` (create it)
1. `patch.diff` — `git diff` of your change against HEAD of the worktree (only the breaking change, not the demonstration).
2. A demonstration: a Go test file `seed{rnd}_{low}_demo_test.go` (to be copied into a package directory of the worktree, external-test or in-package as you need) that FAILS with the change and PASSES without it, deterministically or at least very reliably (say so). It must show the property itself being violated (as stated above), not merely that code differs.
3. `meta.json`:
```
{{"property": "{pid}",
 "summary": "<one paragraph: what was changed and why it breaks the property>",
 "needs_to_manifest": "<what specific input / interleaving / fault / sequence is needed>",
 "files_changed": ["..."],
 "demo": {{"copy_to": "<package dir relative to the worktree root, e.g. isaac/states/>", "file": "seed{rnd}_{low}_demo_test.go", "cmd": "<exact go test command, run from the worktree root, e.g. go test -tags test -count=1 -run TestSeed{rnd}{pid} ./isaac/states/>", "fails_with_change": true, "passes_without": true, "note": "..."}},
 "existing_tests_run": ["<commands you ran and their outcome with the change vs without>"]}}
```
Verify all of it yourself: apply / revert the patch (`git apply -R`) and run the demo both ways; run the existing tests of the touched packages both ways. When finished leave the worktree with the patch applied and the demo file removed from it (the copy in `{out}/` is what counts). Keep build output small; do not create other directories under /tmp. Your final message: a three-line summary (what, where, how it manifests).""")
