#!/bin/sh
# Builds every monitor (plain and race flavour) from files on disk only, so
# that later checks start from a warm build cache.
export GOFLAGS=-mod=mod GOPROXY=off GOSUMDB=off GOTOOLCHAIN=local
cd "$(dirname "$0")/harness" || exit 1
go test -tags 'test verif' -vet=off -count=1 -run '^$' ./... >/dev/null 2>&1 || go test -tags 'test verif' -vet=off -count=1 -run '^$' ./... || exit 1
RACE=$(python3 - <<'PY'
import json
c=json.load(open('../checks.json'))['checks']
import os
print(' '.join('./'+k.lower() for k in sorted(c) if c[k]['race'] and os.path.isdir(k.lower())))
PY
)
if [ -n "$RACE" ]; then
  go test -race -tags 'test verif' -vet=off -count=1 -run '^$' $RACE >/dev/null 2>&1 || go test -race -tags 'test verif' -vet=off -count=1 -run '^$' $RACE || exit 1
fi
echo setup ok
