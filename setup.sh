#!/bin/sh
# Builds every claimed monitor (plain or race flavour, as its check uses it)
# from files on disk only, so that later checks start from a warm build cache.
export GOFLAGS=-mod=mod GOPROXY=off GOSUMDB=off GOTOOLCHAIN=local
cd "$(dirname "$0")/harness" || exit 1
PLAIN=$(python3 -c "
import json
m=json.load(open('../MANIFEST.json')); c=json.load(open('../checks.json'))['checks']
print(' '.join('./'+x['property_id'].lower() for x in m['checks'] if not c[x['property_id']]['race']))")
RACE=$(python3 -c "
import json
m=json.load(open('../MANIFEST.json')); c=json.load(open('../checks.json'))['checks']
print(' '.join('./'+x['property_id'].lower() for x in m['checks'] if c[x['property_id']]['race']))")
rc=0
if [ -n "$PLAIN" ]; then
  go test -tags 'test verif' -vet=off -count=1 -run '^$' $PLAIN || rc=1
fi
if [ -n "$RACE" ]; then
  go test -race -tags 'test verif' -vet=off -count=1 -run '^$' $RACE || rc=1
fi
[ $rc = 0 ] && echo setup ok
exit $rc
