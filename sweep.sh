#!/bin/sh
# usage: sweep.sh quick|thorough [ids...]   — runs checks sequentially, prints one line each
tier=${1:-quick}; shift
ids="$@"
[ -z "$ids" ] && ids=$(python3 -c "import json;print(' '.join(c['property_id'] for c in json.load(open('/verif/MANIFEST.json'))['checks']))")
for id in $ids; do
  s=$(date +%s)
  out=$(./check $id $tier 2>/dev/null); code=$?
  e=$(date +%s)
  echo "$id exit=$code $((e-s))s $(echo "$out" | grep -c '^KNOWN-FINDING') known; $(echo "$out" | grep -E '^(VIOLATION|INCONCLUSIVE)' | head -3 | tr '\n' ' ')"
done
