#!/bin/sh
# try_many.sh <srcroot> ids...   runs try_seed.py for each id (4 in parallel), prints one summary line each
src=$1; shift
printf "%s\n" "$@" | xargs -P 4 -I{} sh -c "./try_seed.py {} $src/{} > /tmp/try_{}.out 2>&1; python3 -c \"
import sys,json
t=open('/tmp/try_{}.out').read()
try:
    j=json.loads(t[t.index('{'):])
    print(j['property'], 'applies',j.get('patch_applies'),'builds',j.get('builds'),'demoF',j.get('demo_fails_with_change'),'demoP',j.get('demo_passes_without'),'check_exit',j['check_exit'], [l[:220] for l in j['check_lines'][1:2]])
except Exception as e: print('{} ERR',t[-600:])
\""
