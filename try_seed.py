#!/usr/bin/env python3
"""try_seed.py <ID> [src dir]  — confirms a seeded break and runs the check against it.
Steps: fresh worktree of /repo HEAD, apply patch, build, demo fails with / passes without, ./check <ID> quick via VERIF_REPO."""
import json, os, subprocess, sys, shutil, glob
pid = sys.argv[1]
src = sys.argv[2] if len(sys.argv) > 2 else '/tmp/seedout/' + pid
wt = '/tmp/try-' + pid.lower() + ('-' + os.path.basename(src.rstrip('/')) if len(sys.argv) > 2 else '')
env = dict(os.environ, GOFLAGS='-mod=mod', GOPROXY='off', GOSUMDB='off', GOTOOLCHAIN='local')
def sh(cmd, cwd=None, **kw):
    return subprocess.run(cmd, shell=True, cwd=cwd, env=env, capture_output=True, text=True, **kw)
sh('git -C /repo worktree remove --force %s' % wt); shutil.rmtree(wt, ignore_errors=True)
r = sh('git -C /repo worktree add --detach %s HEAD' % wt); assert r.returncode == 0, r.stderr
res = {'property': pid}
meta = json.load(open(src + '/meta.json'))
r = sh('git apply %s/patch.diff' % src, cwd=wt)
res['patch_applies'] = r.returncode == 0
if r.returncode != 0:
    print(r.stderr)
r = sh('go build ./...', cwd=wt); res['builds'] = r.returncode == 0
demo = meta.get('demo', {})
copy_to, cmd = demo.get('copy_to'), demo.get('cmd')
if copy_to and cmd:
    for f in glob.glob(src + '/*.go'):
        shutil.copy(f, os.path.join(wt, copy_to.replace(wt, '').replace('/tmp/seed-%s/' % pid.lower(), '').strip('/') , os.path.basename(f)))
    cmd = cmd.replace('/tmp/seed-%s' % pid.lower(), wt)
    r1 = sh(cmd, cwd=wt, timeout=1800); res['demo_fails_with_change'] = r1.returncode != 0
    sh('git apply -R %s/patch.diff' % src, cwd=wt)
    r2 = sh(cmd, cwd=wt, timeout=1800); res['demo_passes_without'] = r2.returncode == 0
    if r2.returncode != 0: print(r2.stdout[-1500:], r2.stderr[-1500:])
    sh('git apply %s/patch.diff' % src, cwd=wt)
    # remove demo files so they don't interfere
    for f in glob.glob(src + '/*.go'):
        p = os.path.join(wt, copy_to.replace('/tmp/seed-%s/' % pid.lower(), '').strip('/'), os.path.basename(f))
        if os.path.exists(p): os.remove(p)
out = '/tmp/verif-out-try-%s' % pid
shutil.rmtree(out, ignore_errors=True)
e2 = dict(env, VERIF_REPO=wt, VERIF_OUT=out)
r = subprocess.run(['./check', pid, os.environ.get('TIER', 'quick')], cwd='/verif', env=e2, capture_output=True, text=True)
res['check_exit'] = r.returncode
res['check_lines'] = [l[:300] for l in r.stdout.splitlines() if l.startswith(('VIOLATION', 'DETAIL', 'INCONCLUSIVE'))][:8]
print(json.dumps(res, indent=1))
if os.environ.get('KEEP') != '1':
    sh('git -C /repo worktree remove --force %s' % wt); shutil.rmtree(out, ignore_errors=True)
