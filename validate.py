#!/opt/veriftools/pyvenv/bin/python
import json, jsonschema, sys, os
m = json.load(open('/verif/MANIFEST.json'))
jsonschema.validate(m, json.load(open('/root/.vp/MANIFEST.schema.json')))
es = json.load(open('/root/.vp/EVIDENCE.schema.json'))
props = [json.loads(l)['id'] for l in open('/verif/properties.jsonl')]
claimed = [c['property_id'] for c in m['checks']]
na = [c['property_id'] for c in m.get('not_applicable', [])]
assert sorted(claimed + na) == sorted(props), (set(props) - set(claimed) - set(na))
bad = 0
for c in m['checks']:
    p = c['evidence_file']
    if not os.path.exists(p):
        print('missing evidence', p); bad += 1; continue
    try:
        ev = json.load(open(p)); jsonschema.validate(ev, es)
        assert ev['level'] == c['level_claimed']['category'], 'level mismatch'
        print(c['property_id'], ev['tier'], 'evals', ev['coverage'].get('evaluations'), 'distinct', ev['coverage'].get('distinct_nontrivial'), 'viol', ev.get('violations'), '%.0fs' % ev['wall_s'])
    except Exception as e:
        print('INVALID', p, str(e)[:200]); bad += 1
print('manifest ok; claimed', len(claimed), 'bad evidence', bad)
sys.exit(1 if bad else 0)
